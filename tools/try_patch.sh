#!/bin/bash
# usage: try_patch.sh [-R] <patch.diff> <prop> [<prop>…]   — apply a patch to /repo, run the quick checks, undo.
# Used only while developing the checker (seeded changes, reverted fixes); never by a registered check.
REV=""
if [ "$1" = "-R" ]; then REV="-R"; shift; fi
P="$1"; shift
cd /repo || exit 2
if ! git diff --quiet; then echo "/repo has uncommitted changes; refusing"; exit 2; fi
git apply $REV "$P" || { echo "patch does not apply"; exit 2; }
rc=0
for prop in "$@"; do
  /verif/bin/rcheck -property "$prop" -tier quick | grep -v "^KNOWN-FINDING" | head -${LINES_MAX:-12}
done
git checkout -- . 
