#!/usr/bin/env python3
"""Generates /verif/MANIFEST.json from the table below (single source of truth for claims)."""
import json, sys

BASE = json.load(open('/root/.vp/BASELINE.json'))

# id -> (implemented, technique, level text, level note)
P = {
 "C01": (False, "who-may + must-pass-through (SSA edge cuts) + lockset: rebuild/flood requested after every topology write; table and costs replaced in one critical section; positive edge costs", "", ""),
 "C02": (False, "agreement tables: encoder/decoder byte layouts and framer prefix; single delivery site keyed by ToService on the local node; address fields immutable", "", ""),
 "C03": (False, "value identity + path rules on the bridge/relay code only", "", ""),
 "C04": (True, "who-may-open + open-flag discipline for the status file, failure-assumption path rules on allocate/restart (SSA edge cuts), sibling check over all WorkUnit.Restart implementations, may-hold lock re-entrancy, persist-before-proceed ordering",
         "Decides structural clauses of crash/restart survival for every crash point and request: only StatusFileData.{Save,Load,UpdateFullStatus} open a unit's status file and none may rewrite it destructively in place (today's O_TRUNC/Truncate writers are listed as known finding K1); assuming Save or SetFromParams fails, AllocateUnit neither indexes nor returns the unit, and Save precedes indexing; AllocateRemoteUnit returns the unit only if writing its remote binding succeeded; the submit command evaluates the unit ID only after a successful allocation; at restart a failed Load or non-pending Restart error leads to a Failed record before indexing, and every WorkUnit.Restart implementation fails (or errors on) a record still pending; no same-goroutine re-acquisition of the unit-index/work-type/status locks; the remote unit ID is persisted before the remote submission continues. It does not decide the outcome at each individual crash point or fsync behaviour.",
         "Trusts go/types, go/ssa, VTA; rename-vs-truncate atomicity facts of POSIX file systems; lockedfile."),
 "C05": (False, "edge-cut on the results goroutine exits; value identity for read position and sent slice; append-only mirror", "", ""),
 "C06": (True, "exhaustive abstract evaluation of the freshness comparison chain over the 9 orderings of (epoch, sequence) vs stored; SSA edge cuts for dedup/self-origin; must-pass-through of the dedup insert; lockset atomicity; who-may/single-writer tables",
         "Decides, for every routing update, that handleRoutingUpdate's comparison chain accepts exactly the newer updates (all 9 orderings of update epoch/sequence against the stored pair are evaluated on the SSA; the quantities are only compared, so this is exhaustive); that picture writes and the relay are unreachable from the already-seen edge, the self-origin edge and the empty-origin edge; that the UpdateID is recorded before any effect on every path and in the same write-lock section as the lookup; that the relay excludes the receiving connection, which is the established peer ID, and is stamped with our ID; that sequence/epoch have single writers and the dedup/picture maps are accessed under their locks. It does not decide mesh-level behaviour over delivery orders.",
         "Trusts go/types, go/ssa; assumes epoch/sequence are used only through comparisons and copies (the evaluator stops otherwise)."),
 "C07": (True, "wire-cone panic-freedom: compiler BCE report + discharge idioms, nil-guard obligations on decoded pointer fields, type-assert/panic/close scans, lockset re-entrancy and lock-order graph, cost-positivity path rule",
         "Decides, for every input a backend peer can send, the structural clauses without which C07 cannot hold: no index/slice in the wire cone (90 functions reachable from received bytes) that is neither compiler-proven nor covered by a stated idiom; no dereference of a JSON-decoded pointer field without a dominating nil test; no unchecked type assertion, explicit panic or non-owner channel close in the cone; no re-entrant lock acquisition or lock-order cycle among the Netceptor locks; peer-supplied costs are rejected unless positive before they can reach the shortest-path loop. It does not decide resource exhaustion or liveness afterwards.",
         "Trusts go/types, go/ssa, the VTA call graph (dependencies opaque in the quick tier), the compiler's prove pass, and the library contracts listed in the evidence file (io.Reader counts, strings.Split, json.Unmarshal nil-ness)."),
 "C08": (True, "control-cone panic-freedom (container-provenance type-assert rule, compiler BCE report + idioms), may-hold lockset re-entrancy incl. recursive read locks, ERROR-reply must-pass-through (SSA edge cuts), no client I/O under shared locks",
         "Decides, for every byte sequence a control client can send, the structural clauses of C08: no comma-less type assertion on a value taken out of a JSON container anywhere in the control cone (384 functions); no compiler-unproven index/slice in session/command-parsing code without a stated idiom and none at all in the session loop; no explicit panic; no call made while a unit-index/work-type/status/control-function lock may be held whose same-goroutine callees acquire that lock again (self-deadlock, including RLock under RLock); assuming any of the seven failure sources of a request line fails, every path to the next read or return passes an ERROR-prefixed reply; no client socket I/O with a shared lock held. It does not decide memory growth, latency or replies of remote nodes.",
         "Trusts go/types, go/ssa, VTA, the compiler's prove pass, and the stated contracts (json.Unmarshal container shapes; typed ExtraData invariant)."),
 "C09": (True, "SSA edge cuts / failure-assumption rules inside the verifier closure, captured-state (statelessness) rule, role/digest agreement tables, constant-propagating path rule for verifier installation, who-may on InsecureSkipVerify and ReceptorVerifyFunc call sites, verifier chaining rule",
         "Decides, for every certificate chain and configuration, that the verifier closure returns nil only if a certificate was presented, every certificate parsed, (no pins configured or a fingerprint flag that becomes true only on bytes.Equal with the digest of certs[0].Raw by the hash of matching size), x509 Verify with the role's pool and key usage at time.Now succeeded, and (not receptor mode or the expected node ID was found); that the verifier only reads the variables it captured (no state survives a handshake); that unknown roles fail; that InsecureSkipVerify=true is stored only on configs that get a VerifyPeerCertificate; that client and server profile verifiers receive the profile's pins, that every client-verifying ClientAuth setting leads to installing the verifier, and that the stream listener's node-binding verifier chains the profile's verifier and expects the packet source node; that name matching is plain == and decode errors propagate. It does not decide X.509 path validation.",
         "Trusts go/types, go/ssa, crypto/x509 and crypto/tls callback contracts."),
 "C10": (True, "who-may tables (single relay site, senders to a connection, budget-field writers), positive-budget SSA edge cut, value identity of the decremented buffer that is sent, expiry-notice path rule and constant agreement",
         "Decides, for every packet and routing state, the inductive core of the hop bound: forwardMessage is the only relay site and is called only from handleMessageData; only it sends data-typed buffers to a connection; its send is unreachable unless md.HopsToLive > 0; the buffer sent is the encoder's output for the same packet with byte 1 decremented exactly once on every path; the budget field is written only by the decoder (from byte 1) and by SendMessageWithHopsToLive (the caller's value, unmodified, as set by SetHopsToLive/WriteTo); the budget-exhausted edge never reaches the relay and notifies md.FromNode with the four address fields and the 'message expired' constant that traceroute tests for. It does not decide 'reaches iff d <= h' on concrete topologies.",
         "Trusts go/types, go/ssa; byte arithmetic on a positive budget."),
 "C11": (True, "SSA edge cuts with flag threading on the single connection-table insertion (admission tests), lockset atomicity of presence scan + insertion, removal on every exit after insertion and never before it, who-may tables, disconnect-on-mismatch path rules",
         "Decides, for every handshake byte sequence and every schedule, the structural clauses of C11 in runProtocol: one insertion site and one deletion site for the connection table; the insertion is unreachable unless the announced ID is non-empty, differs from the local ID, is on the allow-list when one is set, and the presence scan completed without a hit; scan and insertion share one connLock write section with no release in between; the announced ID is never removed before this session inserted it; every exit after the insertion passes removeConnection with the session's ID; routing updates are handed on only under the established ID; an ID change, a cost disagreement or a reject message leaves the receive loop; self-shutdown needs a duplicate notice naming our epoch. It does not decide outcomes of real handshake races between two nodes.",
         "Trusts go/types, go/ssa, sync.RWMutex semantics; path feasibility is approximated by threading boolean flag phis and constant bool cells only."),
 "C12": (True, "error-flow in rule construction, case-set agreement tables, anchored-regex format, SSA edge cuts: rule evaluation dominates every delivery/forward/notify, Drop/Reject arms cannot reach delivery",
         "Decides, for every rule set and packet, the structural clauses of C12: no error of the rule builders can be dropped (a bad pattern cannot silently widen a rule); parser, literal matcher, regex matcher and BuildComps share one field vocabulary wired to the right packet fields; unknown keys/actions/non-string values only reach failing returns; /regex/ is compiled between ^( and )$; in handleMessageData the merged rule result dominates dispatch, listener delivery, forwarding and notices, the loop stops at the first non-Continue result, the only constant default is Accept, the Drop arm reaches nothing and the Reject arm reaches only the 'blocked by firewall' notice. It does not decide regexp semantics or notice delivery over the mesh.",
         "Trusts go/types, go/ssa, regexp and fmt.Sprintf semantics as stated in the evidence file."),
 "C13": (True, "lockset atomicity of ID generation + indexing, who-may-call, release ordering path rules over all WorkUnit.Release siblings, per-function monotonicity of constant state writes over CFG paths, frozen table of non-constant state writers",
         "Decides for every schedule and command sequence: unit IDs are generated only inside AllocateUnit's activeUnitsLock write section that also indexes the unit (no release in between, callee not self-locking), and a directory is created only for an ID neither indexed nor on disk; every Release implementation reaches the base release, where directory removal precedes the index delete, success implies the delete and a non-forced removal failure never forgets the unit; along every CFG path of every state-writing function of package workceptor (kubernetes worker excluded) constant states never decrease in stage and a terminal constant is never replaced by another; non-constant state writers are a frozen table; Cancel signals, waits, then writes Canceled, and Release cancels first. It does not decide cross-writer races or size monotonicity at run time.",
         "Trusts go/types, go/ssa, sync.RWMutex; path feasibility approximated with flag threading only."),
 "C14": (True, "who-may-open table for the status file, lock-before-open / deferred-unlock path rules, read-modify-write ordering (SSA edge cuts), who-may-call the overwrite primitive, guarded-by lockset with caller-holds/accessor-site tables",
         "Decides the locking protocol of the status record for every interleaving, not its run-time effect: only StatusFileData.{Save,Load,UpdateFullStatus} touch a status file; each opens it only on the success edge of lockStatusFile for the same name and after registering the deferred unlock of the acquired handle; the lock file is <file>.lock via lockedfile; UpdateFullStatus runs the caller's modification only after re-reading a non-empty record and writes only after the modification; UpdateBasicStatus delegates to it; the overwrite-without-re-read Save is called only from AllocateUnit; the in-memory status is accessed only with statusLock held, in constructors, or through lock-free accessors whose every call site holds the unit's lock. It does not decide that the advisory lock excludes on the real file system.",
         "Trusts go/types, go/ssa, lockedfile semantics; lock identity by access path (no alias analysis)."),
 "C15": (True, "SSA edge cuts + dominance: every effectful work command is dominated by the success edge of processSignature with value-identical work type/sign flag/unit; decision and verifier success conditions; who-may-call tables",
         "Decides, for every command and token, that allocate/cancel/release/results effects in the work ControlFunc are unreachable unless processSignature (about the same work type, sign flag and unit) returned nil in the same arm; that processSignature returns nil only for a non-verifying type with an empty token, a Unix-socket peer, or a successful VerifySignature; that VerifySignature returns nil only after non-empty token, configured key, key load, ParseWithClaims with claims validation enabled into RegisteredClaims, token.Valid and VerifyAudience(this node, required); that the key func yields a typed *rsa.PublicKey; and that no other control command reaches the effect functions. It does not decide JWT/RSA cryptography or clocks.",
         "Trusts go/types, go/ssa, and the stated golang-jwt/v4 contracts (default parser validates exp/nbf; method/key type agreement)."),
 "C16": (False, "construction and routing filters of the unreachable notice (edge cuts + field-to-field value identity)", "", ""),
 "C17": (True, "channel-close ownership rule, nil-guard obligations in the close cone, done-signal must-pass-through, owned-release path rule for ephemeral sockets, lost-cancel path rule, per-goroutine termination-arm rule, guarded-by lockset for the listener registry, context-parent table, close-ordering rule",
         "Decides, for every schedule of close/shutdown/traffic in pkg/netceptor and pkg/utils: each close(chan) is a sync.Once body, or is done by the single goroutine that is the channel's only sender and never twice on a path, or belongs to the broker whose delivery goroutines are awaited before it can close subscriber channels; no map-entry pointer is dereferenced in the close cone without a presence/nil test; terminal methods close their done channel on every path; a socket obtained from ListenPacket is closed or handed to an owner on every path, and the owner type releases it (today Conn.Close/CloseConnection do not: known finding K2); every context.With* cancel function is used on every path; every goroutine's blocking channel operations have a context/done/timer arm or block only on owner-closed channels; the listener registry is accessed under listenerLock; derived contexts descend from the node context that Shutdown cancels; Listener.Close closes the QUIC listener before its packet connection. It does not decide actual boundedness of resources at run time.",
         "Trusts go/types, go/ssa, sync.Once/context contracts; quic-go's lock behaviour as observed for R8."),
 "C18": (False, "acceptance guard edge-cut, relay discipline, withdrawal on close, tombstone retention (one-sided comparison)", "", ""),
 "C19": (False, "who-may-call UnredactedStatus; same normaliser on redaction and admission; refusal precedes storage", "", ""),
 "C20": (False, "no constant-offset slicing of DER; decode error propagation; SAN copied verbatim; exact name match", "", ""),
}

def build():
    checks, na = [], []
    for pid in sorted(P):
        impl, tech, text, note = P[pid]
        if not impl:
            na.append({"property_id": pid, "reason": "check not built yet in this revision of /verif (design: DESIGN.md §3 " + pid + "); nothing is claimed for it until its rules run against /repo"})
            continue
        checks.append({
            "property_id": pid,
            "quick_cmd": f"bin/rcheck -property {pid} -tier quick",
            "thorough_cmd": f"bin/rcheck -property {pid} -tier thorough",
            "evidence_file": f"/verif/evidence/{pid}.json",
            "replay_cmd_template": "cat {path}",
            "engine": "rcheck",
            "level_claimed": {"category": "other", "text": text, "design_ref": f"DESIGN.md §3 {pid}"},
            "level_note": note,
            "technique": "static analysis: " + tech,
        })
    m = {
        "version": 1,
        "setup_cmd": "cd /verif/checker && GOFLAGS=-mod=vendor GOPROXY=off GOSUMDB=off GOTOOLCHAIN=local go build -o ../bin/rcheck . && cd /repo && GOFLAGS=-mod=mod GOPROXY=off GOSUMDB=off GOTOOLCHAIN=local go build ./pkg/... ./cmd/... ./internal/...",
        "hooks": {
            "guard": "verif",
            "enable": "none needed: the checks are static and read /repo's working tree as it is; no source hooks exist",
            "baseline_off_cmd": BASE["cmd"],
            "source_commits": [],
            "add_only": True,
        },
        "engines": [{"name": "rcheck", "path": "/verif/checker", "serves_properties": [c["property_id"] for c in checks],
                     "kind_free_text": "repository-specific static analyser (go/packages + go/ssa + VTA call graph + compiler BCE report); one rule table per property"}],
        "checks": checks,
        "not_applicable": na,
        "notes": "All claims are at level 'other': each check decides structural necessary conditions of its property from the source and states in its evidence what it does not decide. Genuine defects found on the pinned tree were repaired by 'fix:' commits in /repo or are listed in /verif/known-findings.txt.",
    }
    json.dump(m, open('/verif/MANIFEST.json', 'w'), indent=1)
    print(len(checks), "checks,", len(na), "not_applicable")

build()
