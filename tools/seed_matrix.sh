#!/bin/bash
# development helper: run every confirmed seed (own property) and every neutral refactor (all properties)
# through `rcheck -try-patch`; writes /verif/seeded/RESULTS.txt (seeds) and prints neutral results.
cd /verif
out=seeded/RESULTS.txt
: > $out.tmp
for d in seeded/C*-*; do
  id=$(basename $d); prop=${id%%-*}
  res=$(bin/rcheck -try-patch $d/patch.diff -props $prop | tr '\n' ' ' | cut -c1-300)
  echo "$id  $res" >> $out.tmp
done
mv $out.tmp $out
if [ "$1" = neutral ]; then
  for n in /tmp/seed/N*/NEUTRAL/*/patch.diff /tmp/seed/NX/*.diff; do
    [ -f $n ] || continue
    echo "== $n: $(bin/rcheck -try-patch $n | tr '\n' ' ' | cut -c1-300)"
  done
fi
