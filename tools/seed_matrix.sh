#!/bin/bash
# development helper: run every confirmed seed against the check of its own property; writes seeded/RESULTS.txt
cd /verif
ls -d seeded/C*-* | xargs -P ${1:-3} -I{} sh -c 'id=$(basename {}); prop=${id%%-*}; echo "$id  $(bin/rcheck -try-patch {}/patch.diff -props $prop | tr "\n" " " | cut -c1-300)"' | sort > seeded/RESULTS.txt.tmp
mv seeded/RESULTS.txt.tmp seeded/RESULTS.txt
