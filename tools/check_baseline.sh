#!/bin/bash
# development helper: run the pinned baseline suite on /repo and list stable-pass tests that did not pass
export GOPROXY=off GOSUMDB=off GOTOOLCHAIN=local; unset GOWORK
out=${1:-/tmp/baseline_run.json}
(cd /repo && go test -mod=mod -json -vet=off -count=1 -timeout 25m ./... > $out 2>/dev/null)
python3 - "$out" <<'PY'
import json,sys,ast
b=json.load(open('/root/.vp/BASELINE.json'))
stable=b['stable_pass']
if isinstance(stable,str): stable=ast.literal_eval(stable)
res={}
for l in open(sys.argv[1]):
    try: e=json.loads(l)
    except Exception: continue
    if e.get('Test') and e.get('Action') in ('pass','fail','skip'):
        res[e['Package']+'::'+e['Test']]=e['Action']
missing=[t for t in stable if res.get(t)!='pass']
print('stable tests:',len(stable),'not passing now:',len(missing))
for t in missing: print('  ',t,res.get(t))
PY
