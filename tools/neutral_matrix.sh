#!/bin/bash
# development helper: run every neutral refactoring under /tmp/seed/N*/NEUTRAL and /tmp/seed/NX/*.diff through all 20 checks
cd /verif
ls /tmp/seed/N*/NEUTRAL/*/patch.diff /tmp/seed/NX/*.diff 2>/dev/null | xargs -P ${1:-3} -I{} sh -c 'echo "== {}: $(bin/rcheck -try-patch {} | tr "\n" " " | cut -c1-300)"'
