#!/usr/bin/env python3
"""Fills the <!-- MATRIX-BEGIN/END --> block of DESIGN.md from seeded/RESULTS.txt and seeded/*/meta.json."""
import json, re, os
V='/verif'
rows=[]
for line in open(f'{V}/seeded/RESULTS.txt'):
    line=line.strip()
    if not line: continue
    sid,_,res=line.partition('  ')
    m=json.load(open(f'{V}/seeded/{sid}/meta.json'))
    what=(m.get('summary') or m.get('what') or '')[:140].replace('|','/').replace('\n',' ')
    mm=re.search(r'detected (\S+)', res)
    det=mm.group(1) if mm else ('NOT DETECTED' if 'quiet' in res else res.strip()[:60])
    rows.append((sid,what,det))
out=['| seed | change (from its meta.json) | caught by (own-property check) |','|---|---|---|']
for sid,what,det in rows:
    out.append(f'| {sid} | {what} | {det} |')
n=sum(1 for r in rows if r[2] not in ('NOT DETECTED',) and not r[2].startswith('error'))
out.append('')
out.append(f'{n} of {len(rows)} seeded changes are reported by the check of the property they were written against.')
s=open(f'{V}/DESIGN.md').read()
a=s.index('<!-- MATRIX-BEGIN -->')+len('<!-- MATRIX-BEGIN -->')
b=s.index('<!-- MATRIX-END -->')
s=s[:a]+'\n'+'\n'.join(out)+'\n'+s[b:]
open(f'{V}/DESIGN.md','w').write(s)
print(n,len(rows))
