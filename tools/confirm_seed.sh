#!/bin/bash
# usage: confirm_seed.sh Cxx V   — confirm a seeded change in a scratch worktree:
#  builds, existing tests of touched packages pass, demo FAILS with the patch and PASSES without.
# On success copies it to /verif/seeded/Cxx-V/{patch.diff,demo_test.go,meta.json} (+confirm.log).
export GOFLAGS=-mod=mod GOPROXY=off GOSUMDB=off GOTOOLCHAIN=local; unset GOWORK
ID=$1; V=$2
SRC=/tmp/seed/$ID/SEED/$V
WT=/tmp/confirm_${ID}_$V
LOG=/tmp/seed/confirm_${ID}_$V.log
exec > $LOG 2>&1
[ -f $SRC/patch.diff ] || { echo "no patch"; exit 2; }
git -C /repo worktree remove --force $WT 2>/dev/null
git -C /repo worktree add -q --detach $WT HEAD || exit 2
cd $WT
DEMO_PATH=$(python3 -c "import json;print(json.load(open('$SRC/meta.json'))['demo_path'])")
DEMO_RUN=$(python3 -c "import json;print(json.load(open('$SRC/meta.json'))['demo_run'])")
# strip env prefixes/cd from demo_run, keep the go test command
DEMO_RUN=$(echo "$DEMO_RUN" | sed -e 's/.*\(go test .*\)$/\1/')
echo "demo_path=$DEMO_PATH"; echo "demo_run=$DEMO_RUN"
PKGS=$(grep '^+++ b/' $SRC/patch.diff | sed 's#+++ b/##' | xargs -n1 dirname | sort -u | sed 's#^#./#' | tr '\n' ' ')
echo "touched pkgs: $PKGS"
res=ok
git apply --check $SRC/patch.diff || { echo "RESULT: patch does not apply"; res=bad; }
if [ $res = ok ]; then
  cp $SRC/demo_test.go $DEMO_PATH
  echo "--- demo WITHOUT patch (expect PASS)"
  if timeout 600 bash -c "$DEMO_RUN" > /tmp/confirm_${ID}_$V.nopatch.out 2>&1 && ! grep -q "no tests to run" /tmp/confirm_${ID}_$V.nopatch.out; then echo PASS; else echo "FAIL (unexpected)"; tail -20 /tmp/confirm_${ID}_$V.nopatch.out; res=bad; fi
  git apply $SRC/patch.diff
  echo "--- build with patch"
  if go build ./pkg/... ./cmd/... ; then echo BUILD-OK; else echo BUILD-FAIL; res=bad; fi
  echo "--- demo WITH patch (expect FAIL)"
  if timeout 600 bash -c "$DEMO_RUN" > /tmp/confirm_${ID}_$V.patch.out 2>&1; then echo "PASS (unexpected)"; res=bad; else echo FAIL-as-expected; grep -E "^(--- FAIL|panic:|FAIL)" /tmp/confirm_${ID}_$V.patch.out | head -5; fi
  rm -f $DEMO_PATH
  echo "--- existing tests of touched packages with patch"
  for p in $PKGS; do
    timeout 1200 go test -vet=off -count=1 -timeout 900s $p > /tmp/confirm_${ID}_$V.suite.out 2>&1
    fails=$(grep -E "^--- FAIL|^    --- FAIL" /tmp/confirm_${ID}_$V.suite.out | sed 's/ (.*//' | sort -u | tr '\n' ';')
    echo "suite $p: fails=[$fails]"
    # known flaky/failing at HEAD
    bad=$(echo "$fails" | tr ';' '\n' | grep -v "TestCreatePing\|TestStart\|TestCancel\|TestRelease\|^$\|TestWebsocketListenerStartNetError\|TestPacketConn" | tr '\n' ';')
    if [ -n "$bad" ]; then echo "UNEXPECTED suite failures: $bad"; res=bad; fi
  done
fi
echo "RESULT: $res"
if [ $res = ok ]; then
  D=/verif/seeded/$ID-$V; mkdir -p $D
  cp $SRC/patch.diff $SRC/demo_test.go $D/
  python3 - <<PY
import json
m=json.load(open('$SRC/meta.json'))
m['confirmed_by']='tools/confirm_seed.sh in a scratch worktree of /repo HEAD: patch applies, go build ok, demo FAILS with patch and PASSES without, existing tests of touched packages show no new failure'
m['confirm_log']=open('$LOG').read()[-3000:]
json.dump(m,open('$D/meta.json','w'),indent=1)
PY
fi
cd /; git -C /repo worktree remove --force $WT
rm -f /tmp/confirm_${ID}_$V.*.out
