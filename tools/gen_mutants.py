#!/usr/bin/env python3
"""Builds /verif/mutants: index.json + patches (development tool; the thorough tier only READS the result).
 - seeded/*/patch.diff  : confirmed seeded changes
 - mutants/fixrev/*.diff: fix commits of /repo (applied in reverse)
 - mutants/hand/*.diff  : single-site edits written here (old → new on the current /repo HEAD)
"""
import json, os, subprocess, glob, tempfile, shutil, sys

REPO='/repo'; V='/verif'
index=[]

# 1. seeds
for d in sorted(glob.glob(f'{V}/seeded/C*-*')):
    m=json.load(open(d+'/meta.json'))
    sid=os.path.basename(d)
    index.append({"id":"seed-"+sid,"properties":[sid.split('-')[0]],"patch":f"seeded/{sid}/patch.diff","reverse":False,"what":m['summary'][:300]})

# 2. fix reverts
FIX={ 'fbd346f':(['C07'],'revert: zero-length datagram guard in runProtocol'),
 'c86153e':(['C07','C18'],'revert: nil advertisement body check'),
 'c73198d':(['C07','C01'],'revert: non-positive cost rejection'),
 'f6a0532':(['C08'],'revert: comma-ok on requested_fields'),
 '460f4d3':(['C08','C04'],'revert: findUnit releases the read lock before rescanning'),
 'a7370b8':(['C11'],'revert: empty node ID rejection'),
 '20f16e0':(['C11'],'revert: removeConnection on the two establishment exits'),
 '783002b':(['C12'],'revert: buildComp error propagation'),
 '1392276':(['C12'],'revert: anchored regex group'),
 '8ee8ce6':(['C12'],'revert: single "/" pattern guard (panics in regexCompare; refusal by panic)'),
 '6ec0468':(['C17','C07'],'revert: deliverers close recvChan'),
 '8b8b48c':(['C17'],'revert: nil-safe RemoveLocalServiceAdvertisement'),
 '3e1de00':(['C20'],'revert: asn1 re-parse in MakeReceptorSAN'),
 'bda9743':(['C09'],'revert: chained profile verifier in listen'),
 '632752b':(['C17'],'revert: ql.Close before pc.Close'),
 '86ec531':(['C17'],'revert: guarded send in SendPing forwarder'),
 '28f91d1':(['C17'],'revert: guarded send in SubscribeUnreachable forwarder'),
 '9704e8c':(['C07'],'revert: ping service ignores packets from a ping service'),
 'a90d3d2':(['C17'],'revert: runProtocol cancels its session context on return'),
 'e505b94':(['C07'],'revert: UDP listener session signals closure to the shared listener goroutine'),
 'c84d283':(['C07'],'revert: relay refuses payloads larger than the MTU'),
}
for c,(props,what) in FIX.items():
    out=subprocess.check_output(['git','-C',REPO,'show','--format=',c,'--','.',':!*_test.go'])
    open(f'{V}/mutants/fixrev/{c}.diff','wb').write(out)
    index.append({"id":"fixrev-"+c,"properties":props,"patch":f"mutants/fixrev/{c}.diff","reverse":True,"what":what})

# 3. hand-written
HAND=[
 ('h01',['C01'],'pkg/netceptor/netceptor.go','''				select {
				case s.updateRoutingTableChan <- 0:
				case <-ctx.Done():
					return
				}
			}
		}()''','''			}
		}()''','drop the rebuild request from runProtocol\'s deferred closure'),
 ('h02',['C01'],'pkg/netceptor/netceptor.go','''	s.routingTableLock.Lock()
	defer s.routingTableLock.Unlock()
	s.routingTable = make(map[string]string)''','''	s.routingTableLock.Lock()
	s.routingTable = make(map[string]string)
	s.routingTableLock.Unlock()
	s.routingTableLock.Lock()
	defer s.routingTableLock.Unlock()''','release routingTableLock between clearing the table and installing hops/costs'),
 ('h03',['C01','C07'],'pkg/netceptor/netceptor.go','''	if bi.connectionCost <= 0.0 {
		return fmt.Errorf("connection cost must be positive")
	}
''','','delete the connectionCost <= 0 guard of runProtocol'),
 ('h04',['C02'],'pkg/netceptor/netceptor.go','''	buf.Write(fixedLenBytesFromString(msg.FromService, 8))
	buf.Write(fixedLenBytesFromString(msg.ToService, 8))''','''	buf.Write(fixedLenBytesFromString(msg.ToService, 8))
	buf.Write(fixedLenBytesFromString(msg.FromService, 8))''','swap the two service fields in the encoder'),
 ('h05',['C02'],'pkg/netceptor/netceptor.go','''		Data:        data[36:],''','''		Data:        data[37:],''','payload taken from data[37:]'),
 ('h06',['C02'],'pkg/framer/framer.go','''	msgSize := int(binary.LittleEndian.Uint16(f.buffer[:2]))''','''	msgSize := int(binary.BigEndian.Uint16(f.buffer[:2]))''','BigEndian in messageReady'),
 ('h07',['C03'],'pkg/utils/bridge.go','''			wn, err := c2.Write(buf[:n])''','''			wn, err := c2.Write(buf[:n-1])''','write buf[:n-1]'),
 ('h08',['C03'],'pkg/utils/bridge.go','''	<-doneChan
	<-doneChan''','''	<-doneChan''','BridgeConns waits for one half only'),
 ('h09',['C03'],'pkg/netceptor/conn.go','''	_, err = qs.Write([]byte{0})''','''	_, err = qs.Write([]byte{1})''','preamble {1}'),
 ('h10',['C04'],'pkg/workceptor/workceptor.go','''	if err == nil {
		err = worker.Save()
	}
	if err != nil {
		return nil, err
	}
	w.activeUnits[ident] = worker''','''	if err == nil {
		_ = worker.Save()
	}
	if err != nil {
		return nil, err
	}
	w.activeUnits[ident] = worker''','drop the error of worker.Save()'),
 ('h11',['C04'],'pkg/workceptor/workunitbase.go','''	file, err := os.Open(filename)
	if err != nil {
		return err
	}
	err = sfd.loadFromFile(file)''','''	file, err := os.OpenFile(filename, os.O_RDWR|os.O_TRUNC, 0o600)
	if err != nil {
		return err
	}
	err = sfd.loadFromFile(file)''','O_TRUNC added to Load\'s open'),
 ('h12',['C05'],'pkg/workceptor/workceptor.go','''				if IsComplete(unitStatus.State) && filePos >= unitStatus.StdoutSize {''','''				if IsComplete(unitStatus.State) {''','drop the size conjunct of the completion test'),
 ('h13',['C05'],'pkg/workceptor/workceptor.go','''						filePos += int64(n)''','''						filePos += int64(n) - 1''','filePos += n-1'),
 ('h14',['C05'],'pkg/workceptor/remote_work.go','''			workSubmitCmd["startpos"] = diskStdoutSize''','''			workSubmitCmd["startpos"] = 0''','startpos constant 0'),
 ('h15',['C06'],'pkg/netceptor/netceptor.go','''			if ri.UpdateEpoch == ni.Epoch && ri.UpdateSequence <= ni.Sequence {''','''			if ri.UpdateEpoch == ni.Epoch && ri.UpdateSequence < ni.Sequence {''','<= → < on the sequence test'),
 ('h16',['C06'],'pkg/netceptor/netceptor.go','''	s.flood(message, recvConn)
}''','''	s.flood(message, "")
}''','flood(message, "") in handleRoutingUpdate'),
 ('h17',['C07'],'pkg/netceptor/netceptor.go','''	if len(data) < 36 {
		return nil, fmt.Errorf("data too short to be a valid message")
	}
''','','remove the len(data) < 36 guard'),
 ('h18',['C08'],'pkg/controlsvc/controlsvc.go','''			writeMsg := "ERROR: Unknown command\\n"''','''			writeMsg := "Unknown command\\n"''','unknown-command reply without the ERROR prefix'),
 ('h19',['C08'],'pkg/workceptor/controlsvc.go','''	valueStr, ok := value.(string)
	if !ok {
		return "", fmt.Errorf("field %s must be a string", name)
	}

	return valueStr, nil''','''	return value.(string), nil''','strFromMap uses a bare type assertion'),
 ('h20',['C09'],'pkg/netceptor/netceptor.go','''				if !found {
					logger.Error("RVF ReceptorNameError''','''				if found {
					logger.Error("RVF ReceptorNameError''','invert !found'),
 ('h21',['C09'],'pkg/netceptor/netceptor.go','''					Roots:         tlscfg.RootCAs,
					CurrentTime:   time.Now(),
					KeyUsages:     []x509.ExtKeyUsage{x509.ExtKeyUsageServerAuth},''','''					Roots:         tlscfg.ClientCAs,
					CurrentTime:   time.Now(),
					KeyUsages:     []x509.ExtKeyUsage{x509.ExtKeyUsageServerAuth},''','server role verifies against ClientCAs'),
 ('h22',['C10'],'pkg/netceptor/netceptor.go','''	if md.HopsToLive <= 0 {
		if md.FromService != "unreach" {''','''	if md.HopsToLive < 0 {
		if md.FromService != "unreach" {''','<= 0 → < 0 in forwardMessage'),
 ('h23',['C10'],'pkg/netceptor/netceptor.go','''	// decrement HopsToLive
	message[1]--
''','','drop the decrement'),
 ('h24',['C11'],'pkg/netceptor/netceptor.go','''					if !remoteNodeAccepted {
						return s.sendAndLogConnectionRejection(remoteNodeID, ci, "it is not in the allowed peers list")
					}
''','','drop the allow-list rejection'),
 ('h25',['C11'],'pkg/netceptor/netceptor.go','''						if ok && remoteCost != connectionCost {''','''						if ok && remoteCost < connectionCost {''','compare cost with <'),
 ('h26',['C12'],'pkg/netceptor/netceptor.go','''		if result != FirewallResultContinue {
			break
		}''','''		if result != FirewallResultContinue {
			continue
		}''','continue instead of break in the rule loop'),
 ('h27',['C12'],'pkg/netceptor/netceptor.go','''	result := FirewallResultAccept
	for _, rule := range s.firewallRules {''','''	result := FirewallResultDrop
	for _, rule := range s.firewallRules {''','initial result Drop'),
 ('h28',['C13'],'pkg/workceptor/command.go','''	proc.Wait()

	cw.UpdateBasicStatus(WorkStateCanceled, "Canceled", -1)''','''	cw.UpdateBasicStatus(WorkStateCanceled, "Canceled", -1)

	proc.Wait()''','Canceled written before waiting for the process'),
 ('h29',['C13'],'pkg/workceptor/controlsvc.go','''		worker.UpdateBasicStatus(WorkStatePending, "Starting Worker", 0)
		err = worker.Start()''','''		err = worker.Start()
		worker.UpdateBasicStatus(WorkStatePending, "Starting Worker", 0)''','Pending written after Start'),
 ('h30',['C14'],'pkg/workceptor/workunitbase.go','''	if size > 0 {
		err = sfd.loadFromFile(file)
		if err != nil {
			return err
		}
	}
	statusFunc(sfd)''','''	statusFunc(sfd)''','UpdateFullStatus without the re-read'),
 ('h31',['C15'],'pkg/workceptor/workceptor.go','''	ok := claims.VerifyAudience(w.nc.NodeID(), true)
	if !ok {
		return fmt.Errorf("token audience did not match node ID")
	}
''','''	_ = claims
''','drop the audience check'),
 ('h32',['C15'],'pkg/workceptor/controlsvc.go','''	if addr.Network() == "unix" {
		connIsUnix = true
	}''','''	if addr.Network() != "" {
		connIsUnix = true
	}''','connIsUnix true for any network'),
 ('h33',['C16'],'pkg/netceptor/netceptor.go','''			_ = s.sendUnreachable(md.FromNode, &UnreachableMessage{
				FromNode:    md.FromNode,
				ToNode:      md.ToNode,
				FromService: md.FromService,
				ToService:   md.ToService,
				Problem:     ProblemServiceUnknown,
			})''','''			_ = s.sendUnreachable(md.ToNode, &UnreachableMessage{
				FromNode:    md.FromNode,
				ToNode:      md.ToNode,
				FromService: md.FromService,
				ToService:   md.ToService,
				Problem:     ProblemServiceUnknown,
			})''','notify md.ToNode'),
 ('h34',['C16'],'pkg/netceptor/conn.go','''	qc, err := tr.Dial(cctx, rAddr, tlscfg, cfg)''','''	qc, err := tr.Dial(ctx, rAddr, tlscfg, cfg)''','dial with ctx instead of cctx'),
 ('h35',['C17'],'pkg/netceptor/conn.go','''	c.doneOnce.Do(func() {
		close(c.doneChan)
	})

	return c.qs.Close()''','''	close(c.doneChan)

	return c.qs.Close()''','remove the sync.Once around close(doneChan) in Conn.Close'),
 ('h36',['C17'],'pkg/netceptor/conn.go','''	qs, err := qc.OpenStreamSync(cctx)
	if err != nil {
		close(okChan)
		_ = qc.CloseWithError(500, err.Error())
		_ = pc.Close()''','''	qs, err := qc.OpenStreamSync(cctx)
	if err != nil {
		close(okChan)
		_ = qc.CloseWithError(500, err.Error())''','drop pc.Close() on a DialContext error path'),
 ('h37',['C18'],'pkg/netceptor/netceptor.go','''		if si.Time.After(curSvc.Time) {''','''		if si.Time.Before(curSvc.Time) {''','Before for After'),
 ('h38',['C18'],'pkg/netceptor/netceptor.go','''		if s.listenerRegistry[sn].advertise {
			sa := ServiceAdvertisement{''','''		{
			sa := ServiceAdvertisement{''','advertise non-advertised listeners'),
 ('h39',['C19'],'pkg/workceptor/workceptor.go','''	return unit.Status(), nil
}

// CancelUnit''','''	return unit.UnredactedStatus(), nil
}

// CancelUnit''','UnitStatus returns UnredactedStatus()'),
 ('h40',['C19'],'pkg/workceptor/remote_work.go','''			if strings.HasPrefix(strings.ToLower(k), "secret_") {
				keysToDelete = append(keysToDelete, k)''','''			if strings.HasPrefix(k, "secret_") {
				keysToDelete = append(keysToDelete, k)''','drop ToLower in the redactor'),
 ('h41',['C20'],'pkg/utils/other_name.go','''						_, err = asn1.Unmarshal(on.Value.Bytes, &name)
						if err != nil {
							return nil, err
						}''','''						_, _ = asn1.Unmarshal(on.Value.Bytes, &name)''','swallow an unmarshal error in ReceptorNames'),
 ('h42',['C20'],'pkg/certificates/ca.go','''			certTemplate.ExtraExtensions = []pkix.Extension{ext}
			found = true
''','''			found = true
''','signer no longer copies the SAN extension'),
]
tmp=tempfile.mkdtemp(prefix='mutgen')
try:
    subprocess.check_call(['git','-C',REPO,'worktree','add','-q','--detach',tmp+'/wt','HEAD'])
    wt=tmp+'/wt'
    for (mid,props,path,old,new,what) in HAND:
        cached=f'{V}/mutants/hand/{mid}.diff'
        if os.path.exists(cached) and subprocess.run(['git','-C',wt,'apply','--check',cached],capture_output=True).returncode==0:
            index.append({"id":"hand-"+mid,"properties":props,"patch":f"mutants/hand/{mid}.diff","reverse":False,"what":what})
            continue
        s=open(f'{wt}/{path}').read()
        if s.count(old)!=1:
            print('SKIP',mid,'anchor count',s.count(old)); continue
        open(f'{wt}/{path}','w').write(s.replace(old,new))
        env=dict(os.environ,GOFLAGS='-mod=mod',GOPROXY='off',GOSUMDB='off',GOTOOLCHAIN='local')
        r=subprocess.run(['go','build','./pkg/...','./cmd/...'],cwd=wt,env=env,capture_output=True,text=True)
        if r.returncode!=0:
            print('NOBUILD',mid,r.stderr[:200])
        else:
            d=subprocess.check_output(['git','-C',wt,'diff'])
            open(f'{V}/mutants/hand/{mid}.diff','wb').write(d)
            index.append({"id":"hand-"+mid,"properties":props,"patch":f"mutants/hand/{mid}.diff","reverse":False,"what":what})
        subprocess.check_call(['git','-C',wt,'checkout','-q','--','.'])
finally:
    subprocess.call(['git','-C',REPO,'worktree','remove','--force',tmp+'/wt'])
    shutil.rmtree(tmp,ignore_errors=True)
# 4. hand-written diffs kept as files (mutants/hand2/index.json)
try:
    index.extend(json.load(open(f'{V}/mutants/hand2/index.json')))
except FileNotFoundError:
    pass
json.dump(index,open(f'{V}/mutants/index.json','w'),indent=1)
print(len(index),'mutants')
