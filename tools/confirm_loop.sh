#!/bin/bash
# development helper: confirm every not-yet-confirmed seed under /tmp/seed/*/SEED/{A,B}
while [ ! -f /tmp/seed/STOP ]; do
  for d in /tmp/seed/C*/SEED/[ABCDEFGH]; do
    [ -f $d/meta.json ] || continue
    id=$(echo $d | sed 's#/tmp/seed/\(C[0-9]*\)/SEED/.*#\1#'); v=$(basename $d)
    [ -f /tmp/seed/confirm_${id}_$v.log ] && continue
    /verif/tools/confirm_seed.sh $id $v
  done
  sleep 30
done
