package engine

import (
	"go/token"
	"go/types"
	"sort"
	"strings"

	"golang.org/x/tools/go/ssa"
)

// Path is a canonical access path: a root plus a chain of struct fields.
// Roots: "p<i>" (i-th parameter of the OUTERMOST enclosing function, receiver = 0),
// "g:<pkg>.<name>" (package-level variable), or a unique opaque token "?<fn>:<val>".
type Path struct {
	Root   string
	Fields []*types.Var
}

func (p Path) String() string {
	s := p.Root
	for _, f := range p.Fields {
		s += "." + f.Name()
	}
	return s
}

func (p Path) Opaque() bool { return strings.HasPrefix(p.Root, "?") }

func (p Path) With(f *types.Var) Path {
	nf := make([]*types.Var, len(p.Fields)+1)
	copy(nf, p.Fields)
	nf[len(p.Fields)] = f
	return Path{p.Root, nf}
}

// Last returns the last field of the path or nil.
func (p Path) Last() *types.Var {
	if len(p.Fields) == 0 {
		return nil
	}
	return p.Fields[len(p.Fields)-1]
}

// PathOf computes the canonical access path of a pointer/struct value inside fn.
func (pr *Program) PathOf(v ssa.Value) Path { return pr.pathOf(v, 0) }

func (pr *Program) pathOf(v ssa.Value, depth int) Path {
	opaque := func() Path {
		fn := "?"
		if in, ok := v.(ssa.Instruction); ok && in.Parent() != nil {
			fn = FuncName(in.Parent())
		} else if p, ok := v.(*ssa.Parameter); ok {
			fn = FuncName(p.Parent())
		}
		return Path{Root: "?" + fn + ":" + v.Name()}
	}
	if depth > 12 {
		return opaque()
	}
	switch x := v.(type) {
	case *ssa.Parameter:
		fn := x.Parent()
		if fn.Parent() != nil {
			// parameter of an anonymous function: opaque unless the closure is called with a
			// traceable argument — keep opaque (never equal to anything else)
			return Path{Root: "?" + FuncName(fn) + ":" + x.Name()}
		}
		for i, p := range fn.Params {
			if p == x {
				return Path{Root: "p" + itoa(i)}
			}
		}
		return opaque()
	case *ssa.Global:
		return Path{Root: "g:" + x.Pkg.Pkg.Name() + "." + x.Name()}
	case *ssa.FreeVar:
		// resolve through the MakeClosure binding in the parent
		fn := x.Parent()
		idx := -1
		for i, fv := range fn.FreeVars {
			if fv == x {
				idx = i
			}
		}
		par := fn.Parent()
		if par == nil || idx < 0 {
			return opaque()
		}
		var bound ssa.Value
		n := 0
		for _, b := range par.Blocks {
			for _, in := range b.Instrs {
				if mc, ok := in.(*ssa.MakeClosure); ok && mc.Fn == ssa.Value(fn) && idx < len(mc.Bindings) {
					bound = mc.Bindings[idx]
					n++
				}
			}
		}
		if n != 1 {
			return opaque()
		}
		return pr.pathOf(bound, depth+1).asCell()
	case *ssa.Alloc:
		// a spilled variable (captured parameter): cell whose single store is the value
		if val := singleStore(x); val != nil {
			return pr.pathOf(val, depth+1).asCell()
		}
		return opaque()
	case *ssa.UnOp:
		if x.Op == token.MUL {
			inner := pr.pathOf(x.X, depth+1)
			if inner.isCell() {
				return inner.deref()
			}
			// load of a pointer-typed field: *(&base.f) → base.f
			if fa, ok := x.X.(*ssa.FieldAddr); ok {
				return pr.pathOf(fa.X, depth+1).derefIfCell().With(FieldAddrVar(fa))
			}
			return opaque()
		}
	case *ssa.FieldAddr:
		return pr.pathOf(x.X, depth+1).derefIfCell().With(FieldAddrVar(x))
	case *ssa.Field:
		return pr.pathOf(x.X, depth+1).derefIfCell().With(fieldVar(x.X.Type(), x.Field))
	case *ssa.ChangeType:
		return pr.pathOf(x.X, depth+1)
	case *ssa.ChangeInterface:
		return pr.pathOf(x.X, depth+1)
	case *ssa.MakeInterface:
		return pr.pathOf(x.X, depth+1)
	case *ssa.TypeAssert:
		if !x.CommaOk {
			return pr.pathOf(x.X, depth+1)
		}
	case *ssa.Phi:
		// all edges the same path?
		var first *Path
		for _, e := range x.Edges {
			p := pr.pathOf(e, depth+1)
			if first == nil {
				first = &p
			} else if first.String() != p.String() {
				return opaque()
			}
		}
		if first != nil {
			return *first
		}
	case *ssa.Call:
		// accessor: method whose body returns a field of its receiver
		if f, base := pr.accessorField(x.Common()); f != nil {
			return pr.pathOf(base, depth+1).derefIfCell().With(f)
		}
	}
	return opaque()
}

const cellMark = "#cell"

func (p Path) asCell() Path {
	if p.Opaque() {
		return p
	}
	return Path{p.Root + cellMark, p.Fields}
}
func (p Path) isCell() bool { return strings.HasSuffix(p.Root, cellMark) && len(p.Fields) == 0 }
func (p Path) deref() Path  { return Path{strings.TrimSuffix(p.Root, cellMark), p.Fields} }
func (p Path) derefIfCell() Path {
	if p.isCell() {
		return p.deref()
	}
	return p
}

func itoa(i int) string {
	if i == 0 {
		return "0"
	}
	s := ""
	for i > 0 {
		s = string(rune('0'+i%10)) + s
		i /= 10
	}
	return s
}

// singleStore returns the value stored into alloc if there is exactly one Store to it.
func singleStore(a *ssa.Alloc) ssa.Value {
	refs := a.Referrers()
	if refs == nil {
		return nil
	}
	var val ssa.Value
	n := 0
	for _, r := range *refs {
		if st, ok := r.(*ssa.Store); ok && st.Addr == ssa.Value(a) {
			val = st.Val
			n++
		}
	}
	if n == 1 {
		return val
	}
	return nil
}

// accessorField: if the call is to a receptor method (static, or interface method with a single
// receptor implementation) whose body is "return recv.<field>", returns that field and the
// receiver argument.
func (pr *Program) accessorField(c *ssa.CallCommon) (*types.Var, ssa.Value) {
	var callee *ssa.Function
	var recv ssa.Value
	if c.IsInvoke() {
		recv = c.Value
		impls := pr.implsOfMethod(c.Method)
		if len(impls) != 1 {
			return nil, nil
		}
		callee = impls[0]
	} else {
		callee = c.StaticCallee()
		if callee == nil || callee.Signature.Recv() == nil || len(c.Args) == 0 {
			return nil, nil
		}
		recv = c.Args[0]
	}
	if callee == nil || len(callee.Blocks) != 1 || !pr.IsReceptorFn(callee) {
		return nil, nil
	}
	var ret *ssa.Return
	for _, in := range callee.Blocks[0].Instrs {
		if r, ok := in.(*ssa.Return); ok {
			ret = r
		}
	}
	if ret == nil || len(ret.Results) != 1 {
		return nil, nil
	}
	f, base := FieldOfLoad(ret.Results[0])
	if f == nil || len(callee.Params) == 0 || base != ssa.Value(callee.Params[0]) {
		return nil, nil
	}
	return f, recv
}

var implCache = map[*types.Func][]*ssa.Function{}

// implsOfMethod: receptor (non-mock) implementations of an interface method.
func (pr *Program) ImplsOfMethod(m *types.Func) []*ssa.Function { return pr.implsOfMethod(m) }

func (pr *Program) implsOfMethod(m *types.Func) []*ssa.Function {
	if r, ok := implCache[m]; ok {
		return r
	}
	recv := m.Type().(*types.Signature).Recv()
	var out []*ssa.Function
	if recv != nil {
		if it, ok := recv.Type().Underlying().(*types.Interface); ok {
			for _, pk := range pr.Pkgs {
				if strings.Contains(pk.PkgPath, "/mock_") {
					continue
				}
				sc := pk.Types.Scope()
				for _, nm := range sc.Names() {
					tn, ok := sc.Lookup(nm).(*types.TypeName)
					if !ok || tn.IsAlias() {
						continue
					}
					if _, isIface := tn.Type().Underlying().(*types.Interface); isIface {
						continue
					}
					T := types.Type(types.NewPointer(tn.Type()))
					if !types.Implements(T, it) {
						continue
					}
					ms := pr.SSA.MethodSets.MethodSet(T)
					for i := 0; i < ms.Len(); i++ {
						if ms.At(i).Obj().Name() == m.Name() {
							if f := pr.SSA.FuncValue(ms.At(i).Obj().(*types.Func)); f != nil && f.Blocks != nil {
								dup := false
								for _, o := range out {
									if o == f {
										dup = true
									}
								}
								if !dup {
									out = append(out, f)
								}
							}
						}
					}
				}
			}
		}
	}
	implCache[m] = out
	return out
}

// ---------- lock operations ----------

type LockMode int

const (
	LockR LockMode = 1
	LockW LockMode = 2
)

// LockOp is a Lock/RLock/Unlock/RUnlock call.
type LockOp struct {
	Call     ssa.CallInstruction
	Acquire  bool
	Mode     LockMode
	Path     Path
	Deferred bool
}

// LockOpOf decodes a call instruction as a mutex operation.
func (pr *Program) LockOpOf(ci ssa.CallInstruction) (LockOp, bool) {
	c := ci.Common()
	o := CalleeObj(c)
	if o == nil || c.IsInvoke() {
		return LockOp{}, false
	}
	var op LockOp
	switch o.FullName() {
	case "(*sync.RWMutex).Lock", "(*sync.Mutex).Lock":
		op.Acquire, op.Mode = true, LockW
	case "(*sync.RWMutex).RLock":
		op.Acquire, op.Mode = true, LockR
	case "(*sync.RWMutex).Unlock", "(*sync.Mutex).Unlock":
		op.Acquire, op.Mode = false, LockW
	case "(*sync.RWMutex).RUnlock":
		op.Acquire, op.Mode = false, LockR
	default:
		return LockOp{}, false
	}
	if len(c.Args) == 0 {
		return LockOp{}, false
	}
	op.Call = ci
	op.Path = pr.PathOf(c.Args[0])
	_, op.Deferred = ci.(*ssa.Defer)
	return op, true
}

// Held is a must-held lockset: path string → mode.
type Held map[string]LockMode

func (h Held) clone() Held {
	n := Held{}
	for k, v := range h {
		n[k] = v
	}
	return n
}

func intersect(a, b Held) Held {
	n := Held{}
	for k, v := range a {
		if w, ok := b[k]; ok {
			if w < v {
				v = w
			}
			n[k] = v
		}
	}
	return n
}

func (h Held) equal(o Held) bool {
	if len(h) != len(o) {
		return false
	}
	for k, v := range h {
		if o[k] != v {
			return false
		}
	}
	return true
}

func (h Held) String() string {
	ks := []string{}
	for k, v := range h {
		m := "R"
		if v == LockW {
			m = "W"
		}
		ks = append(ks, k+":"+m)
	}
	sort.Strings(ks)
	return "{" + strings.Join(ks, ",") + "}"
}

// LockFacts is the result of the intraprocedural must-hold analysis of one function.
type LockFacts struct {
	Fn  *ssa.Function
	may map[*ssa.BasicBlock]Held
	in  map[*ssa.BasicBlock]Held
	ops map[ssa.Instruction]LockOp
	pr  *Program
}

var lockFactsCache = map[*ssa.Function]*LockFacts{}

// Locks runs (and caches) the must-hold lockset analysis for fn (entry lockset empty).
func (pr *Program) Locks(fn *ssa.Function) *LockFacts {
	if lf, ok := lockFactsCache[fn]; ok {
		return lf
	}
	lf := &LockFacts{Fn: fn, in: map[*ssa.BasicBlock]Held{}, may: map[*ssa.BasicBlock]Held{}, ops: map[ssa.Instruction]LockOp{}, pr: pr}
	lockFactsCache[fn] = lf
	for _, b := range fn.Blocks {
		for _, in := range b.Instrs {
			if ci, ok := in.(ssa.CallInstruction); ok {
				if op, ok := pr.LockOpOf(ci); ok {
					lf.ops[in] = op
				}
			}
		}
	}
	if len(fn.Blocks) == 0 {
		return lf
	}
	// forward must analysis; nil = TOP (unvisited)
	lf.in[fn.Blocks[0]] = Held{}
	work := []*ssa.BasicBlock{fn.Blocks[0]}
	for len(work) > 0 {
		b := work[0]
		work = work[1:]
		out := lf.transferBlock(b, lf.in[b].clone())
		for _, s := range b.Succs {
			old, seen := lf.in[s]
			var nw Held
			if !seen {
				nw = out.clone()
			} else {
				nw = intersect(old, out)
			}
			if !seen || !nw.equal(old) {
				lf.in[s] = nw
				work = append(work, s)
			}
		}
	}
	// forward may analysis (union at merges): a lock is may-held if it is held on SOME path
	lf.may[fn.Blocks[0]] = Held{}
	work = []*ssa.BasicBlock{fn.Blocks[0]}
	for len(work) > 0 {
		b := work[0]
		work = work[1:]
		out := lf.transferBlock(b, lf.may[b].clone())
		for _, s := range b.Succs {
			old, seen := lf.may[s]
			nw := Held{}
			for k, v := range old {
				nw[k] = v
			}
			for k, v := range out {
				if w, ok := nw[k]; !ok || v > w {
					nw[k] = v
				}
			}
			if !seen || !nw.equal(old) {
				lf.may[s] = nw
				work = append(work, s)
			}
		}
	}
	return lf
}

// MayHeldAt returns the locks held on at least one path immediately before instruction in.
func (lf *LockFacts) MayHeldAt(in ssa.Instruction) Held {
	b := in.Block()
	h0, ok := lf.may[b]
	if !ok {
		return Held{}
	}
	h := h0.clone()
	for _, x := range b.Instrs {
		if x == in {
			break
		}
		lf.transfer(x, h)
	}
	return h
}

func (lf *LockFacts) transferBlock(b *ssa.BasicBlock, h Held) Held {
	for _, in := range b.Instrs {
		lf.transfer(in, h)
	}
	return h
}

func (lf *LockFacts) transfer(in ssa.Instruction, h Held) {
	op, ok := lf.ops[in]
	if !ok || op.Deferred {
		return // deferred unlock: held until exit
	}
	k := op.Path.String()
	if op.Acquire {
		h[k] = op.Mode
	} else {
		delete(h, k)
	}
}

// HeldAt returns the must-held lockset immediately before instruction in.
func (lf *LockFacts) HeldAt(in ssa.Instruction) Held {
	b := in.Block()
	h0, ok := lf.in[b]
	if !ok {
		return Held{} // unreachable block
	}
	h := h0.clone()
	for _, x := range b.Instrs {
		if x == in {
			break
		}
		lf.transfer(x, h)
	}
	return h
}

// Ops returns the lock operations of the function in block order.
func (lf *LockFacts) Ops() []LockOp {
	var out []LockOp
	for _, b := range lf.Fn.Blocks {
		for _, in := range b.Instrs {
			if op, ok := lf.ops[in]; ok {
				out = append(out, op)
			}
		}
	}
	return out
}

// ---------- interprocedural may-acquire ----------

// Acq is a lock a function may acquire, in the function's own namespace.
type Acq struct {
	Path Path
	Mode LockMode
	Via  string // call chain for diagnostics
	Pos  token.Pos
}

// MayAcquire returns the locks fn may acquire in the calling goroutine (its own acquisitions and
// those of callees, `go` statements excluded), expressed in fn's namespace. constArgs gives
// parameters known to be constant booleans at the call site (index → value): acquisitions that
// are unreachable under those values are pruned.
func (pr *Program) MayAcquire(fn *ssa.Function, constArgs map[int]bool, depth int, seen map[*ssa.Function]bool) []Acq {
	if fn == nil || fn.Blocks == nil || depth > 6 || seen[fn] {
		return nil
	}
	seen[fn] = true
	defer delete(seen, fn)
	cut := EdgeSet{}
	for _, i := range Ifs(fn) {
		c := i.Cond
		neg := false
		for {
			u, ok := c.(*ssa.UnOp)
			if ok && u.Op == token.NOT {
				neg = !neg
				c = u.X
				continue
			}
			break
		}
		if prm, ok := c.(*ssa.Parameter); ok {
			for idx, p := range fn.Params {
				if p == prm {
					if val, known := constArgs[idx]; known {
						if neg {
							val = !val
						}
						if val {
							cut.Add(Edge{i.Block(), 1})
						} else {
							cut.Add(Edge{i.Block(), 0})
						}
					}
				}
			}
		}
	}
	var out []Acq
	Reach(fn, nil, cut, nil, func(in ssa.Instruction) bool {
		ci, ok := in.(ssa.CallInstruction)
		if !ok {
			return false
		}
		if _, isGo := in.(*ssa.Go); isGo {
			return false
		}
		if op, ok := pr.LockOpOf(ci); ok {
			if op.Acquire {
				out = append(out, Acq{Path: op.Path, Mode: op.Mode, Via: FuncName(fn), Pos: in.Pos()})
			}
			return false
		}
		for _, callee := range pr.Callees(ci) {
			if !pr.IsReceptorFn(callee) {
				continue
			}
			ca := map[int]bool{}
			args := callArgs(ci.Common())
			for i, a := range args {
				if c, ok := a.(*ssa.Const); ok && c.Value != nil && c.Value.Kind() == 1 /* Bool */ {
					ca[i] = c.Value.String() == "true"
				}
			}
			for _, a := range pr.MayAcquire(callee, ca, depth+1, seen) {
				if tp, ok := pr.translate(a.Path, callee, ci); ok {
					out = append(out, Acq{Path: tp, Mode: a.Mode, Via: FuncName(fn) + " → " + a.Via, Pos: a.Pos})
				}
			}
		}
		return false
	})
	return out
}

// callArgs returns the arguments including the receiver for invokes, aligned with callee.Params.
func callArgs(c *ssa.CallCommon) []ssa.Value {
	if c.IsInvoke() {
		return append([]ssa.Value{c.Value}, c.Args...)
	}
	return c.Args
}

// translate maps a path in callee's namespace to the caller's namespace at call site ci.
// Translate maps a path in callee's namespace to the caller's namespace at call site ci.
func (pr *Program) Translate(p Path, callee *ssa.Function, ci ssa.CallInstruction) (Path, bool) {
	return pr.translate(p, callee, ci)
}

func (pr *Program) translate(p Path, callee *ssa.Function, ci ssa.CallInstruction) (Path, bool) {
	if strings.HasPrefix(p.Root, "g:") {
		return p, true
	}
	if p.Opaque() {
		return p, false
	}
	if strings.HasPrefix(p.Root, "p") {
		// closures share the outermost function's namespace
		if Outermost(callee) == Outermost(ci.Parent()) {
			return p, true
		}
		idx := 0
		for _, ch := range strings.TrimSuffix(p.Root[1:], cellMark) {
			idx = idx*10 + int(ch-'0')
		}
		args := callArgs(ci.Common())
		if callee.Parent() != nil {
			// an anonymous function of another outermost function called from here: not translatable
			return p, false
		}
		if idx >= len(args) {
			return p, false
		}
		base := pr.PathOf(args[idx]).derefIfCell()
		if base.Opaque() {
			return base, false
		}
		nf := append(append([]*types.Var{}, base.Fields...), p.Fields...)
		return Path{base.Root, nf}, true
	}
	return p, false
}

// Callees resolves the possible receptor callees of a call: the static callee, the closure
// being called, or — for interface invocations and function values — the VTA call graph's edges.
func (pr *Program) Callees(ci ssa.CallInstruction) []*ssa.Function {
	c := ci.Common()
	if f := c.StaticCallee(); f != nil {
		return []*ssa.Function{f}
	}
	if mc, ok := c.Value.(*ssa.MakeClosure); ok {
		return []*ssa.Function{mc.Fn.(*ssa.Function)}
	}
	if c.IsInvoke() {
		// receptor implementations of the interface method (non-mock)
		return pr.implsOfMethod(c.Method)
	}
	// function value: use VTA
	g := pr.CallGraph()
	n := g.Nodes[ci.Parent()]
	var out []*ssa.Function
	if n != nil {
		for _, e := range n.Out {
			if e.Site == ci && e.Callee != nil && e.Callee.Func != nil {
				out = append(out, e.Callee.Func)
			}
		}
	}
	return out
}
