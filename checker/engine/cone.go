package engine

import (
	"sort"
	"strings"

	"golang.org/x/tools/go/ssa"
)

// IsMock reports functions of generated gomock packages (not product code).
func IsMock(fn *ssa.Function) bool {
	return strings.Contains(FuncName(fn), "mock_")
}

// Cone is the set of receptor functions reachable from roots in the VTA call graph. Anonymous
// functions declared inside a reached function are included (their bodies run as callbacks,
// goroutines, deferred calls or sync.Once bodies that opaque dependencies invoke).
type Cone struct {
	Fns   map[*ssa.Function]bool
	From  map[*ssa.Function]*ssa.Function // BFS parent, for paths
	Roots []*ssa.Function
}

func (p *Program) Cone(roots []*ssa.Function) *Cone {
	g := p.CallGraph()
	c := &Cone{Fns: map[*ssa.Function]bool{}, From: map[*ssa.Function]*ssa.Function{}, Roots: roots}
	var work []*ssa.Function
	push := func(f, from *ssa.Function) {
		if f == nil || c.Fns[f] || !p.IsReceptorFn(f) || f.Blocks == nil || IsMock(f) {
			return
		}
		c.Fns[f] = true
		c.From[f] = from
		work = append(work, f)
	}
	for _, r := range roots {
		push(r, nil)
	}
	for len(work) > 0 {
		f := work[0]
		work = work[1:]
		if n := g.Nodes[f]; n != nil {
			for _, e := range n.Out {
				if e.Callee != nil {
					push(e.Callee.Func, f)
				}
			}
		}
		for _, an := range f.AnonFuncs {
			push(an, f)
		}
	}
	return c
}

// Sorted returns the cone's functions sorted by name.
func (c *Cone) Sorted() []*ssa.Function {
	var out []*ssa.Function
	for f := range c.Fns {
		out = append(out, f)
	}
	sort.Slice(out, func(i, j int) bool { return FuncName(out[i]) < FuncName(out[j]) })
	return out
}

// PathTo renders the call chain root → … → fn.
func (c *Cone) PathTo(fn *ssa.Function) string {
	var chain []string
	for f := fn; f != nil; f = c.From[f] {
		chain = append([]string{FuncName(f)}, chain...)
		if len(chain) > 30 {
			break
		}
	}
	return strings.Join(chain, " → ")
}

// MustFuncs resolves names; unresolved names are reported through missing.
func (p *Program) MustFuncs(missing *[]string, names ...string) []*ssa.Function {
	var out []*ssa.Function
	for _, n := range names {
		if f := p.Func(n); f != nil {
			out = append(out, f)
		} else {
			*missing = append(*missing, n)
		}
	}
	return out
}
