package engine

import (
	"go/token"
	"go/types"

	"golang.org/x/tools/go/ssa"
)

// AccessKind classifies a use of a struct field.
type AccessKind string

const (
	AccStore     AccessKind = "store"      // x.f = v
	AccLoad      AccessKind = "load"       // v = x.f (value escapes to some other use)
	AccMapUpdate AccessKind = "map-update" // x.f[k] = v   (also nested x.f[a][b] = v)
	AccMapDelete AccessKind = "map-delete" // delete(x.f, k)
	AccMapLookup AccessKind = "map-lookup" // x.f[k]
	AccRange     AccessKind = "range"      // for … range x.f
	AccLen       AccessKind = "len"
	AccSend      AccessKind = "send"   // x.f <- v (incl. select send arm)
	AccRecv      AccessKind = "recv"   // <-x.f (incl. select recv arm)
	AccClose     AccessKind = "close"  // close(x.f)
	AccCall      AccessKind = "method" // x.f.M(…)
	AccAddr      AccessKind = "addr"   // &x.f escapes
	AccAppend    AccessKind = "append" // x.f = append(x.f, …) read side
	AccIndex     AccessKind = "index"  // x.f[i] on slices
)

// Access is one use of a field in receptor code.
type Access struct {
	Fn     *ssa.Function
	Instr  ssa.Instruction
	Kind   AccessKind
	Base   ssa.Value // the struct pointer/value the field was selected from
	Method string    // for AccCall
	Nested bool      // access to an inner map obtained by lookup in the field's map
	Write  bool
}

// FieldAccesses enumerates every access to field in receptor code.
func (p *Program) FieldAccesses(field *types.Var) []Access {
	var out []Access
	for _, fn := range p.funcs {
		out = append(out, FieldAccessesIn(fn, field)...)
	}
	return out
}

// FieldAccessesIn enumerates accesses to field within fn.
func FieldAccessesIn(fn *ssa.Function, field *types.Var) []Access {
	var out []Access
	add := func(in ssa.Instruction, k AccessKind, base ssa.Value, nested, write bool, method string) {
		out = append(out, Access{Fn: fn, Instr: in, Kind: k, Base: base, Nested: nested, Write: write, Method: method})
	}
	var classifyValue func(v ssa.Value, base ssa.Value, nested bool, depth int)
	classifyValue = func(v ssa.Value, base ssa.Value, nested bool, depth int) {
		refs := v.Referrers()
		if refs == nil {
			return
		}
		for _, r := range *refs {
			switch x := r.(type) {
			case *ssa.MapUpdate:
				if x.Map == v {
					add(x, AccMapUpdate, base, nested, true, "")
				} else {
					add(x, AccLoad, base, nested, false, "")
				}
			case *ssa.Lookup:
				if x.X == v {
					add(x, AccMapLookup, base, nested, false, "")
					// nested maps: follow the looked-up inner map one level
					if depth < 2 {
						var inner ssa.Value = x
						if x.CommaOk {
							if rs := x.Referrers(); rs != nil {
								for _, rr := range *rs {
									if e, ok := rr.(*ssa.Extract); ok && e.Index == 0 {
										if _, isMap := e.Type().Underlying().(*types.Map); isMap {
											classifyValue(e, base, true, depth+1)
										}
									}
								}
							}
						} else if _, isMap := inner.Type().Underlying().(*types.Map); isMap {
							classifyValue(inner, base, true, depth+1)
						}
					}
				}
			case *ssa.Range:
				add(x, AccRange, base, nested, false, "")
			case *ssa.Send:
				if x.Chan == v {
					add(x, AccSend, base, nested, true, "")
				} else {
					add(x, AccLoad, base, nested, false, "")
				}
			case *ssa.UnOp:
				if x.Op == token.ARROW {
					add(x, AccRecv, base, nested, false, "")
				} else {
					add(x, AccLoad, base, nested, false, "")
				}
			case *ssa.Select:
				for _, st := range x.States {
					if st.Chan == v {
						if st.Dir == types.SendOnly {
							add(x, AccSend, base, nested, true, "")
						} else {
							add(x, AccRecv, base, nested, false, "")
						}
					}
				}
			case *ssa.Index, *ssa.IndexAddr:
				add(r, AccIndex, base, nested, false, "")
			case ssa.CallInstruction:
				c := x.Common()
				if b, ok := c.Value.(*ssa.Builtin); ok {
					switch b.Name() {
					case "delete":
						if len(c.Args) > 0 && c.Args[0] == v {
							add(r, AccMapDelete, base, nested, true, "")
							continue
						}
					case "len", "cap":
						add(r, AccLen, base, nested, false, "")
						continue
					case "close":
						add(r, AccClose, base, nested, true, "")
						continue
					case "append":
						add(r, AccAppend, base, nested, false, "")
						continue
					}
					add(r, AccLoad, base, nested, false, "")
					continue
				}
				if c.IsInvoke() && c.Value == v {
					add(r, AccCall, base, nested, false, c.Method.Name())
					continue
				}
				if !c.IsInvoke() && len(c.Args) > 0 && c.Args[0] == v && c.Signature().Recv() != nil {
					name := ""
					if o := CalleeObj(c); o != nil {
						name = o.Name()
					}
					add(r, AccCall, base, nested, false, name)
					continue
				}
				add(r, AccLoad, base, nested, false, "")
			case *ssa.ChangeType, *ssa.ChangeInterface, *ssa.MakeInterface, *ssa.Convert:
				classifyValue(r.(ssa.Value), base, nested, depth)
			case *ssa.DebugRef:
			default:
				add(r, AccLoad, base, nested, false, "")
			}
		}
	}
	for _, b := range fn.Blocks {
		for _, in := range b.Instrs {
			switch x := in.(type) {
			case *ssa.FieldAddr:
				if FieldAddrVar(x) != field {
					continue
				}
				refs := x.Referrers()
				if refs == nil {
					continue
				}
				for _, r := range *refs {
					switch y := r.(type) {
					case *ssa.Store:
						if y.Addr == ssa.Value(x) {
							add(y, AccStore, x.X, false, true, "")
						} else {
							add(y, AccAddr, x.X, false, false, "")
						}
					case *ssa.UnOp:
						if y.Op == token.MUL {
							classifyValue(y, x.X, false, 0)
						}
					case *ssa.DebugRef:
					case ssa.CallInstruction:
						// method with pointer receiver on an embedded/struct-typed field: x.f.M()
						c := y.Common()
						if !c.IsInvoke() && len(c.Args) > 0 && c.Args[0] == ssa.Value(x) && c.Signature().Recv() != nil {
							name := ""
							if o := CalleeObj(c); o != nil {
								name = o.Name()
							}
							add(r, AccCall, x.X, false, false, name)
						} else {
							add(r, AccAddr, x.X, false, false, "")
						}
					case *ssa.FieldAddr:
						// nested struct field: &x.f.g — treat as address use
						add(r, AccAddr, x.X, false, false, "")
					default:
						add(r, AccAddr, x.X, false, false, "")
					}
				}
			case *ssa.Field:
				if fieldVar(x.X.Type(), x.Field) == field {
					classifyValue(x, x.X, false, 0)
				}
			}
		}
	}
	return out
}

// CompositeInits returns the functions in which a composite literal of the struct type owning
// field is built with that field set (SSA lowers literals to Alloc + FieldAddr + Store, which
// FieldAccesses already reports as stores; this helper just tells whether a store's base is a
// fresh Alloc in the same function, i.e. a constructor-style initialisation).
func IsFreshAlloc(base ssa.Value) bool {
	switch b := base.(type) {
	case *ssa.Alloc:
		return true
	case *ssa.FieldAddr:
		return IsFreshAlloc(b.X) // field of an embedded struct inside a fresh object
	}
	return false
}
