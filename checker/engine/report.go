package engine

import (
	"bufio"
	"encoding/json"
	"fmt"
	"go/token"
	"os"
	"path/filepath"
	"sort"
	"strings"
	"time"
)

// Status of an obligation.
type Status int

const (
	Discharged Status = iota
	Violated
	Undecided
)

func (s Status) String() string { return [...]string{"discharged", "VIOLATED", "UNDECIDED"}[s] }

// Obligation is one rule instance evaluated on the tree.
type Obligation struct {
	Rule      string `json:"rule"`      // e.g. "C07-O1 bounds"
	Construct string `json:"construct"` // stable key: function + normalised expression/field/callee (never a line number)
	Pos       string `json:"pos"`       // file:line:col (diagnostic only)
	Status    string `json:"status"`
	Reason    string `json:"reason"`          // discharge idiom or what is wrong
	Path      string `json:"path,omitempty"`  // for path rules: entry → … → site
	Trivial   bool   `json:"-"`               // satisfied without a guard/path argument
	Known     string `json:"known,omitempty"` // text of the matching known finding
	st        Status
}

// Report collects the obligations of one property check and renders verdict + evidence.
type Report struct {
	Property    string
	Tier        string
	Prog        *Program
	Obls        []*Obligation
	Explanation string
	NotDecided  []string
	Assumptions []string
	Anchors     []string
	Extra       map[string]interface{}
	Mins        map[string]int // rule -> frozen minimum number of instances
	start       time.Time
	broken      []string
}

func NewReport(prop, tier string, p *Program) *Report {
	return &Report{Property: prop, Tier: tier, Prog: p, Extra: map[string]interface{}{}, Mins: map[string]int{}, start: time.Now()}
}

// Add records an obligation.
func (r *Report) Add(rule, construct string, pos token.Pos, st Status, reason string) *Obligation {
	o := &Obligation{Rule: rule, Construct: construct, Status: st.String(), Reason: reason, st: st}
	if r.Prog != nil {
		o.Pos = r.Prog.Pos(pos)
	}
	r.Obls = append(r.Obls, o)
	return o
}

// Check is shorthand: ok → Discharged else Violated.
func (r *Report) Check(rule, construct string, pos token.Pos, ok bool, okReason, badReason string) *Obligation {
	if ok {
		return r.Add(rule, construct, pos, Discharged, okReason)
	}
	return r.Add(rule, construct, pos, Violated, badReason)
}

// ImportFrom copies the obligations of the given rules of another property's report under one
// rule name of this report (a clause shared by two properties is decided by one rule body).
func (r *Report) ImportFrom(sub *Report, newRule string, rules ...string) int {
	want := map[string]bool{}
	for _, x := range rules {
		want[x] = true
	}
	n := 0
	for _, o := range sub.Obls {
		if !want[o.Rule] {
			continue
		}
		c := *o
		c.Construct = sub.Property + " " + o.Rule + ": " + o.Construct
		c.Rule = newRule
		r.Obls = append(r.Obls, &c)
		n++
	}
	for _, b := range sub.broken {
		r.broken = append(r.broken, sub.Property+": "+b)
	}
	return n
}

// Anchor records a resolved anchor (function, field, const) in evidence.
func (r *Report) Anchor(s string) { r.Anchors = append(r.Anchors, s) }

// Broken records a checker-integrity failure (unresolved anchor, instance count below minimum …).
func (r *Report) Broken(format string, a ...interface{}) {
	r.broken = append(r.broken, fmt.Sprintf(format, a...))
}

// Min freezes the minimum number of instances a rule must generate.
func (r *Report) Min(rule string, n int) { r.Mins[rule] = n }

type knownEntry struct {
	kind, property, rule, construct, text string
	raw                                   string
}

func loadKnown(path string) ([]knownEntry, error) {
	f, err := os.Open(path)
	if err != nil {
		if os.IsNotExist(err) {
			return nil, nil
		}
		return nil, err
	}
	defer f.Close()
	var out []knownEntry
	sc := bufio.NewScanner(f)
	sc.Buffer(make([]byte, 1<<20), 1<<20)
	for sc.Scan() {
		line := strings.TrimSpace(sc.Text())
		if line == "" || strings.HasPrefix(line, "#") {
			continue
		}
		var e knownEntry
		e.raw = line
		switch {
		case strings.HasPrefix(line, "known:"):
			e.kind = "known"
			rest := strings.TrimSpace(strings.TrimPrefix(line, "known:"))
			// known: property=C17 rule=<rule> construct=<construct> :: text
			parts := strings.SplitN(rest, " :: ", 2)
			if len(parts) == 2 {
				e.text = parts[1]
			}
			kv := parts[0]
			pi := strings.Index(kv, "property=")
			ri := strings.Index(kv, " rule=")
			ci := strings.Index(kv, " construct=")
			if pi != 0 || ri < 0 || ci < ri {
				return nil, fmt.Errorf("known-findings: malformed line %q", line)
			}
			e.property = strings.TrimSpace(kv[len("property="):ri])
			e.rule = strings.TrimSpace(kv[ri+len(" rule="):ci])
			e.construct = strings.TrimSpace(kv[ci+len(" construct="):])
		case strings.HasPrefix(line, "fixed:"):
			e.kind = "fixed"
		default:
			return nil, fmt.Errorf("known-findings: malformed line %q", line)
		}
		out = append(out, e)
	}
	return out, sc.Err()
}

// EvidenceDir overrides <verif>/evidence (mutation catalogue subprocesses).
var EvidenceDir string

// Finish prints the verdict lines, writes evidence and returns the process exit code.
func (r *Report) Finish(verifDir string) int {
	known, err := loadKnown(filepath.Join(verifDir, "known-findings.txt"))
	if err != nil {
		r.Broken("%v", err)
	}
	// instance minima
	counts := map[string]int{}
	for _, o := range r.Obls {
		counts[o.Rule]++
	}
	for rule, min := range r.Mins {
		if counts[rule] < min {
			r.Broken("rule %q generated %d instance(s), frozen minimum is %d (a rule that matches nothing passes vacuously)", rule, counts[rule], min)
		}
	}
	sort.SliceStable(r.Obls, func(i, j int) bool {
		if r.Obls[i].Rule != r.Obls[j].Rule {
			return r.Obls[i].Rule < r.Obls[j].Rule
		}
		return r.Obls[i].Construct < r.Obls[j].Construct
	})
	nviol, nknown, ndis, nontriv := 0, 0, 0, 0
	seenNT := map[string]bool{}
	usedKnown := map[string]bool{}
	evdir := filepath.Join(verifDir, "evidence")
	if EvidenceDir != "" {
		evdir = EvidenceDir
	}
	_ = os.MkdirAll(evdir, 0o755)
	// remove stale replay files of this property
	if old, _ := filepath.Glob(filepath.Join(evdir, r.Property+".violation-*.txt")); old != nil {
		for _, f := range old {
			_ = os.Remove(f)
		}
	}
	var lines []string
	for _, o := range r.Obls {
		switch o.st {
		case Discharged:
			ndis++
			if !o.Trivial {
				k := o.Rule + "|" + o.Construct
				if !seenNT[k] {
					seenNT[k] = true
					nontriv++
				}
			}
		default:
			matched := false
			if o.st == Violated {
				for _, k := range known {
					if k.kind == "known" && k.property == r.Property && k.rule == o.Rule && k.construct == o.Construct {
						matched = true
						o.Known = k.text
						usedKnown[k.raw] = true
						break
					}
				}
			}
			if matched {
				nknown++
				lines = append(lines, fmt.Sprintf("KNOWN-FINDING: property=%s rule=%s construct=%s at %s: %s", r.Property, o.Rule, o.Construct, o.Pos, o.Reason))
			} else {
				nviol++
				replay := filepath.Join(evdir, fmt.Sprintf("%s.violation-%d.txt", r.Property, nviol))
				body := fmt.Sprintf("property: %s\nrule: %s\nconstruct: %s\nposition: %s\nstatus: %s\nwhat: %s\n", r.Property, o.Rule, o.Construct, o.Pos, o.Status, o.Reason)
				if o.Path != "" {
					body += "path: " + o.Path + "\n"
				}
				body += fmt.Sprintf("rerun: cd /verif && bin/rcheck -property %s -tier %s\n", r.Property, r.Tier)
				_ = os.WriteFile(replay, []byte(body), 0o644)
				lines = append(lines, fmt.Sprintf("%s rule=%s construct=%s at %s: %s", o.Status, o.Rule, o.Construct, o.Pos, o.Reason))
				lines = append(lines, fmt.Sprintf("VIOLATION property=%s replay=%s", r.Property, replay))
			}
		}
	}
	for _, b := range r.broken {
		lines = append(lines, "CHECKER-BROKEN: "+b)
	}
	// evidence
	samples := []interface{}{}
	// keep every non-discharged obligation and up to 40 discharged ones spread over the rules
	perRule := map[string]int{}
	for _, o := range r.Obls {
		if o.st != Discharged || perRule[o.Rule] < 6 {
			samples = append(samples, o)
			if o.st == Discharged {
				perRule[o.Rule]++
			}
		}
	}
	ruleCounts := map[string]int{}
	for k, v := range counts {
		ruleCounts[k] = v
	}
	cov := map[string]interface{}{
		"explanation":         r.Explanation,
		"not_decided":         r.NotDecided,
		"obligations":         len(r.Obls),
		"discharged":          ndis,
		"known_findings":      nknown,
		"evaluations":         len(r.Obls),
		"distinct_nontrivial": nontriv,
		"rule":                "one evaluation = one rule instance (obligation) generated from /repo's current source; distinct = distinct (rule, construct) keys; non-trivial = needed a guard, path, lockset, table or value-identity argument to discharge (not satisfied vacuously)",
		"samples":             samples,
		"instances_per_rule":  ruleCounts,
		"frozen_minima":       r.Mins,
		"anchors":             r.Anchors,
		"checker_cmd":         fmt.Sprintf("bin/rcheck -property %s -tier %s", r.Property, r.Tier),
		"trusted_base":        []string{"go/types, go/ssa, go/packages (x/tools v0.29.0)", "VTA call graph", "cmd/compile prove pass (BCE report) where used", "library contracts listed under assumptions"},
		"exhaustive":          false,
	}
	if r.Prog != nil {
		cov["functions_analysed"] = len(r.Prog.Funcs())
		cov["packages_loaded"] = len(r.Prog.Pkgs)
		if r.Prog.Whole {
			cov["call_graph"] = "VTA over the whole program (dependencies loaded with bodies: callbacks from crypto/tls, quic-go, net/http into receptor are resolved)"
		} else {
			cov["call_graph"] = "VTA over receptor bodies, dependencies bodiless (opaque externals with the stated contracts)"
		}
		cov["load_s"] = r.Prog.LoadS
	}
	for k, v := range r.Extra {
		cov[k] = v
	}
	ev := map[string]interface{}{
		"property_id": r.Property,
		"tier":        r.Tier,
		"seed":        0,
		"level":       "other",
		"coverage":    cov,
		"assumptions": r.Assumptions,
		"wall_s":      time.Since(r.start).Seconds(),
		"violations":  nviol,
	}
	if len(r.broken) > 0 {
		ev["checker_broken"] = r.broken
	}
	b, _ := json.MarshalIndent(ev, "", " ")
	if err := os.WriteFile(filepath.Join(evdir, r.Property+".json"), b, 0o644); err != nil {
		lines = append(lines, "CHECKER-BROKEN: cannot write evidence: "+err.Error())
		r.broken = append(r.broken, err.Error())
	}
	fmt.Printf("rcheck %s tier=%s: %d obligations, %d discharged, %d known finding(s), %d violation(s), %d functions analysed, %.1fs\n",
		r.Property, r.Tier, len(r.Obls), ndis, nknown, nviol, cov["functions_analysed"], time.Since(r.start).Seconds())
	for _, l := range lines {
		fmt.Println(l)
	}
	if len(r.broken) > 0 {
		return 2
	}
	if nviol > 0 {
		return 1
	}
	return 0
}
