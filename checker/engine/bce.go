package engine

import (
	"bytes"
	"fmt"
	"go/ast"
	"go/token"
	"go/types"
	"os"
	"os/exec"
	"path/filepath"
	"regexp"
	"sort"
	"strconv"
	"strings"

	"golang.org/x/tools/go/ast/astutil"
	"golang.org/x/tools/go/packages"
	"golang.org/x/tools/go/ssa"
)

// Unproven is one index/slice operation whose in-bounds-ness the compiler's prove pass could
// not establish (cmd/compile -d=ssa/check_bce/debug=1, inlining disabled).
type Unproven struct {
	File string // absolute
	Line int
	Col  int
	Kind string // IsInBounds | IsSliceInBounds
	Pos  token.Pos
	Expr ast.Expr      // the IndexExpr / SliceExpr
	Fn   *ssa.Function // enclosing (possibly anonymous) function
	Decl *ast.FuncDecl
	Path []ast.Node        // enclosing AST nodes, innermost first
	Pkg  *packages.Package // package of the file
}

var bceRe = regexp.MustCompile(`^(.+\.go):(\d+):(\d+): Found (IsInBounds|IsSliceInBounds)`)

// BCEReport runs the compiler over the working tree and returns the unproven bounds checks in
// receptor packages, mapped to AST expressions and SSA functions.
// OverlayJSON, when set, is passed to go build (mutation catalogue runs).
var OverlayJSON string

func (p *Program) BCEReport(overlayJSON string) ([]Unproven, error) {
	if overlayJSON == "" {
		overlayJSON = OverlayJSON
	}
	args := []string{"build", "-gcflags=" + ModPath + "/...=-l -d=ssa/check_bce/debug=1"}
	if overlayJSON != "" {
		args = append(args, "-overlay", overlayJSON)
	}
	args = append(args, "./pkg/...", "./cmd/...", "./internal/...")
	cmd := exec.Command("go", args...)
	cmd.Dir = p.RepoDir
	cmd.Env = append(os.Environ(), "GOFLAGS=-mod=mod", "GOPROXY=off", "GOSUMDB=off", "GOTOOLCHAIN=local", "GOWORK=off")
	var out bytes.Buffer
	cmd.Stdout = &out
	cmd.Stderr = &out
	err := cmd.Run()
	var res []Unproven
	nonBCE := []string{}
	for _, line := range strings.Split(out.String(), "\n") {
		m := bceRe.FindStringSubmatch(strings.TrimSpace(line))
		if m == nil {
			if t := strings.TrimSpace(line); t != "" && !strings.HasPrefix(t, "#") {
				nonBCE = append(nonBCE, t)
			}
			continue
		}
		file := m[1]
		if !filepath.IsAbs(file) {
			file = filepath.Join(p.RepoDir, file)
		}
		ln, _ := strconv.Atoi(m[2])
		col, _ := strconv.Atoi(m[3])
		res = append(res, Unproven{File: file, Line: ln, Col: col, Kind: m[4]})
	}
	if err != nil {
		return nil, fmt.Errorf("go build for BCE report failed: %v\n%s", err, strings.Join(nonBCE, "\n"))
	}
	// map to AST
	type fileInfo struct {
		f   *ast.File
		tf  *token.File
		pkg *packages.Package
	}
	files := map[string]fileInfo{}
	for _, pk := range p.Pkgs {
		for i, f := range pk.Syntax {
			name := pk.CompiledGoFiles[i]
			files[name] = fileInfo{f, p.Fset.File(f.Pos()), pk}
		}
	}
	var mapped []Unproven
	for _, u := range res {
		fi, ok := files[u.File]
		if !ok {
			continue // generated/other module
		}
		if u.Line > fi.tf.LineCount() {
			continue
		}
		pos := fi.tf.LineStart(u.Line) + token.Pos(u.Col-1)
		u.Pos = pos
		path, _ := astutil.PathEnclosingInterval(fi.f, pos, pos+1)
		u.Path = path
		u.Pkg = fi.pkg
		for _, n := range path {
			switch e := n.(type) {
			case *ast.IndexExpr:
				if u.Expr == nil && u.Kind == "IsInBounds" {
					u.Expr = e
				}
			case *ast.SliceExpr:
				if u.Expr == nil && u.Kind == "IsSliceInBounds" {
					u.Expr = e
				}
			case *ast.FuncDecl:
				u.Decl = e
			}
		}
		if u.Expr == nil {
			// position may denote the operand; take the innermost index/slice on that line
			for _, n := range path {
				switch e := n.(type) {
				case *ast.IndexExpr:
					if u.Expr == nil {
						u.Expr = e
					}
				case *ast.SliceExpr:
					if u.Expr == nil {
						u.Expr = e
					}
				}
			}
		}
		u.Fn = p.EnclosingFunc(pos)
		mapped = append(mapped, u)
	}
	sort.Slice(mapped, func(i, j int) bool {
		if mapped[i].File != mapped[j].File {
			return mapped[i].File < mapped[j].File
		}
		if mapped[i].Line != mapped[j].Line {
			return mapped[i].Line < mapped[j].Line
		}
		return mapped[i].Col < mapped[j].Col
	})
	return mapped, nil
}

// EnclosingFunc finds the innermost receptor SSA function whose syntax contains pos.
func (p *Program) EnclosingFunc(pos token.Pos) *ssa.Function {
	var best *ssa.Function
	var bestLen token.Pos = 1 << 40
	for _, fn := range p.funcs {
		syn := fn.Syntax()
		if syn == nil {
			continue
		}
		if syn.Pos() <= pos && pos < syn.End() {
			if l := syn.End() - syn.Pos(); l < bestLen {
				best, bestLen = fn, l
			}
		}
	}
	return best
}

// ExprString renders an expression with identifiers as written (diagnostics / stable keys).
func ExprString(e ast.Expr) string { return types.ExprString(e) }
