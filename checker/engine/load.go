// Package engine loads ansible/receptor from /repo's working tree and offers the
// program representations (AST+types, go/ssa, VTA call graph, compiler BCE
// report) and the analysis primitives that the per-property rule files use.
package engine

import (
	"fmt"
	"go/ast"
	"go/token"
	"go/types"
	"os"
	"sort"
	"strings"
	"time"

	"golang.org/x/tools/go/callgraph"
	"golang.org/x/tools/go/callgraph/cha"
	"golang.org/x/tools/go/callgraph/vta"
	"golang.org/x/tools/go/packages"
	"golang.org/x/tools/go/ssa"
	"golang.org/x/tools/go/ssa/ssautil"
)

const ModPath = "github.com/ansible/receptor"

// Program is the loaded, type-checked and SSA-built receptor program.
type Program struct {
	RepoDir string
	Fset    *token.FileSet
	Pkgs    []*packages.Package          // receptor packages (initial)
	ByPath  map[string]*packages.Package // receptor packages by import path
	SSA     *ssa.Program
	SSAPkg  map[string]*ssa.Package // receptor ssa packages by short name (netceptor, workceptor, …) and by path
	Whole   bool                    // dependencies have bodies
	cg      *callgraph.Graph
	funcs   []*ssa.Function // all receptor functions incl. anonymous, sorted by name
	byName  map[string]*ssa.Function
	LoadS   float64
	astFn   map[*ssa.Function]ast.Node
}

// LoadOpts configures Load.
type LoadOpts struct {
	RepoDir string
	Whole   bool              // LoadAllSyntax (thorough tier): bodies for dependencies too
	Overlay map[string][]byte // in-memory file replacements (mutation catalogue)
	Tags    []string
	Env     []string
}

var Patterns = []string{"./pkg/...", "./cmd/...", "./internal/..."}

// Load loads receptor. Any failure is fatal for the check (exit 2 by the caller).
func Load(o LoadOpts) (*Program, error) {
	t0 := time.Now()
	if o.RepoDir == "" {
		o.RepoDir = "/repo"
	}
	mode := packages.NeedName | packages.NeedFiles | packages.NeedCompiledGoFiles | packages.NeedImports |
		packages.NeedDeps | packages.NeedTypes | packages.NeedSyntax | packages.NeedTypesInfo | packages.NeedTypesSizes | packages.NeedModule
	env := append(os.Environ(), "GOFLAGS=-mod=mod", "GOPROXY=off", "GOSUMDB=off", "GOTOOLCHAIN=local", "GOWORK=off")
	env = append(env, o.Env...)
	cfg := &packages.Config{Mode: mode, Dir: o.RepoDir, Env: env, Overlay: o.Overlay, Tests: false}
	if len(o.Tags) > 0 {
		cfg.BuildFlags = []string{"-tags=" + strings.Join(o.Tags, ",")}
	}
	if !o.Whole {
		// receptor from source, dependencies from export data
		cfg.Mode = packages.NeedName | packages.NeedFiles | packages.NeedCompiledGoFiles | packages.NeedImports |
			packages.NeedTypes | packages.NeedSyntax | packages.NeedTypesInfo | packages.NeedTypesSizes | packages.NeedModule | packages.NeedDeps
	}
	var pkgs []*packages.Package
	var err error
	if o.Whole {
		pkgs, err = packages.Load(cfg, Patterns...)
	} else {
		// LoadSyntax semantics: only initial packages get syntax. go/packages gives syntax
		// to dependencies too when NeedDeps|NeedSyntax are both set, so emulate LoadSyntax.
		cfg.Mode = packages.LoadSyntax | packages.NeedModule
		pkgs, err = packages.Load(cfg, Patterns...)
	}
	if err != nil {
		return nil, fmt.Errorf("load: %v", err)
	}
	if len(pkgs) == 0 {
		return nil, fmt.Errorf("load: zero packages matched %v in %s", Patterns, o.RepoDir)
	}
	p := &Program{RepoDir: o.RepoDir, ByPath: map[string]*packages.Package{}, SSAPkg: map[string]*ssa.Package{}, Whole: o.Whole,
		byName: map[string]*ssa.Function{}, astFn: map[*ssa.Function]ast.Node{}}
	var errs []string
	for _, pk := range pkgs {
		for _, e := range pk.Errors {
			errs = append(errs, pk.PkgPath+": "+e.Error())
		}
		if pk.Types == nil || pk.TypesInfo == nil {
			errs = append(errs, pk.PkgPath+": no type information")
		}
	}
	if len(errs) > 0 {
		return nil, fmt.Errorf("load: receptor does not type-check:\n  %s", strings.Join(errs, "\n  "))
	}
	p.Pkgs = pkgs
	p.Fset = pkgs[0].Fset
	for _, pk := range pkgs {
		p.ByPath[pk.PkgPath] = pk
	}

	bmode := ssa.InstantiateGenerics
	prog := ssa.NewProgram(p.Fset, bmode)
	if o.Whole {
		seen := map[*packages.Package]bool{}
		var visit func(pk *packages.Package)
		visit = func(pk *packages.Package) {
			if seen[pk] {
				return
			}
			seen[pk] = true
			for _, im := range pk.Imports {
				visit(im)
			}
			if pk.Types != nil && !pk.IllTyped && pk.TypesInfo != nil && len(pk.Syntax) > 0 {
				prog.CreatePackage(pk.Types, pk.Syntax, pk.TypesInfo, true)
			} else if pk.Types != nil {
				prog.CreatePackage(pk.Types, nil, nil, true)
			}
		}
		for _, pk := range pkgs {
			visit(pk)
		}
	} else {
		created := map[*types.Package]bool{}
		var deps func(tp *types.Package)
		deps = func(tp *types.Package) {
			for _, im := range tp.Imports() {
				if !created[im] {
					created[im] = true
					if _, isInitial := p.ByPath[im.Path()]; !isInitial {
						prog.CreatePackage(im, nil, nil, true)
					}
					deps(im)
				}
			}
		}
		for _, pk := range pkgs {
			created[pk.Types] = true
		}
		for _, pk := range pkgs {
			deps(pk.Types)
		}
		for _, pk := range pkgs {
			prog.CreatePackage(pk.Types, pk.Syntax, pk.TypesInfo, true)
		}
	}
	prog.Build()
	p.SSA = prog
	for _, pk := range pkgs {
		sp := prog.Package(pk.Types)
		if sp == nil {
			return nil, fmt.Errorf("load: no SSA package for %s", pk.PkgPath)
		}
		p.SSAPkg[pk.PkgPath] = sp
		if _, dup := p.SSAPkg[pk.Name]; !dup {
			p.SSAPkg[pk.Name] = sp
		}
	}
	// enumerate receptor functions
	all := ssautil.AllFunctions(prog)
	for fn := range all {
		if p.IsReceptorFn(fn) && fn.Blocks != nil && fn.Synthetic == "" {
			p.funcs = append(p.funcs, fn)
		}
	}
	sort.Slice(p.funcs, func(i, j int) bool { return FuncName(p.funcs[i]) < FuncName(p.funcs[j]) })
	for _, fn := range p.funcs {
		p.byName[FuncName(fn)] = fn
	}
	p.LoadS = time.Since(t0).Seconds()
	return p, nil
}

// IsReceptorFn reports whether fn (or its outermost parent) belongs to a receptor package.
func (p *Program) IsReceptorFn(fn *ssa.Function) bool {
	for fn.Parent() != nil {
		fn = fn.Parent()
	}
	if fn.Pkg != nil {
		return strings.HasPrefix(fn.Pkg.Pkg.Path(), ModPath)
	}
	// methods of instantiated generics / wrappers: use the receiver's package
	if o := fn.Object(); o != nil && o.Pkg() != nil {
		return strings.HasPrefix(o.Pkg().Path(), ModPath)
	}
	return false
}

// Funcs returns every receptor function with a body (anonymous functions included).
func (p *Program) Funcs() []*ssa.Function { return p.funcs }

// FuncName is the stable display/lookup name: "netceptor.(*Netceptor).runProtocol", "netceptor.New",
// anonymous functions "netceptor.(*Netceptor).flood$1".
func FuncName(fn *ssa.Function) string {
	s := fn.String()
	s = strings.ReplaceAll(s, ModPath+"/pkg/", "")
	s = strings.ReplaceAll(s, ModPath+"/", "")
	return s
}

// Func resolves a function by FuncName. ok=false if absent.
func (p *Program) Func(name string) *ssa.Function { return p.byName[name] }

// CallGraph builds (once) the VTA call graph seeded by CHA.
func (p *Program) CallGraph() *callgraph.Graph {
	if p.cg == nil {
		all := ssautil.AllFunctions(p.SSA)
		g := vta.CallGraph(all, cha.CallGraph(p.SSA))
		g.DeleteSyntheticNodes()
		p.cg = g
	}
	return p.cg
}

// Pos renders a position relative to the repository root.
func (p *Program) Pos(pos token.Pos) string {
	if !pos.IsValid() {
		return "-"
	}
	ps := p.Fset.Position(pos)
	fn := strings.TrimPrefix(ps.Filename, p.RepoDir+"/")
	return fmt.Sprintf("%s:%d:%d", fn, ps.Line, ps.Column)
}

// Pkg returns the go/packages package with the given short name (e.g. "netceptor") or path.
func (p *Program) Pkg(name string) *packages.Package {
	if pk, ok := p.ByPath[name]; ok {
		return pk
	}
	for _, pk := range p.Pkgs {
		if pk.Name == name && strings.HasSuffix(pk.PkgPath, "/"+name) {
			return pk
		}
	}
	return nil
}
