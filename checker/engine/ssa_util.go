package engine

import (
	"fmt"
	"go/constant"
	"go/token"
	"go/types"
	"sort"
	"strings"

	"golang.org/x/tools/go/ssa"
)

// ---------- anchors ----------

// NamedType resolves pkg.TypeName in a receptor package (short package name).
func (p *Program) NamedType(pkg, name string) *types.Named {
	pk := p.Pkg(pkg)
	if pk == nil {
		return nil
	}
	o := pk.Types.Scope().Lookup(name)
	if o == nil {
		return nil
	}
	n, _ := o.Type().(*types.Named)
	return n
}

// Field resolves a struct field object: Field("netceptor","Netceptor","connections").
func (p *Program) Field(pkg, typ, field string) *types.Var {
	n := p.NamedType(pkg, typ)
	if n == nil {
		return nil
	}
	st, ok := n.Underlying().(*types.Struct)
	if !ok {
		return nil
	}
	for i := 0; i < st.NumFields(); i++ {
		if st.Field(i).Name() == field {
			return st.Field(i)
		}
	}
	return nil
}

// Const resolves a package-level constant.
func (p *Program) Const(pkg, name string) *types.Const {
	pk := p.Pkg(pkg)
	if pk == nil {
		return nil
	}
	c, _ := pk.Types.Scope().Lookup(name).(*types.Const)
	return c
}

// Global resolves a package-level variable's ssa.Global.
func (p *Program) Global(pkg, name string) *ssa.Global {
	sp := p.SSAPkg[pkg]
	if sp == nil {
		return nil
	}
	g, _ := sp.Members[name].(*ssa.Global)
	return g
}

// Method resolves the *types.Func of a method or interface method.
func (p *Program) Method(pkg, typ, name string) *types.Func {
	n := p.NamedType(pkg, typ)
	if n == nil {
		return nil
	}
	obj, _, _ := types.LookupFieldOrMethod(types.NewPointer(n), true, n.Obj().Pkg(), name)
	f, _ := obj.(*types.Func)
	if f == nil {
		if it, ok := n.Underlying().(*types.Interface); ok {
			for i := 0; i < it.NumMethods(); i++ {
				if it.Method(i).Name() == name {
					return it.Method(i)
				}
			}
		}
	}
	return f
}

// Implementations returns the receptor functions implementing interface method pkg.Iface.name,
// discovered through types.Implements (so a type added later is covered automatically).
func (p *Program) Implementations(pkg, iface, name string) []*ssa.Function {
	n := p.NamedType(pkg, iface)
	if n == nil {
		return nil
	}
	it, ok := n.Underlying().(*types.Interface)
	if !ok {
		return nil
	}
	var out []*ssa.Function
	seen := map[*ssa.Function]bool{}
	for _, pk := range p.Pkgs {
		sc := pk.Types.Scope()
		for _, nm := range sc.Names() {
			tn, ok := sc.Lookup(nm).(*types.TypeName)
			if !ok || tn.IsAlias() {
				continue
			}
			if _, isIface := tn.Type().Underlying().(*types.Interface); isIface {
				continue
			}
			for _, T := range []types.Type{tn.Type(), types.NewPointer(tn.Type())} {
				if !types.Implements(T, it) {
					continue
				}
				sel := p.SSA.MethodSets.MethodSet(T).Lookup(tn.Pkg(), name)
				if sel == nil {
					// exported method from another package
					ms := p.SSA.MethodSets.MethodSet(T)
					for i := 0; i < ms.Len(); i++ {
						if ms.At(i).Obj().Name() == name {
							sel = ms.At(i)
						}
					}
				}
				if sel == nil {
					continue
				}
				fn := p.SSA.MethodValue(sel)
				// unwrap promoted-method wrappers to the declared function
				if fn != nil && fn.Synthetic != "" {
					if f2 := p.SSA.FuncValue(sel.Obj().(*types.Func)); f2 != nil {
						fn = f2
					}
				}
				if fn != nil && !seen[fn] && p.IsReceptorFn(fn) && fn.Blocks != nil {
					seen[fn] = true
					out = append(out, fn)
				}
			}
		}
	}
	sort.Slice(out, func(i, j int) bool { return FuncName(out[i]) < FuncName(out[j]) })
	return out
}

// ---------- callees ----------

// StaticCalleeName is "pkgpath.Func" / "(pkgpath.T).Method" / "(*pkgpath.T).Method" for statically
// dispatched calls and "iface:(pkgpath.I).Method" for interface invocations; "" otherwise.
func CalleeName(c *ssa.CallCommon) string {
	if c.IsInvoke() {
		return "iface:" + c.Method.FullName()
	}
	if f := c.StaticCallee(); f != nil {
		if o := f.Object(); o != nil {
			return o.(*types.Func).FullName()
		}
		return f.String()
	}
	if b, ok := c.Value.(*ssa.Builtin); ok {
		return "builtin:" + b.Name()
	}
	return ""
}

// CalleeObj returns the called *types.Func (method object for invokes), or nil.
func CalleeObj(c *ssa.CallCommon) *types.Func {
	if c.IsInvoke() {
		return c.Method
	}
	if f := c.StaticCallee(); f != nil {
		if o, ok := f.Object().(*types.Func); ok {
			return o
		}
	}
	return nil
}

// IsCallTo reports whether the call's callee full name matches one of names
// (types.Func.FullName form, e.g. "(*github.com/ansible/receptor/pkg/netceptor.Netceptor).flood",
// "encoding/json.Unmarshal", "(*sync.RWMutex).Lock"); invocations match "(pkg.Iface).Method".
func IsCallTo(c *ssa.CallCommon, names ...string) bool {
	o := CalleeObj(c)
	if o == nil {
		return false
	}
	fn := o.FullName()
	for _, n := range names {
		if fn == n || fn == expandPkg(n) {
			return true
		}
	}
	return false
}

// expandPkg lets rule tables write "netceptor." instead of the full module path.
func expandPkg(n string) string {
	for _, short := range []string{"netceptor", "workceptor", "controlsvc", "backends", "framer", "utils", "certificates", "tickrunner", "randstr", "logger", "services", "types"} {
		n = strings.ReplaceAll(n, "(*"+short+".", "(*"+ModPath+"/pkg/"+short+".")
		n = strings.ReplaceAll(n, "("+short+".", "("+ModPath+"/pkg/"+short+".")
		if strings.HasPrefix(n, short+".") {
			n = ModPath + "/pkg/" + n
		}
	}
	return n
}

// CallsIn lists the call instructions (Call, Go, Defer) of fn in block order.
func CallsIn(fn *ssa.Function) []ssa.CallInstruction {
	var out []ssa.CallInstruction
	for _, b := range fn.Blocks {
		for _, in := range b.Instrs {
			if c, ok := in.(ssa.CallInstruction); ok {
				out = append(out, c)
			}
		}
	}
	return out
}

// AllInstrs calls f for each instruction of each receptor function.
func (p *Program) AllInstrs(f func(fn *ssa.Function, in ssa.Instruction)) {
	for _, fn := range p.funcs {
		for _, b := range fn.Blocks {
			for _, in := range b.Instrs {
				f(fn, in)
			}
		}
	}
}

// CallSitesOf returns every call instruction in receptor code whose callee object is obj
// (static calls, interface invocations of that method object, go/defer included).
func (p *Program) CallSitesOf(obj *types.Func) []ssa.CallInstruction {
	var out []ssa.CallInstruction
	p.AllInstrs(func(fn *ssa.Function, in ssa.Instruction) {
		if c, ok := in.(ssa.CallInstruction); ok {
			if CalleeObj(c.Common()) == obj {
				out = append(out, c)
			}
		}
	})
	return out
}

// Outermost returns the top-level function enclosing fn (fn itself if not anonymous).
func Outermost(fn *ssa.Function) *ssa.Function {
	for fn.Parent() != nil {
		fn = fn.Parent()
	}
	return fn
}

// ---------- values ----------

// Unwrap strips value-preserving wrappers: ChangeType, Convert between identical underlying
// types, ChangeInterface, MakeInterface, single-edge Phi.
func Unwrap(v ssa.Value) ssa.Value {
	for i := 0; i < 20; i++ {
		switch x := v.(type) {
		case *ssa.ChangeType:
			v = x.X
		case *ssa.ChangeInterface:
			v = x.X
		case *ssa.MakeInterface:
			v = x.X
		case *ssa.Convert:
			v = x.X
		case *ssa.Phi:
			if len(x.Edges) == 1 {
				v = x.Edges[0]
			} else {
				return v
			}
		default:
			return v
		}
	}
	return v
}

// FieldOfLoad: if v is a load (UnOp *) of FieldAddr(base, f) or a Field(base, f), returns f's
// *types.Var and the base value.
func FieldOfLoad(v ssa.Value) (*types.Var, ssa.Value) {
	v = Unwrap(v)
	switch x := v.(type) {
	case *ssa.UnOp:
		if x.Op == token.MUL {
			if fa, ok := x.X.(*ssa.FieldAddr); ok {
				return fieldVar(fa.X.Type(), fa.Field), fa.X
			}
		}
	case *ssa.Field:
		return fieldVar(x.X.Type(), x.Field), x.X
	}
	return nil, nil
}

func fieldVar(t types.Type, idx int) *types.Var {
	if pt, ok := t.Underlying().(*types.Pointer); ok {
		t = pt.Elem()
	}
	st, ok := t.Underlying().(*types.Struct)
	if !ok || idx >= st.NumFields() {
		return nil
	}
	return st.Field(idx)
}

// FieldAddrVar returns the field object addressed by fa.
func FieldAddrVar(fa *ssa.FieldAddr) *types.Var { return fieldVar(fa.X.Type(), fa.Field) }

// IsNilConst reports whether v is the nil constant.
func IsNilConst(v ssa.Value) bool {
	c, ok := v.(*ssa.Const)
	return ok && c.IsNil()
}

// ConstInt returns the integer value of a constant.
func ConstInt(v ssa.Value) (int64, bool) {
	c, ok := Unwrap(v).(*ssa.Const)
	if !ok || c.Value == nil {
		return 0, false
	}
	if c.Value.Kind() != constant.Int {
		if c.Value.Kind() == constant.Float {
			f, _ := constant.Float64Val(c.Value)
			if f == float64(int64(f)) {
				return int64(f), true
			}
		}
		return 0, false
	}
	i, ok := constant.Int64Val(c.Value)
	return i, ok
}

// ConstString returns the string value of a string constant.
func ConstString(v ssa.Value) (string, bool) {
	c, ok := Unwrap(v).(*ssa.Const)
	if !ok || c.Value == nil || c.Value.Kind() != constant.String {
		return "", false
	}
	return constant.StringVal(c.Value), true
}

// ---------- CFG edges and reachability ----------

// Edge is the CFG edge from block From to its successor number Succ.
type Edge struct {
	From *ssa.BasicBlock
	Succ int
}

func (e Edge) To() *ssa.BasicBlock { return e.From.Succs[e.Succ] }

type EdgeSet map[Edge]bool

func (s EdgeSet) Add(es ...Edge) EdgeSet {
	for _, e := range es {
		s[e] = true
	}
	return s
}

// IfOf returns the If instruction terminating b, or nil.
func IfOf(b *ssa.BasicBlock) *ssa.If {
	if len(b.Instrs) == 0 {
		return nil
	}
	i, _ := b.Instrs[len(b.Instrs)-1].(*ssa.If)
	return i
}

// Ifs enumerates the If instructions of fn.
func Ifs(fn *ssa.Function) []*ssa.If {
	var out []*ssa.If
	for _, b := range fn.Blocks {
		if i := IfOf(b); i != nil {
			out = append(out, i)
		}
	}
	return out
}

// InstrRef addresses an instruction by block and index.
type InstrRef struct {
	B *ssa.BasicBlock
	I int
}

func RefOf(in ssa.Instruction) InstrRef {
	b := in.Block()
	for i, x := range b.Instrs {
		if x == in {
			return InstrRef{b, i}
		}
	}
	return InstrRef{b, -1}
}

// Reach explores fn's CFG at instruction granularity.
//   - start: instruction after which exploration starts (nil = function entry)
//   - cut: edges that are removed
//   - barrier: instructions that stop a path (the barrier itself is not "visited")
//   - visit: called for every instruction reached; returning true stops the search and makes Reach return that instruction
//
// Calls to functions that never return (NoReturn) stop a path. Paths are threaded through
// boolean flag phis: when a block is entered from predecessor P and ends in an If whose condition
// is (a negation of) a Phi of the same block whose operand for P is a boolean constant, only the
// consistent successor is followed (this removes the infeasible paths of the
// "ok := true; …; ok = false; …; if !ok" idiom). Returns the first instruction for which visit
// returned true, or nil.
func Reach(fn *ssa.Function, start ssa.Instruction, cut EdgeSet, barrier func(ssa.Instruction) bool, visit func(ssa.Instruction) bool) ssa.Instruction {
	return reachImpl(fn, start, nil, cut, barrier, visit)
}

// ReachEdge is Reach starting at the target block of edge e (its first instruction included);
// the truth value that taking e establishes for the branch condition is known on the paths.
func ReachEdge(fn *ssa.Function, e Edge, cut EdgeSet, barrier func(ssa.Instruction) bool, visit func(ssa.Instruction) bool) ssa.Instruction {
	return reachImpl(fn, nil, &e, cut, barrier, visit)
}

// condFact: the (value, truth) established by taking successor si of the If ending block b.
func condFact(b *ssa.BasicBlock, si int) (ssa.Value, bool, bool) {
	i := IfOf(b)
	if i == nil {
		return nil, false, false
	}
	c := i.Cond
	val := si == 0
	for {
		u, ok := c.(*ssa.UnOp)
		if ok && u.Op == token.NOT {
			val = !val
			c = u.X
			continue
		}
		break
	}
	if _, isConst := c.(*ssa.Const); isConst {
		return nil, false, false
	}
	return c, val, true
}

func reachImpl(fn *ssa.Function, start ssa.Instruction, startEdge *Edge, cut EdgeSet, barrier func(ssa.Instruction) bool, visit func(ssa.Instruction) bool) ssa.Instruction {
	if len(fn.Blocks) == 0 {
		return nil
	}
	cells := boolCells(fn)
	type item struct {
		b    *ssa.BasicBlock
		i    int
		pred *ssa.BasicBlock
		env  string // constants known to be stored in tracked memory locations on this path
	}
	type key struct {
		b, pred *ssa.BasicBlock
		env     string
	}
	seenTop := map[key]bool{}
	var work []item
	switch {
	case startEdge != nil:
		env0 := map[string]constant.Value{}
		if v, val, ok := condFact(startEdge.From, startEdge.Succ); ok {
			env0["V"+v.Name()] = constant.MakeBool(val)
		}
		e0 := encodeEnv(env0)
		work = append(work, item{startEdge.To(), 0, startEdge.From, e0})
		seenTop[key{startEdge.To(), startEdge.From, e0}] = true
	case start == nil:
		work = append(work, item{fn.Blocks[0], 0, nil, ""})
		seenTop[key{fn.Blocks[0], nil, ""}] = true
	default:
		r := RefOf(start)
		// branch facts implied by control dependence: a dominating If one of whose successors
		// (with that If as only predecessor) dominates the start block
		env0 := map[string]constant.Value{}
		for d := r.B.Idom(); d != nil; d = d.Idom() {
			if IfOf(d) == nil || len(d.Succs) != 2 {
				continue
			}
			for si, sb := range d.Succs {
				other := d.Succs[1-si]
				if len(sb.Preds) == 1 && (sb == r.B || sb.Dominates(r.B)) && !(other == r.B || other.Dominates(r.B)) {
					if v, val, ok := condFact(d, si); ok {
						if _, dup := env0["V"+v.Name()]; !dup {
							env0["V"+v.Name()] = constant.MakeBool(val)
						}
					}
				}
			}
		}
		work = append(work, item{r.B, r.I + 1, nil, encodeEnv(env0)})
	}
	// location key of an address: tracked bool cell, or field of an SSA pointer value
	locOf := func(addr ssa.Value) string {
		switch a := addr.(type) {
		case *ssa.Alloc:
			if idx, ok := cells[a]; ok {
				return fmt.Sprintf("A%d", idx)
			}
		case *ssa.FieldAddr:
			return fmt.Sprintf("F%s#%d", a.X.Name(), a.Field)
		}
		return ""
	}
	for len(work) > 0 {
		it := work[len(work)-1]
		work = work[:len(work)-1]
		env := decodeEnv(it.env)
		loads := map[ssa.Value]constant.Value{}
		stopped := false
		for i := it.i; i < len(it.b.Instrs); i++ {
			in := it.b.Instrs[i]
			if barrier != nil && barrier(in) {
				stopped = true
				break
			}
			if visit != nil && visit(in) {
				return in
			}
			if c, ok := in.(*ssa.Call); ok && NoReturn(c.Common()) {
				stopped = true
				break
			}
			if _, ok := in.(*ssa.Panic); ok {
				stopped = true
				break
			}
			if v, isVal := in.(ssa.Value); isVal {
				if len(env) > 0 {
					delete(env, "V"+v.Name())
				}
				// a phi takes the (known) boolean value of its operand for the edge we came in on
				if ph, isPhi := in.(*ssa.Phi); isPhi && it.pred != nil && it.i == 0 {
					for pi, pb := range it.b.Preds {
						if pb == it.pred && pi < len(ph.Edges) {
							switch op := ph.Edges[pi].(type) {
							case *ssa.Const:
								if op.Value != nil && op.Value.Kind() == constant.Bool {
									env["V"+ph.Name()] = op.Value
								}
							default:
								if f, known := env["V"+op.Name()]; known {
									env["V"+ph.Name()] = f
								}
							}
						}
					}
				}
			}
			switch x := in.(type) {
			case *ssa.Store:
				if loc := locOf(x.Addr); loc != "" {
					if k, ok := x.Val.(*ssa.Const); ok && k.Value != nil && (k.Value.Kind() == constant.Bool || k.Value.Kind() == constant.Int) {
						env[loc] = k.Value
					} else {
						delete(env, loc)
					}
				}
			case *ssa.UnOp:
				if x.Op == token.MUL {
					if loc := locOf(x.X); loc != "" {
						if v, known := env[loc]; known {
							loads[x] = v
						}
					}
				}
			case ssa.CallInstruction:
				// a pointer handed to a call may have its fields changed
				if len(env) > 0 {
					args := x.Common().Args
					if x.Common().IsInvoke() {
						args = append([]ssa.Value{x.Common().Value}, args...)
					}
					for _, a := range args {
						prefix := "F" + a.Name() + "#"
						for k := range env {
							if strings.HasPrefix(k, prefix) {
								delete(env, k)
							}
						}
					}
				}
			}
		}
		if stopped {
			continue
		}
		only := -1
		if it.pred != nil && it.i == 0 {
			only = threadedSuccEnv(it.b, it.pred, env)
		}
		if only < 0 {
			if i := IfOf(it.b); i != nil {
				if v, known := evalCond(i.Cond, loads); known {
					if v {
						only = 0
					} else {
						only = 1
					}
				} else if c, _, ok := condFact(it.b, 0); ok {
					if f, known := env["V"+c.Name()]; known && f.Kind() == constant.Bool {
						// fact about the stripped condition: which successor makes it that value?
						_, v0, _ := condFact(it.b, 0)
						if constant.BoolVal(f) == v0 {
							only = 0
						} else {
							only = 1
						}
					}
				}
			}
		}
		for si, s := range it.b.Succs {
			if only >= 0 && si != only {
				continue
			}
			if cut != nil && cut[Edge{it.b, si}] {
				continue
			}
			envS := encodeEnv(env)
			if c, val, ok := condFact(it.b, si); ok && len(it.b.Succs) == 2 {
				env2 := map[string]constant.Value{}
				for k, v := range env {
					env2[k] = v
				}
				env2["V"+c.Name()] = constant.MakeBool(val)
				envS = encodeEnv(env2)
			}
			k := key{s, it.b, envS}
			if !seenTop[k] {
				seenTop[k] = true
				work = append(work, item{s, 0, it.b, envS})
			}
		}
	}
	return nil
}

// evalCond evaluates a branch condition from the constants known for loads of this block.
func evalCond(c ssa.Value, loads map[ssa.Value]constant.Value) (bool, bool) {
	neg := false
	for {
		u, ok := c.(*ssa.UnOp)
		if ok && u.Op == token.NOT {
			neg = !neg
			c = u.X
			continue
		}
		break
	}
	if v, known := loads[c]; known && v.Kind() == constant.Bool {
		return constant.BoolVal(v) != neg, true
	}
	if bo, ok := c.(*ssa.BinOp); ok {
		var l, r constant.Value
		if v, known := loads[bo.X]; known {
			l = v
		} else if k, ok := bo.X.(*ssa.Const); ok && k.Value != nil {
			l = k.Value
		}
		if v, known := loads[bo.Y]; known {
			r = v
		} else if k, ok := bo.Y.(*ssa.Const); ok && k.Value != nil {
			r = k.Value
		}
		_, lLoaded := loads[bo.X]
		_, rLoaded := loads[bo.Y]
		if l != nil && r != nil && (lLoaded || rLoaded) && l.Kind() == r.Kind() && l.Kind() == constant.Int {
			switch bo.Op {
			case token.EQL, token.NEQ, token.LSS, token.LEQ, token.GTR, token.GEQ:
				return constant.Compare(l, bo.Op, r) != neg, true
			}
		}
	}
	return false, false
}

// boolCells finds local bool variables kept in memory cells (captured by a closure or address
// taken) whose only stores are boolean constants in fn itself and that closures only read.
func boolCells(fn *ssa.Function) map[*ssa.Alloc]int {
	out := map[*ssa.Alloc]int{}
	for _, b := range fn.Blocks {
		for _, in := range b.Instrs {
			a, ok := in.(*ssa.Alloc)
			if !ok {
				continue
			}
			pt, ok := a.Type().Underlying().(*types.Pointer)
			if !ok {
				continue
			}
			if bt, ok := pt.Elem().Underlying().(*types.Basic); !ok || bt.Kind() != types.Bool {
				continue
			}
			good := true
			if refs := a.Referrers(); refs != nil {
				for _, r := range *refs {
					switch x := r.(type) {
					case *ssa.Store:
						if x.Addr != ssa.Value(a) {
							good = false
						}
					case *ssa.UnOp:
					case *ssa.DebugRef:
					case *ssa.MakeClosure:
						cl := x.Fn.(*ssa.Function)
						for bi, bd := range x.Bindings {
							if bd == ssa.Value(a) && bi < len(cl.FreeVars) {
								if fr := cl.FreeVars[bi].Referrers(); fr != nil {
									for _, rr := range *fr {
										if u, ok := rr.(*ssa.UnOp); !ok || u.Op != token.MUL {
											good = false
										}
									}
								}
							}
						}
					default:
						good = false
					}
				}
			}
			if good {
				out[a] = len(out)
			}
		}
	}
	return out
}

func encodeEnv(env map[string]constant.Value) string {
	if len(env) == 0 {
		return ""
	}
	keys := make([]string, 0, len(env))
	for k := range env {
		keys = append(keys, k)
	}
	sort.Strings(keys)
	var sb strings.Builder
	for _, k := range keys {
		fmt.Fprintf(&sb, "%s=%s;", k, env[k].ExactString())
	}
	return sb.String()
}

func decodeEnv(s string) map[string]constant.Value {
	env := map[string]constant.Value{}
	for _, part := range strings.Split(s, ";") {
		if part == "" {
			continue
		}
		kv := strings.SplitN(part, "=", 2)
		if len(kv) != 2 {
			continue
		}
		switch kv[1] {
		case "true":
			env[kv[0]] = constant.MakeBool(true)
		case "false":
			env[kv[0]] = constant.MakeBool(false)
		default:
			var n int64
			if _, err := fmt.Sscanf(kv[1], "%d", &n); err == nil {
				env[kv[0]] = constant.MakeInt64(n)
			}
		}
	}
	return env
}

// threadedSuccEnv is threadedSucc that also resolves a phi operand through a known branch fact.
func threadedSuccEnv(b, pred *ssa.BasicBlock, env map[string]constant.Value) int {
	if r := threadedSucc(b, pred); r >= 0 {
		return r
	}
	i := IfOf(b)
	if i == nil {
		return -1
	}
	c := i.Cond
	neg := false
	for {
		u, ok := c.(*ssa.UnOp)
		if ok && u.Op == token.NOT {
			neg = !neg
			c = u.X
			continue
		}
		break
	}
	ph, ok := c.(*ssa.Phi)
	if !ok || ph.Block() != b {
		return -1
	}
	for pi, p := range b.Preds {
		if p == pred && pi < len(ph.Edges) {
			f, known := env["V"+ph.Edges[pi].Name()]
			if !known || f.Kind() != constant.Bool {
				return -1
			}
			val := constant.BoolVal(f)
			if neg {
				val = !val
			}
			if val {
				return 0
			}
			return 1
		}
	}
	return -1
}

// threadedSucc: b entered from pred ends in If on a phi of b with a constant bool for pred →
// index of the only feasible successor, else -1.
func threadedSucc(b, pred *ssa.BasicBlock) int {
	i := IfOf(b)
	if i == nil {
		return -1
	}
	c := i.Cond
	neg := false
	for {
		u, ok := c.(*ssa.UnOp)
		if ok && u.Op == token.NOT {
			neg = !neg
			c = u.X
			continue
		}
		break
	}
	ph, ok := c.(*ssa.Phi)
	if !ok || ph.Block() != b {
		return -1
	}
	for pi, p := range b.Preds {
		if p == pred && pi < len(ph.Edges) {
			k, ok := ph.Edges[pi].(*ssa.Const)
			if !ok || k.Value == nil || k.Value.Kind() != constant.Bool {
				return -1
			}
			val := constant.BoolVal(k.Value)
			if neg {
				val = !val
			}
			if val {
				return 0
			}
			return 1
		}
	}
	return -1
}

// NoReturn reports calls that never return.
func NoReturn(c *ssa.CallCommon) bool {
	o := CalleeObj(c)
	if o == nil {
		return false
	}
	switch o.FullName() {
	case "os.Exit", "log.Fatal", "log.Fatalf", "log.Fatalln", "runtime.Goexit",
		"(*log.Logger).Fatal", "(*log.Logger).Fatalf", "(*log.Logger).Fatalln",
		"(*testing.common).FailNow", "(*testing.common).Fatal", "(*testing.common).Fatalf":
		return true
	}
	return false
}

// Returns lists the Return instructions of fn.
func Returns(fn *ssa.Function) []*ssa.Return {
	var out []*ssa.Return
	for _, b := range fn.Blocks {
		for _, in := range b.Instrs {
			if r, ok := in.(*ssa.Return); ok {
				out = append(out, r)
			}
		}
	}
	return out
}

// ---------- condition matching ----------

// CondEdges finds, in fn, every If whose condition satisfies match and returns the edges taken
// when the matched predicate is true / false. match receives the condition with leading
// negations (UnOp !) stripped and tells whether the predicate holds when that stripped
// condition is TRUE (holdsOnTrue) — CondEdges accounts for the stripped negations.
func CondEdges(fn *ssa.Function, match func(cond ssa.Value) (matched, holdsOnTrue bool)) (holds, fails []Edge) {
	for _, i := range Ifs(fn) {
		c := i.Cond
		neg := false
		for {
			u, ok := c.(*ssa.UnOp)
			if ok && u.Op == token.NOT {
				neg = !neg
				c = u.X
				continue
			}
			break
		}
		m, onTrue := match(c)
		if !m {
			continue
		}
		if neg {
			onTrue = !onTrue
		}
		b := i.Block()
		if onTrue {
			holds = append(holds, Edge{b, 0})
			fails = append(fails, Edge{b, 1})
		} else {
			holds = append(holds, Edge{b, 1})
			fails = append(fails, Edge{b, 0})
		}
	}
	return
}

// Cmp describes a comparison "subject op other".
type Cmp struct {
	Op      token.Token
	Subject ssa.Value
	Other   ssa.Value
}

// AsCmp decomposes a BinOp comparison so that the operand satisfying isSubject is on the left
// (flipping the operator when needed). ok=false if v is no comparison or no operand matches.
func AsCmp(v ssa.Value, isSubject func(ssa.Value) bool) (Cmp, bool) {
	b, ok := v.(*ssa.BinOp)
	if !ok {
		return Cmp{}, false
	}
	switch b.Op {
	case token.EQL, token.NEQ, token.LSS, token.LEQ, token.GTR, token.GEQ:
	default:
		return Cmp{}, false
	}
	if isSubject(b.X) {
		return Cmp{b.Op, b.X, b.Y}, true
	}
	if isSubject(b.Y) {
		return Cmp{flip(b.Op), b.Y, b.X}, true
	}
	return Cmp{}, false
}

func flip(op token.Token) token.Token {
	switch op {
	case token.LSS:
		return token.GTR
	case token.LEQ:
		return token.GEQ
	case token.GTR:
		return token.LSS
	case token.GEQ:
		return token.LEQ
	}
	return op
}

func negate(op token.Token) token.Token {
	switch op {
	case token.EQL:
		return token.NEQ
	case token.NEQ:
		return token.EQL
	case token.LSS:
		return token.GEQ
	case token.LEQ:
		return token.GTR
	case token.GTR:
		return token.LEQ
	case token.GEQ:
		return token.LSS
	}
	return op
}

// IntPredImplies: does "x op c" (over integers x ≥ min) imply "x wantOp wantC"?
// Exact: both predicates are threshold comparisons, so their truth values are constant outside
// [min(c,wantC)-2, max(c,wantC)+2]; that window is enumerated.
func IntPredImplies(op token.Token, c int64, min int64, wantOp token.Token, wantC int64) bool {
	lo, hi := c, c
	if wantC < lo {
		lo = wantC
	}
	if wantC > hi {
		hi = wantC
	}
	lo -= 2
	hi += 2
	if lo < min {
		lo = min
	}
	for x := lo; x <= hi; x++ {
		if evalCmp(x, op, c) && !evalCmp(x, wantOp, wantC) {
			return false
		}
	}
	return true
}

func evalCmp(x int64, op token.Token, c int64) bool {
	switch op {
	case token.EQL:
		return x == c
	case token.NEQ:
		return x != c
	case token.LSS:
		return x < c
	case token.LEQ:
		return x <= c
	case token.GTR:
		return x > c
	case token.GEQ:
		return x >= c
	}
	return false
}

// IntCmpEdges finds Ifs comparing a subject value (isSubject) with an integer constant and
// returns the edges on which "subject wantOp wantC" is guaranteed (holds) and the edges on which
// its negation is guaranteed (fails). min is the subject's type minimum (0 for unsigned/len).
func IntCmpEdges(fn *ssa.Function, isSubject func(ssa.Value) bool, min int64, wantOp token.Token, wantC int64) (holds, fails []Edge) {
	for _, i := range Ifs(fn) {
		c := i.Cond
		neg := false
		for {
			u, ok := c.(*ssa.UnOp)
			if ok && u.Op == token.NOT {
				neg = !neg
				c = u.X
				continue
			}
			break
		}
		cmp, ok := AsCmp(c, isSubject)
		if !ok {
			continue
		}
		k, ok := ConstInt(cmp.Other)
		if !ok {
			continue
		}
		opT, opF := cmp.Op, negate(cmp.Op)
		if neg {
			opT, opF = opF, opT
		}
		b := i.Block()
		if IntPredImplies(opT, k, min, wantOp, wantC) {
			holds = append(holds, Edge{b, 0})
		}
		if IntPredImplies(opF, k, min, wantOp, wantC) {
			holds = append(holds, Edge{b, 1})
		}
		nOp := negate(wantOp)
		if IntPredImplies(opT, k, min, nOp, wantC) {
			fails = append(fails, Edge{b, 0})
		}
		if IntPredImplies(opF, k, min, nOp, wantC) {
			fails = append(fails, Edge{b, 1})
		}
	}
	return
}

// NilCmpEdges finds Ifs comparing a value satisfying isSubject with nil; returns the edges where
// the subject is nil and where it is non-nil.
func NilCmpEdges(fn *ssa.Function, isSubject func(ssa.Value) bool) (isNil, nonNil []Edge) {
	h, f := CondEdges(fn, func(c ssa.Value) (bool, bool) {
		cmp, ok := AsCmp(c, isSubject)
		if !ok || !IsNilConst(cmp.Other) {
			return false, false
		}
		switch cmp.Op {
		case token.EQL:
			return true, true
		case token.NEQ:
			return true, false
		}
		return false, false
	})
	return h, f
}

// ErrOfCall returns a predicate recognising the error result of call c (directly, or via Extract
// when c returns a tuple; idx = index of the error in the tuple, -1 = last).
func ResultOfCall(c *ssa.Call, idx int) func(ssa.Value) bool {
	sig := c.Common().Signature()
	n := sig.Results().Len()
	if idx < 0 {
		idx = n - 1
	}
	return func(v ssa.Value) bool {
		v = Unwrap(v)
		if n == 1 {
			return v == ssa.Value(c)
		}
		if e, ok := v.(*ssa.Extract); ok {
			return e.Tuple == ssa.Value(c) && e.Index == idx
		}
		return false
	}
}

// Describe renders an instruction for reports.
func Describe(in ssa.Instruction) string {
	if v, ok := in.(ssa.Value); ok {
		return fmt.Sprintf("%s = %s", v.Name(), in.String())
	}
	return in.String()
}
