package main

import (
	"flag"
	"fmt"
	"os"
	"path/filepath"

	"rcheck/engine"
	"rcheck/rules"
)

func main() {
	prop := flag.String("property", "", "property id (C01…C20) or 'all'")
	tier := flag.String("tier", "quick", "quick|thorough")
	repo := flag.String("repo", "/repo", "repository working tree")
	verif := flag.String("verif", "", "verif dir (default: parent of the binary's dir)")
	flag.Parse()
	if t := os.Getenv("VERIF_TIER"); t != "" && *tier == "" {
		*tier = t
	}
	if *verif == "" {
		exe, _ := os.Executable()
		*verif = filepath.Dir(filepath.Dir(exe))
	}
	os.Exit(rules.Run(*prop, *tier, *repo, *verif, engine.LoadOpts{}))
}

var _ = fmt.Sprint
