package main

import (
	"encoding/json"
	"flag"
	"fmt"
	"os"
	"path/filepath"
	"strings"

	"rcheck/engine"
	"rcheck/rules"
)

func main() {
	prop := flag.String("property", "", "property id (C01…C20)")
	tier := flag.String("tier", "", "quick|thorough (default: $VERIF_TIER or quick)")
	repo := flag.String("repo", "/repo", "repository working tree")
	verif := flag.String("verif", "", "verif dir (default: parent of the binary's dir)")
	overlay := flag.String("overlay", "", "go build style overlay JSON {\"Replace\":{path:file}} (used by the mutation catalogue)")
	evdir := flag.String("evidence-dir", "", "write evidence/replay files here instead of <verif>/evidence")
	tryPatch := flag.String("try-patch", "", "development helper: apply this patch through overlays and run the quick checks")
	tryRev := flag.Bool("R", false, "with -try-patch: apply in reverse")
	tryProps := flag.String("props", "", "with -try-patch: comma-separated property ids (default all)")
	flag.Parse()
	if *tier == "" {
		*tier = os.Getenv("VERIF_TIER")
	}
	if *tier != "thorough" {
		*tier = "quick"
	}
	if *verif == "" {
		exe, _ := os.Executable()
		*verif = filepath.Dir(filepath.Dir(exe))
	}
	if *tryPatch != "" {
		var props []string
		if *tryProps != "" {
			props = strings.Split(*tryProps, ",")
		}
		os.Exit(rules.TryPatch(*tryPatch, *tryRev, props, *verif, *repo))
	}
	lo := engine.LoadOpts{}
	if *overlay != "" {
		b, err := os.ReadFile(*overlay)
		if err != nil {
			fmt.Println("CHECKER-BROKEN: cannot read overlay:", err)
			os.Exit(2)
		}
		var ov struct{ Replace map[string]string }
		if err := json.Unmarshal(b, &ov); err != nil {
			fmt.Println("CHECKER-BROKEN: bad overlay:", err)
			os.Exit(2)
		}
		lo.Overlay = map[string][]byte{}
		for k, v := range ov.Replace {
			c, err := os.ReadFile(v)
			if err != nil {
				fmt.Println("CHECKER-BROKEN: cannot read overlay file:", err)
				os.Exit(2)
			}
			lo.Overlay[k] = c
		}
		engine.OverlayJSON = *overlay
	}
	engine.EvidenceDir = *evdir
	if strings.Contains(*prop, ",") {
		os.Exit(rules.RunMany(strings.Split(*prop, ","), *tier, *repo, *verif, lo))
	}
	os.Exit(rules.Run(*prop, *tier, *repo, *verif, lo))
}
