package rules

import (
	"fmt"
	"go/token"

	"golang.org/x/tools/go/ssa"

	"rcheck/engine"
)

// nameHashRules (C02 R6): node names travel as 64-bit hashes; a node can decode a packet only if
// both names were registered in nameHashes beforehand. Decided: the table maps hash(name) to that
// same name; a failed lookup fails the decode; every way a node ID becomes known to this node
// (own ID, an established neighbour, the origin of an accepted routing update) registers it.
func nameHashRules(r *engine.Report, p *engine.Program) {
	add := p.Func("(*netceptor.Netceptor).AddNameHash")
	get := p.Func("(*netceptor.Netceptor).GetNameFromHash")
	dec := p.Func("(*netceptor.Netceptor).translateDataToMessage")
	hru := p.Func("(*netceptor.Netceptor).handleRoutingUpdate")
	rp := p.Func("(*netceptor.Netceptor).runProtocol")
	ctor := p.Func("netceptor.NewWithConsts")
	tbl := p.Field("netceptor", "Netceptor", "nameHashes")
	kni := p.Field("netceptor", "Netceptor", "knownNodeInfo")
	conns := p.Field("netceptor", "Netceptor", "connections")
	if add == nil || get == nil || dec == nil || hru == nil || rp == nil || ctor == nil || tbl == nil || kni == nil || conns == nil {
		r.Broken("C02 name-hash anchors not found")
		return
	}
	// (a) nameHashes[Sum64(hasher fed with []byte(name))] = name
	{
		ok, why := false, "no store into nameHashes found in AddNameHash"
		var writes []string
		for _, a := range p.FieldAccesses(tbl) {
			if a.Kind == engine.AccMapUpdate && !engine.IsMock(a.Fn) {
				writes = append(writes, engine.FuncName(a.Fn))
				mu := a.Instr.(*ssa.MapUpdate)
				// key: result of Sum64 on a hasher; value: string whose []byte conversion was written to that hasher
				kc, isC := engine.Unwrap(mu.Key).(*ssa.Call)
				if !isC || !kc.Common().IsInvoke() || kc.Common().Method.Name() != "Sum64" {
					why = "the table key is not the Sum64 of the hasher"
					continue
				}
				hasher := kc.Common().Value
				fed := false
				for _, ci := range engine.CallsIn(a.Fn) {
					c := ci.Common()
					if c.IsInvoke() && c.Method.Name() == "Write" && c.Value == hasher && len(c.Args) == 1 {
						if cv, isCv := c.Args[0].(*ssa.Convert); isCv && sameStringValue(cv.X, mu.Value) {
							fed = true
						}
					}
				}
				if !fed {
					why = "the name stored is not the name that was hashed"
					continue
				}
				ok = true
			}
		}
		r.Check("R6-name-hashes", "AddNameHash: nameHashes[hash(name)] = that name; single writer", add.Pos(), ok && len(writes) == 1 && writes[0] == engine.FuncName(add),
			"the only store into nameHashes is in AddNameHash, keyed by Sum64 of the hasher fed with []byte(name), with value name", fmt.Sprintf("%s (writers: %v)", why, writes))
	}
	// (a') registrations are permanent: nothing deletes from the table (a node that leaves and
	// re-joins is not registered again by handleRoutingUpdate, which only registers unknown origins)
	{
		var dels []string
		for _, a := range p.FieldAccesses(tbl) {
			if a.Kind == engine.AccMapDelete && !engine.IsMock(a.Fn) {
				dels = append(dels, engine.FuncName(a.Fn)+" at "+p.Pos(a.Instr.Pos()))
			}
		}
		r.Check("R6-name-hashes", "nameHashes: no deletions", token.NoPos, len(dels) == 0,
			"no function removes an entry of nameHashes", fmt.Sprintf("entries are deleted in %v: a node whose origin record is already known is never registered again, so packets from or to it can no longer be decoded here", dels))
	}
	// (b) unknown hash fails the decode
	for _, ci := range callsTo(dec, "(*netceptor.Netceptor).GetNameFromHash") {
		okp, why := errorPropagates(dec, ci.(*ssa.Call))
		r.Check("R6-name-hashes", fmt.Sprintf("translateDataToMessage: error of GetNameFromHash#%d", ordinalOfCall(ci)), ci.Pos(), okp, why, why)
	}
	{
		_, miss := engine.CondEdges(get, func(c ssa.Value) (bool, bool) {
			e, ok := c.(*ssa.Extract)
			if !ok || e.Index != 1 {
				return false, false
			}
			_, isL := e.Tuple.(*ssa.Lookup)
			return isL, true
		})
		okMiss := len(miss) > 0
		for _, e := range miss {
			if reachFromEdge(get, e, nil, nil, func(in ssa.Instruction) bool {
				ret, ok := in.(*ssa.Return)
				return ok && len(ret.Results) == 2 && engine.IsNilConst(ret.Results[1])
			}) != nil {
				okMiss = false
			}
		}
		r.Check("R6-name-hashes", "GetNameFromHash: a hash that is not in the table is an error", get.Pos(), okMiss,
			"from the lookup-miss edge only failing returns are reachable", "an unknown name hash can be decoded to a name without error")
	}
	// (c) registration when a node ID becomes known
	isAddOf := func(arg func(ssa.Value) bool) func(ssa.Instruction) bool {
		return func(in ssa.Instruction) bool {
			ci, ok := in.(ssa.CallInstruction)
			if !ok || !engine.IsCallTo(ci.Common(), "(*netceptor.Netceptor).AddNameHash") {
				return false
			}
			a := ci.Common().Args
			return arg(a[len(a)-1])
		}
	}
	// own ID in the constructor
	{
		nodeIDParam := func(v ssa.Value) bool {
			pv, ok := engine.Unwrap(v).(*ssa.Parameter)
			return ok && pv.Name() == "nodeID"
		}
		n := 0
		for _, b := range ctor.Blocks {
			for _, in := range b.Instrs {
				if isAddOf(nodeIDParam)(in) {
					n++
				}
			}
		}
		r.Check("R6-name-hashes", "NewWithConsts: the node's own ID is registered", ctor.Pos(), n == 1, "AddNameHash(nodeID) in the constructor", "the constructor no longer registers the node's own name hash")
	}
	// origin of an accepted routing update: not yet known ⇒ registered before it is inserted into knownNodeInfo
	{
		nodeF := p.Field("netceptor", "routingUpdate", "NodeID")
		var inserts []ssa.Instruction
		var looked []*ssa.Lookup
		for _, a := range engine.FieldAccessesIn(hru, kni) {
			switch a.Kind {
			case engine.AccMapUpdate:
				inserts = append(inserts, a.Instr)
			case engine.AccMapLookup:
				if l, ok := a.Instr.(*ssa.Lookup); ok && l.CommaOk {
					looked = append(looked, l)
				}
			}
		}
		known, _ := engine.CondEdges(hru, func(c ssa.Value) (bool, bool) {
			e, ok := c.(*ssa.Extract)
			if !ok || e.Index != 1 {
				return false, false
			}
			for _, l := range looked {
				if e.Tuple == ssa.Value(l) {
					return true, true
				}
			}
			return false, false
		})
		// the LAST presence test before the insertion decides; earlier tests only choose the freshness branch
		ok := len(inserts) > 0 && len(looked) > 0
		var hit ssa.Instruction
		if ok {
			// for each insert: some comma-ok lookup L dominates it such that from L's miss edge the insert is reached only through AddNameHash(ri.NodeID)
			for _, ins := range inserts {
				good := false
				for _, l := range looked {
					_, miss := engine.CondEdges(hru, func(c ssa.Value) (bool, bool) {
						e, ok := c.(*ssa.Extract)
						return ok && e.Index == 1 && e.Tuple == ssa.Value(l), true
					})
					if len(miss) == 0 || !l.Block().Dominates(ins.Block()) {
						continue
					}
					bad := false
					for _, e := range miss {
						if h := reachFromEdge(hru, e, nil, isAddOf(fieldLoadIs(nodeF)), func(in ssa.Instruction) bool { return in == ins }); h != nil {
							bad = true
						}
					}
					// and no re-test between that lookup and the insert that could be stale: the lookup and insert share the lock (C06-R7)
					if !bad {
						good = true
					}
				}
				if !good {
					ok = false
					hit = ins
				}
			}
		}
		_ = known
		r.Check("R6-name-hashes", "handleRoutingUpdate: an origin not yet known is registered before it is recorded", hru.Pos(), ok,
			"from the miss edge of a knownNodeInfo lookup that dominates the insertion, the insertion is reachable only through AddNameHash(ri.NodeID)",
			"an origin can be recorded in knownNodeInfo at "+descInstr(p, hit)+" without its name hash being registered: data packets from or to that node cannot be decoded here and are dropped")
	}
	// established neighbour
	{
		var ins ssa.Instruction
		for _, a := range engine.FieldAccessesIn(rp, conns) {
			if a.Kind == engine.AccMapUpdate {
				ins = a.Instr
			}
		}
		ok := ins != nil
		var key ssa.Value
		if ok {
			key = ins.(*ssa.MapUpdate).Key
		}
		n := 0
		var loop ssa.Instruction
		// the main message loop: the Select that reads the connection's ReadChan after establishment = any Select reachable from the insertion
		if ok {
			isReg := isAddOf(sameVarAs(key))
			for _, b := range rp.Blocks {
				for _, in := range b.Instrs {
					if isReg(in) {
						n++
					}
				}
			}
			loop = engine.Reach(rp, ins, nil, isReg, func(in ssa.Instruction) bool {
				ci, isCall := in.(ssa.CallInstruction)
				return isCall && engine.IsCallTo(ci.Common(), "(*netceptor.Netceptor).handleRoutingUpdate", "(*netceptor.Netceptor).handleMessageData")
			})
		}
		r.Check("R6-name-hashes", "runProtocol: an established neighbour's ID is registered before its traffic is processed", rp.Pos(), ok && n > 0 && loop == nil,
			"after the insertion into connections no routing update or data packet is handled before AddNameHash(announced ID)",
			"a neighbour can be established and its packets handled without its name hash being registered")
	}
	_ = token.NoPos
}

// sameStringValue: a and b are the same SSA value up to phis that merge the same two inputs.
func sameStringValue(a, b ssa.Value) bool {
	a, b = engine.Unwrap(a), engine.Unwrap(b)
	return a == b
}
