package rules

import (
	"fmt"
	"go/token"
	"go/types"
	"regexp"
	"strings"

	"golang.org/x/tools/go/ssa"

	"rcheck/engine"
)

func init() { register("C12", c12) }

var anchoredFormat = regexp.MustCompile(`^\^\((\?:)?%s\)\$$`)

func c12(r *engine.Report, p *engine.Program) {
	r.Explanation = "Decides that firewall rule construction cannot silently widen a rule (every error of the rule builders propagates to ParseFirewallRules; a condition is omitted only when its pattern is empty), that parser, literal matcher and regex matcher use one field vocabulary and the three actions map to the three non-Continue results, that /regex/ patterns are compiled between ^( and )$, that every packet path evaluates the rule list before any dispatch/delivery/forward/notify, that the loop stops at the first non-Continue result, and that the Drop and Reject arms cannot fall through to delivery or forwarding (Drop reaches no notice at all). It does not decide regexp semantics or end-to-end notices on a mesh."
	r.NotDecided = []string{"regexp engine semantics", "YAML key typing before ParseFirewallRule", "delivery of the 'blocked by firewall' notice across the mesh"}
	r.Assumptions = []string{"regexp.Compile(\"^(?:\"+p+\")$\") matches exactly the strings fully matched by p", "fmt.Sprintf substitutes %s verbatim"}

	var missing []string
	get := func(n string) *ssa.Function {
		fs := p.MustFuncs(&missing, n)
		if len(fs) == 1 {
			r.Anchor(n)
			return fs[0]
		}
		return nil
	}
	parseRule := get("(netceptor.FirewallRuleData).ParseFirewallRule")
	parseRules := get("netceptor.ParseFirewallRules")
	buildComps := get("(netceptor.FirewallRule).BuildComps")
	buildComp := get("netceptor.buildComp")
	fwRule := get("netceptor.firewallRule")
	strCmp := get("netceptor.stringCompare")
	reCmp := get("netceptor.regexCompare")
	hmd := get("(*netceptor.Netceptor).handleMessageData")
	for _, m := range missing {
		r.Broken("anchor function %s not found", m)
	}
	if len(missing) > 0 {
		return
	}

	// R1 error flow in the rule-construction cone
	builders := []string{"netceptor.regexCompare", "netceptor.stringCompare", "netceptor.firewallRule", "netceptor.buildComp",
		"(netceptor.FirewallRule).BuildComps", "(netceptor.FirewallRuleData).ParseFirewallRule", "regexp.Compile"}
	for _, fn := range []*ssa.Function{parseRules, parseRule, buildComps, buildComp, reCmp, strCmp, fwRule} {
		for _, ci := range callsTo(fn, builders...) {
			call, ok := ci.(*ssa.Call)
			if !ok {
				continue
			}
			okp, why := errorPropagates(fn, call)
			callee := engine.CalleeObj(call.Common()).Name()
			r.Check("R1-error-flow", fmt.Sprintf("%s: error of %s", engine.FuncName(fn), callee), call.Pos(), okp, why, why)
		}
	}
	r.Min("R1-error-flow", 6)
	// R1b a nil CompareFunc with nil error only when the pattern is empty
	{
		pat := buildComp.Params[1]
		empty, _ := strEqEdges(buildComp, func(v ssa.Value) bool { return v == ssa.Value(pat) }, "")
		lenZero, _ := engine.IntCmpEdges(buildComp, func(v ssa.Value) bool {
			c, ok := v.(*ssa.Call)
			if !ok {
				return false
			}
			b, ok := c.Common().Value.(*ssa.Builtin)
			return ok && b.Name() == "len" && c.Common().Args[0] == ssa.Value(pat)
		}, 0, token.EQL, 0)
		cut := engine.EdgeSet{}.Add(empty...).Add(lenZero...)
		bad := engine.Reach(buildComp, nil, cut, nil, func(in ssa.Instruction) bool {
			ret, ok := in.(*ssa.Return)
			return ok && len(ret.Results) == 2 && engine.IsNilConst(ret.Results[0]) && engine.IsNilConst(ret.Results[1])
		})
		r.Check("R1-omit-only-empty", "netceptor.buildComp: return nil, nil", buildComp.Pos(), bad == nil && len(cut) > 0,
			"a missing comparer (nil, nil) is returned only on the pattern == \"\" edge",
			"buildComp can return (nil, nil) for a non-empty pattern: the condition silently disappears from the rule")
		// and BuildComps appends every non-nil comparer: 4 buildComp calls with the 4 fields
	}

	// R2 vocabularies
	parseKeys, parseTrue, _ := stringSwitchConsts(parseRule)
	strKeys, strTrue, _ := stringSwitchConsts(strCmp)
	reKeys, reTrue, _ := stringSwitchConsts(reCmp)
	var compFields []string
	for _, ci := range callsTo(buildComps, "netceptor.buildComp") {
		for _, row := range argRows(ci) {
			if s, ok := engine.ConstString(row[0]); ok {
				compFields = append(compFields, s)
			}
		}
	}
	sortStrings(compFields)
	fields := without(parseKeys, "action")
	r.Check("R2-vocabulary", "parser keys vs stringCompare cases", strCmp.Pos(), setEq(fields, strKeys) && len(fields) == 4,
		fmt.Sprintf("ParseFirewallRule keys minus action %v = stringCompare cases %v", fields, strKeys),
		fmt.Sprintf("field vocabularies differ: parser %v, stringCompare %v", fields, strKeys))
	r.Check("R2-vocabulary", "parser keys vs regexCompare cases", reCmp.Pos(), setEq(fields, reKeys),
		fmt.Sprintf("ParseFirewallRule keys minus action %v = regexCompare cases %v", fields, reKeys),
		fmt.Sprintf("field vocabularies differ: parser %v, regexCompare %v", fields, reKeys))
	r.Check("R2-vocabulary", "parser keys vs BuildComps fields", buildComps.Pos(), setEq(fields, compFields),
		fmt.Sprintf("BuildComps builds a comparer for exactly %v", compFields),
		fmt.Sprintf("BuildComps builds comparers for %v but the parser accepts %v", compFields, fields))
	// each parsed key is stored into the FirewallRule field that BuildComps reads for the same name
	checkKeyFieldWiring(r, p, parseRule, buildComps)
	// each comparer reads the MessageData field it is named after
	checkComparerFields(r, p, strCmp, "stringCompare")
	checkComparerFields(r, p, reCmp, "regexCompare")
	// default arms fail
	for _, x := range []struct {
		fn    *ssa.Function
		edges []engine.Edge
		what  string
	}{{parseRule, parseTrue, "unknown key"}, {strCmp, strTrue, "unknown field"}, {reCmp, reTrue, "unknown field"}} {
		cut := engine.EdgeSet{}.Add(x.edges...)
		// the default path: all comparisons false. Start exploring at the first comparison.
		ok := defaultPathFails(x.fn, x.edges, cut)
		r.Check("R2-default-fails", engine.FuncName(x.fn)+": default arm", x.fn.Pos(), ok,
			"when no case matches ("+x.what+") every reachable return carries a non-nil error",
			"an "+x.what+" can fall through to a successful return")
	}
	// actions
	actKeys, actTrue, _ := stringSwitchConsts(fwRule)
	r.Check("R2-actions", "firewallRule action cases", fwRule.Pos(), setEq(actKeys, []string{"accept", "drop", "reject"}),
		fmt.Sprintf("action cases are %v", actKeys), fmt.Sprintf("action cases are %v, expected accept/drop/reject", actKeys))
	{
		cut := engine.EdgeSet{}.Add(actTrue...)
		ok := defaultPathFails(fwRule, actTrue, cut)
		r.Check("R2-default-fails", "netceptor.firewallRule: default arm", fwRule.Pos(), ok,
			"an unknown action makes every reachable return carry a non-nil error", "an unknown action can yield a rule")
		// the result constant selected per action
		want := map[string]int64{}
		for _, n := range []string{"Accept", "Reject", "Drop"} {
			c := p.Const("netceptor", "FirewallResult"+n)
			if c == nil {
				r.Broken("constant FirewallResult%s not found", n)
				return
			}
			want[strings.ToLower(n)] = constIntVal(c)
		}
		got := actionResultMap(fwRule)
		okm := len(got) == 3
		for k, v := range want {
			if got[k] != v {
				okm = false
			}
		}
		r.Check("R2-actions", "firewallRule action → result", fwRule.Pos(), okm,
			fmt.Sprintf("accept/reject/drop select the constants %v = FirewallResultAccept/Reject/Drop", got),
			fmt.Sprintf("action → result mapping is %v, expected %v", got, want))
	}
	// non-string values are refused
	{
		var ta *ssa.TypeAssert
		for _, b := range parseRule.Blocks {
			for _, in := range b.Instrs {
				if x, ok := in.(*ssa.TypeAssert); ok && x.CommaOk && types.Identical(x.AssertedType, types.Typ[types.String]) {
					ta = x
				}
			}
		}
		ok := false
		if ta != nil {
			okv := func(v ssa.Value) bool {
				e, isE := v.(*ssa.Extract)
				return isE && e.Tuple == ssa.Value(ta) && e.Index == 1
			}
			holds, fails := engine.CondEdges(parseRule, func(c ssa.Value) (bool, bool) { return okv(c), true })
			_ = holds
			ok = len(fails) > 0
			for _, e := range fails {
				if bad := reachFromEdge(parseRule, e, nil, nil, func(in ssa.Instruction) bool {
					ret, isR := in.(*ssa.Return)
					return isR && engine.IsNilConst(ret.Results[1])
				}); bad != nil {
					ok = false
				}
			}
		}
		r.Check("R2-nonstring-refused", "ParseFirewallRule: value type switch", parseRule.Pos(), ok,
			"a value that is not a string leads only to failing returns", "a non-string rule value is not refused on every path")
	}

	// R3 anchoring
	for _, ci := range callsTo(reCmp, "regexp.Compile", "regexp.MustCompile") {
		parts, ok := stringParts(ci.Common().Args[0])
		desc := strings.Join(parts, "")
		good := ok && (anchoredFormat.MatchString(desc))
		r.Check("R3-anchored", "netceptor.regexCompare: pattern passed to regexp.Compile", ci.Pos(), good,
			fmt.Sprintf("the user pattern is wrapped as %q: the whole field must match, alternations included", desc),
			fmt.Sprintf("the pattern handed to regexp.Compile is built as %q; without a group between ^ and $ a top-level alternation is not anchored (/foo|bar/ matches fooxyz)", desc))
	}
	r.Min("R3-anchored", 1)
	// the matchers use MatchString on the compiled pattern
	nMatch := 0
	for _, an := range reCmp.AnonFuncs {
		for _, ci := range engine.CallsIn(an) {
			if engine.IsCallTo(ci.Common(), "(*regexp.Regexp).MatchString") {
				nMatch++
			}
		}
	}
	r.Check("R3-anchored", "netceptor.regexCompare: matchers", reCmp.Pos(), nMatch == len(reCmp.AnonFuncs) && nMatch == 4,
		fmt.Sprintf("%d regex comparers, each calling MatchString on the anchored pattern", nMatch), fmt.Sprintf("%d of %d comparers call MatchString", nMatch, len(reCmp.AnonFuncs)))

	// R4/R5 evaluation order in handleMessageData
	// R1c a malformed pattern is an error, never a panic: no index/slice in the rule builders that
	// the compiler cannot prove in bounds (the report is the compiler's own bounds-check analysis)
	{
		us, err := p.BCEReport("")
		if err != nil {
			r.Broken("BCE report: %v", err)
		} else {
			builderSet := map[*ssa.Function]bool{}
			for _, f := range []*ssa.Function{parseRules, parseRule, buildComps, buildComp, reCmp, strCmp, fwRule} {
				builderSet[f] = true
				for _, an := range f.AnonFuncs {
					builderSet[an] = true
				}
			}
			n := 0
			for _, u := range us {
				if u.Fn != nil && builderSet[u.Fn] {
					n++
				}
			}
			boundsObligations(r, p, "R1-bounds", func(fn *ssa.Function) bool { return builderSet[fn] }, us)
			r.Check("R1-bounds", "rule builders: index/slice operations compiler-proven or covered by a stated idiom", token.NoPos, true,
				fmt.Sprintf("%d unproven operation(s) in the seven rule-construction functions (each is its own obligation)", n), "")
		}
	}
	firewallPathRules(r, p, hmd)
	ruleOrderRules(r, p)

	// R6 who-may
	checkCallers(r, p, "R6-who-may", "(*netceptor.Netceptor).forwardMessage", "(*netceptor.Netceptor).handleMessageData")
	// reserved services are dispatched from handleMessageData (or its private helper) only: nobody
	// else looks a handler up in the table
	if rs := p.Field("netceptor", "Netceptor", "reservedServices"); rs != nil {
		var extra []string
		n := 0
		for _, fn := range p.Funcs() {
			if engine.IsMock(fn) {
				continue
			}
			if k := len(reservedHandlerCallsIn(p, fn)); k > 0 {
				n += k
				if fn != hmd && privateHelperOf(p, fn, map[string]bool{engine.FuncName(hmd): true}) == "" {
					extra = append(extra, engine.FuncName(fn))
				}
			}
		}
		r.Check("R6-who-may", "reservedServices: handlers are called by handleMessageData only", hmd.Pos(), n > 0 && len(extra) == 0 && len(reservedDispatchSites(p, hmd)) > 0,
			fmt.Sprintf("%d call(s) of a handler looked up in the table, all in handleMessageData or its private helper", n),
			fmt.Sprintf("a reserved-service handler is called from %v (or not from handleMessageData at all): a reserved service can be reached without the firewall decision", extra))
	} else {
		r.Broken("field Netceptor.reservedServices not found")
	}
	checkCallers(r, p, "R6-who-may", "(*netceptor.Netceptor).handleMessageData", "(*netceptor.Netceptor).SendMessageWithHopsToLive", "(*netceptor.Netceptor).runProtocol")
	recvChan := p.Field("netceptor", "PacketConn", "recvChan")
	if recvChan == nil {
		r.Broken("field PacketConn.recvChan not found")
		return
	}
	var senders []string
	for _, a := range p.FieldAccesses(recvChan) {
		if a.Kind == engine.AccSend && !engine.IsMock(a.Fn) {
			senders = append(senders, engine.FuncName(a.Fn))
		}
	}
	r.Check("R6-who-may", "PacketConn.recvChan: senders", token.NoPos, len(senders) == 1 && senders[0] == "(*netceptor.Netceptor).handleMessageData",
		"the only send on a socket's receive channel is in handleMessageData", fmt.Sprintf("sends on recvChan in %v", senders))

	// R7 guarded-by firewallRules ↔ firewallLock
	guardedBy(r, p, "R7-guarded-by", p.Field("netceptor", "Netceptor", "firewallRules"), p.Field("netceptor", "Netceptor", "firewallLock"), nil)
	r.Min("R7-guarded-by", 3)
}

func sortStrings(a []string) {
	for i := range a {
		for j := i + 1; j < len(a); j++ {
			if a[j] < a[i] {
				a[i], a[j] = a[j], a[i]
			}
		}
	}
}

// defaultPathFails: on the path where every case comparison is false, all reachable returns fail.
func defaultPathFails(fn *ssa.Function, trueEdges []engine.Edge, cut engine.EdgeSet) bool {
	if len(trueEdges) == 0 {
		return false
	}
	// find the comparison block that is not reached through another comparison's false edge = first
	// simply explore from entry with all true edges cut and require that every return fails.
	// explore from the false edge of every case comparison with all true edges removed: that is
	// the region "no case matched (so far)"; every return in it must fail.
	ferr := errIndex(fn.Signature)
	n := 0
	for _, te := range trueEdges {
		fe := engine.Edge{From: te.From, Succ: 1 - te.Succ}
		bad := reachFromEdge(fn, fe, cut, nil, func(in ssa.Instruction) bool {
			ret, ok := in.(*ssa.Return)
			if !ok {
				return false
			}
			n++
			return ferr < 0 || engine.IsNilConst(ret.Results[ferr])
		})
		if bad != nil {
			return false
		}
	}
	return n > 0
}

// actionResultMap: for each action case, the integer constant that flows into the rule's result.
func actionResultMap(fn *ssa.Function) map[string]int64 {
	out := map[string]int64{}
	for _, i := range engine.Ifs(fn) {
		b, ok := i.Cond.(*ssa.BinOp)
		if !ok || b.Op != token.EQL {
			continue
		}
		s, isStr := engine.ConstString(b.Y)
		if !isStr {
			continue
		}
		// follow the true edge to the phi that merges the results
		tb := i.Block().Succs[0]
		// captured variable: the case body stores a constant into the cell
		for _, in := range tb.Instrs {
			if st, ok := in.(*ssa.Store); ok {
				if k, ok := engine.ConstInt(st.Val); ok {
					out[s] = k
				}
			}
		}
		// the target block (or its single successor) feeds a Phi with a constant for this predecessor
		cur := tb
		prev := i.Block()
		for step := 0; step < 3 && cur != nil; step++ {
			found := false
			for _, in := range cur.Instrs {
				ph, isPhi := in.(*ssa.Phi)
				if !isPhi {
					break
				}
				for pi, pred := range cur.Preds {
					if pred == prev {
						if k, ok := engine.ConstInt(ph.Edges[pi]); ok {
							out[s] = k
							found = true
						}
					}
				}
			}
			if found || len(cur.Succs) != 1 {
				break
			}
			prev, cur = cur, cur.Succs[0]
		}
	}
	return out
}

// stringParts flattens a string built by fmt.Sprintf(constFormat, x) or by + concatenation into
// its constant parts, with "%s" standing for each non-constant part.
func stringParts(v ssa.Value) ([]string, bool) {
	v = engine.Unwrap(v)
	switch x := v.(type) {
	case *ssa.Const:
		if s, ok := engine.ConstString(x); ok {
			return []string{s}, true
		}
	case *ssa.BinOp:
		if x.Op == token.ADD {
			a, ok1 := stringParts(x.X)
			b, ok2 := stringParts(x.Y)
			return append(a, b...), ok1 && ok2
		}
	case *ssa.Call:
		if engine.IsCallTo(x.Common(), "fmt.Sprintf") {
			if f, ok := engine.ConstString(x.Common().Args[0]); ok {
				return []string{f}, true
			}
		}
	case *ssa.Phi:
		return []string{"%s"}, true
	}
	return []string{"%s"}, true
}

// checkKeyFieldWiring: in ParseFirewallRule, on the true edge of key == "fromnode" the value is
// stored into FirewallRule.FromNode, and BuildComps passes fr.FromNode with "fromnode", etc.
func checkKeyFieldWiring(r *engine.Report, p *engine.Program, parseRule, buildComps *ssa.Function) {
	want := map[string]string{"fromnode": "FromNode", "tonode": "ToNode", "fromservice": "FromService", "toservice": "ToService", "action": "Action"}
	// parser side: block reached by the true edge stores into field
	got := map[string]string{}
	for _, i := range engine.Ifs(parseRule) {
		b, ok := i.Cond.(*ssa.BinOp)
		if !ok || b.Op != token.EQL {
			continue
		}
		s, isStr := engine.ConstString(b.Y)
		if !isStr {
			continue
		}
		tb := i.Block().Succs[0]
		for _, in := range tb.Instrs {
			if st, ok := in.(*ssa.Store); ok {
				if fa, ok := st.Addr.(*ssa.FieldAddr); ok {
					got[s] = engine.FieldAddrVar(fa).Name()
				}
			}
		}
	}
	okp := true
	for k, v := range want {
		if got[k] != v {
			okp = false
		}
	}
	r.Check("R2-wiring", "ParseFirewallRule: key → FirewallRule field", parseRule.Pos(), okp, fmt.Sprintf("each key is stored in its own field: %v", got), fmt.Sprintf("key → field wiring is %v, expected %v", got, want))
	// BuildComps side
	got2 := map[string]string{}
	for _, ci := range callsTo(buildComps, "netceptor.buildComp") {
		for _, row := range argRows(ci) {
			name, _ := engine.ConstString(row[0])
			if f, _ := engine.FieldOfLoad(row[1]); f != nil {
				got2[name] = f.Name()
			}
		}
	}
	ok2 := len(got2) == 4
	for k, v := range got2 {
		if want[k] != v {
			ok2 = false
		}
	}
	r.Check("R2-wiring", "BuildComps: field name → FirewallRule field", buildComps.Pos(), ok2, fmt.Sprintf("each comparer is built from its own field: %v", got2), fmt.Sprintf("name → field wiring is %v", got2))
}

// checkComparerFields: the comparer returned for case "fromnode" reads MessageData.FromNode, etc.
func checkComparerFields(r *engine.Report, p *engine.Program, fn *ssa.Function, what string) {
	want := map[string]string{"fromnode": "FromNode", "tonode": "ToNode", "fromservice": "FromService", "toservice": "ToService"}
	got := map[string]string{}
	for _, i := range engine.Ifs(fn) {
		b, ok := i.Cond.(*ssa.BinOp)
		if !ok || b.Op != token.EQL {
			continue
		}
		s, isStr := engine.ConstString(b.Y)
		if !isStr {
			continue
		}
		tb := i.Block().Succs[0]
		for _, in := range tb.Instrs {
			if mc, ok := in.(*ssa.MakeClosure); ok {
				cl := mc.Fn.(*ssa.Function)
				for _, bb := range cl.Blocks {
					for _, x := range bb.Instrs {
						if fa, ok := x.(*ssa.FieldAddr); ok {
							if v := engine.FieldAddrVar(fa); v != nil && fa.X == ssa.Value(cl.Params[0]) {
								got[s] = v.Name()
							}
						}
					}
				}
			}
		}
	}
	ok := len(got) == 4
	for k, v := range want {
		if got[k] != v {
			ok = false
		}
	}
	r.Check("R2-wiring", what+": case → MessageData field", fn.Pos(), ok, fmt.Sprintf("each case compares its own packet field: %v", got), fmt.Sprintf("case → packet field wiring is %v, expected %v", got, want))
}
