package rules

import (
	"fmt"
	"go/token"
	"go/types"
	"sort"
	"strings"

	"golang.org/x/tools/go/ssa"

	"rcheck/engine"
)

func init() { register("C09", c09) }

func isTLSConfigField(v *types.Var, name string) bool {
	return v != nil && v.Name() == name && v.Pkg() != nil && v.Pkg().Path() == "crypto/tls"
}

func c09(r *engine.Report, p *engine.Program) {
	r.Explanation = "Decides that the receptor peer verifier (the closure returned by ReceptorVerifyFunc) can return success only after each applicable condition was tested and passed — a certificate is present, every certificate parses, a pinned fingerprint of matching digest matches when pins are given, x509 path validation with the role's trust pool and key usage succeeds, and in receptor mode the expected node ID is among the certificate's receptor names — and that it keeps no state between handshakes; that the per-role option tables are right; that InsecureSkipVerify is set only where a verifier is installed on the same config; that pins configured on a profile reach every verifier built for it (a non-NoClientCert server profile always installs the verifier; the stream listener chains the profile's verifier); that the mutually authenticated stream listener binds the client certificate to the packet source node; that name matching is exact. It does not decide X.509 path validation itself or expiry edge times."
	r.NotDecided = []string{"crypto/x509 path validation", "expiry edge times", "the product space of certificates"}
	r.Assumptions = []string{"(*x509.Certificate).Verify implements RFC 5280 validation for the options given", "crypto/tls calls VerifyPeerCertificate for every handshake that presents certificates", "bytes.Equal compares whole slices"}
	rvf := p.Func("netceptor.ReceptorVerifyFunc")
	if rvf == nil || len(rvf.AnonFuncs) == 0 {
		r.Broken("ReceptorVerifyFunc or its closure not found")
		return
	}
	V := rvf.AnonFuncs[0]
	r.Anchor(engine.FuncName(V))
	isNilRet := func(in ssa.Instruction) bool {
		ret, ok := in.(*ssa.Return)
		return ok && len(ret.Results) == 1 && engine.IsNilConst(ret.Results[0])
	}
	success := 0
	for _, ret := range engine.Returns(V) {
		if isNilRet(ret) {
			success++
		}
	}
	if success == 0 {
		r.Add("R1-verifier", "ReceptorVerifyFunc$1: success return", V.Pos(), engine.Violated, "no 'return nil' found in the verifier")
		return
	}
	freeLoad := func(name string) func(ssa.Value) bool {
		return func(v ssa.Value) bool {
			u, ok := v.(*ssa.UnOp)
			if ok && u.Op == token.MUL {
				if fv, ok := u.X.(*ssa.FreeVar); ok && fv.Name() == name {
					return true
				}
			}
			if fv, ok := v.(*ssa.FreeVar); ok && fv.Name() == name {
				return true
			}
			return false
		}
	}
	lenOf := func(isX func(ssa.Value) bool) func(ssa.Value) bool {
		return func(v ssa.Value) bool {
			c, ok := v.(*ssa.Call)
			if !ok {
				return false
			}
			b, ok := c.Common().Value.(*ssa.Builtin)
			return ok && b.Name() == "len" && isX(c.Common().Args[0])
		}
	}
	requires := func(name string, edges []engine.Edge, okWhy, badWhy string) {
		ok := len(edges) > 0
		if ok {
			ok = engine.Reach(V, nil, engine.EdgeSet{}.Add(edges...), nil, isNilRet) == nil
		}
		r.Check("R1-verifier", "ReceptorVerifyFunc$1: success requires "+name, V.Pos(), ok, okWhy, badWhy)
	}
	// a. certificate present
	rawCerts := V.Params[0]
	have, _ := engine.IntCmpEdges(V, lenOf(func(v ssa.Value) bool { return v == ssa.Value(rawCerts) }), 0, token.GTR, 0)
	requires("a presented certificate", have, "return nil is unreachable once the edges len(rawCerts) > 0 are removed", "the verifier can succeed although the peer presented no certificate")
	// b. parse, d. verify: failure-assumption
	for _, spec := range []struct{ callee, what string }{{"crypto/x509.ParseCertificate", "every certificate parses"}, {"(*crypto/x509.Certificate).Verify", "x509 path validation succeeds"}, {"utils.ParseReceptorNamesFromCert", "the receptor names can be read"}} {
		calls := callsTo(V, spec.callee)
		if len(calls) != 1 {
			r.Add("R1-verifier", "ReceptorVerifyFunc$1: success requires "+spec.what, V.Pos(), engine.Violated, fmt.Sprintf("expected exactly one call of %s, found %d", spec.callee, len(calls)))
			continue
		}
		call := calls[0].(*ssa.Call)
		cut, tested := assumeFails(V, call)
		bad := engine.Reach(V, call, cut, nil, isNilRet)
		r.Check("R1-verifier", "ReceptorVerifyFunc$1: success requires "+spec.what, call.Pos(), tested && bad == nil,
			"assuming this call fails, return nil is unreachable", "the verifier can succeed although "+spec.callee+" failed")
	}
	// the certificate verified is certs[0] built from rawCerts, with the role's options
	// c. pins
	isPins := freeLoad("pinnedFingerprints")
	noPins, _ := engine.IntCmpEdges(V, lenOf(isPins), 0, token.LEQ, 0)
	var fpOK *ssa.Phi
	for _, b := range V.Blocks {
		for _, in := range b.Instrs {
			if ph, ok := in.(*ssa.Phi); ok && ph.Comment == "fingerprintOK" {
				// the merged value tested after the loop: the one used by an If
				for _, rr := range *ph.Referrers() {
					if _, isIf := rr.(*ssa.If); isIf {
						fpOK = ph
					}
					if u, isU := rr.(*ssa.UnOp); isU && u.Op == token.NOT {
						fpOK = ph
					}
				}
			}
		}
	}
	var eqCalls []ssa.CallInstruction = callsTo(V, "bytes.Equal")
	if fpOK == nil || len(eqCalls) != 1 {
		r.Add("R1-verifier", "ReceptorVerifyFunc$1: success requires a matching pin when pins are configured", V.Pos(), engine.Violated, "the fingerprintOK flag or the bytes.Equal comparison was not found")
	} else {
		okT, _ := engine.CondEdges(V, func(c ssa.Value) (bool, bool) { return c == ssa.Value(fpOK), true })
		requires("a matching pin when pins are configured", append(noPins, okT...),
			"return nil is unreachable once the edges 'no pins configured' and 'fingerprintOK' are removed", "with pins configured the verifier can succeed without a fingerprint match")
		// fingerprintOK becomes true only through bytes.Equal(fing, sum) == true
		eq := eqCalls[0].(*ssa.Call)
		eqT, _ := engine.CondEdges(V, func(c ssa.Value) (bool, bool) { return c == ssa.Value(eq), true })
		okSet := trueOnlyVia(V, fpOK, eqT, map[*ssa.Phi]bool{})
		r.Check("R1-verifier", "ReceptorVerifyFunc$1: fingerprintOK is set only on a digest match", eq.Pos(), okSet && len(eqT) > 0,
			"every constant true flowing into fingerprintOK comes from a block reachable only through the bytes.Equal == true edge", "fingerprintOK can become true without bytes.Equal(fingerprint, digest) being true")
		// the digest is computed from certs[0].Raw by the hash whose size equals the row length
		digestTable(r, p, V)
	}
	// e. receptor name
	cReceptor := p.Const("netceptor", "ExpectedHostnameTypeReceptor")
	isHT := freeLoad("expectedHostnameType")
	_, notReceptor := engine.IntCmpEdges(V, isHT, -100, token.EQL, constIntVal(cReceptor))
	var found ssa.Value
	for _, ci := range callsTo(V, "utils.ParseReceptorNamesFromCert") {
		for _, v := range callResult(ci.(*ssa.Call), 0) {
			found = v
		}
		// arguments: certs[0], expectedHostname
		okArg := freeLoad("expectedHostname")(ci.Common().Args[1])
		r.Check("R1-verifier", "ReceptorVerifyFunc$1: name check uses the expected host name", ci.Pos(), okArg, "the expected node ID handed to the name check is the verifier's expectedHostname", "the name check is not given the expected host name")
	}
	if found != nil {
		fT, _ := engine.CondEdges(V, func(c ssa.Value) (bool, bool) { return c == found, true })
		requires("the expected node ID among the receptor names (receptor mode)", append(notReceptor, fT...),
			"return nil is unreachable once the edges 'not receptor mode' and 'found' are removed", "in receptor mode the verifier can succeed although the certificate does not name the expected node")
	}
	// g. stateless: variables captured from ReceptorVerifyFunc are only read
	stateful := []string{}
	var scan func(fn *ssa.Function, outerOwned map[*ssa.FreeVar]bool)
	scan = func(fn *ssa.Function, outerOwned map[*ssa.FreeVar]bool) {
		for fv := range outerOwned {
			if fv.Parent() != fn {
				continue
			}
			if refs := fv.Referrers(); refs != nil {
				for _, rr := range *refs {
					switch x := rr.(type) {
					case *ssa.UnOp:
						if x.Op != token.MUL {
							stateful = append(stateful, fmt.Sprintf("%s uses captured %s in %s", engine.FuncName(fn), fv.Name(), x.String()))
						}
					case *ssa.MakeClosure:
						// handed on to a nested closure: checked there
					case *ssa.DebugRef:
					default:
						stateful = append(stateful, fmt.Sprintf("%s: captured variable %s is written or its address escapes (%s at %s)", engine.FuncName(fn), fv.Name(), rr.String(), p.Pos(rr.Pos())))
					}
				}
			}
		}
		for _, an := range fn.AnonFuncs {
			inner := map[*ssa.FreeVar]bool{}
			for _, b := range fn.Blocks {
				for _, in := range b.Instrs {
					if mc, ok := in.(*ssa.MakeClosure); ok && mc.Fn == ssa.Value(an) {
						for bi, bd := range mc.Bindings {
							if fv, ok := bd.(*ssa.FreeVar); ok && outerOwned[fv] {
								inner[an.FreeVars[bi]] = true
							}
						}
					}
				}
			}
			scan(an, inner)
		}
	}
	owned := map[*ssa.FreeVar]bool{}
	for _, fv := range V.FreeVars {
		owned[fv] = true
	}
	scan(V, owned)
	stateful = append(stateful, verifierGlobals(p, V)...)
	r.Check("R1-stateless", "ReceptorVerifyFunc$1: keeps no state between handshakes", V.Pos(), len(stateful) == 0,
		fmt.Sprintf("the %d variables captured from ReceptorVerifyFunc are only read by the verifier and its nested closures: each handshake is judged on its own certificate", len(V.FreeVars)),
		fmt.Sprintf("the verifier keeps state that outlives a handshake (%v): a digest/result computed for one peer can be reused for the next", stateful))

	// R2 role table
	roleTable(r, p, V)

	// R3 InsecureSkipVerify only with a verifier
	nISV := 0
	p.AllInstrs(func(fn *ssa.Function, in ssa.Instruction) {
		if engine.IsMock(fn) {
			return
		}
		st, ok := in.(*ssa.Store)
		if !ok {
			return
		}
		fa, ok := st.Addr.(*ssa.FieldAddr)
		if !ok || !isTLSConfigField(engine.FieldAddrVar(fa), "InsecureSkipVerify") {
			return
		}
		k, isC := st.Val.(*ssa.Const)
		if !isC || k.Value == nil || k.Value.String() != "true" {
			return
		}
		nISV++
		// a VerifyPeerCertificate store on the same config on every path through this store
		var vpc []ssa.Instruction
		for _, b := range fn.Blocks {
			for _, in2 := range b.Instrs {
				if s2, ok := in2.(*ssa.Store); ok {
					if fa2, ok := s2.Addr.(*ssa.FieldAddr); ok && fa2.X == fa.X && isTLSConfigField(engine.FieldAddrVar(fa2), "VerifyPeerCertificate") && !engine.IsNilConst(s2.Val) {
						vpc = append(vpc, in2)
					}
				}
			}
		}
		isVPC := func(x ssa.Instruction) bool { return isOneOf(x, vpc) }
		before := engine.Reach(fn, nil, nil, isVPC, func(x ssa.Instruction) bool { return x == in }) == nil
		after := engine.Reach(fn, in, nil, isVPC, func(x ssa.Instruction) bool { _, isR := x.(*ssa.Return); return isR }) == nil
		r.Check("R3-skipverify", engine.FuncName(fn)+": InsecureSkipVerify = true", in.Pos(), len(vpc) > 0 && (before || after),
			"default host-name verification is disabled only on a config that also gets a non-nil VerifyPeerCertificate on every path", "InsecureSkipVerify is set to true on a config without installing a peer verifier: any certificate is accepted")
	})
	r.Min("R3-skipverify", 2)

	// R4 pins reach the verifiers
	sites := p.CallSitesOf(rvf.Object().(*types.Func))
	var where []string
	for _, cs := range sites {
		if engine.IsMock(cs.Parent()) {
			continue
		}
		where = append(where, engine.FuncName(cs.Parent()))
		pinArg := engine.Unwrap(cs.Common().Args[1])
		fn := cs.Parent()
		switch engine.FuncName(fn) {
		case "(*netceptor.Netceptor).GetClientTLSConfig":
			ok := false
			if e, isE := pinArg.(*ssa.Extract); isE {
				if lk, isL := e.Tuple.(*ssa.Lookup); isL {
					f, _ := engine.FieldOfLoad(lk.X)
					ok = f != nil && f.Name() == "clientPinnedFingerprints" && lk.Index == ssa.Value(fn.Params[1])
				}
			}
			r.Check("R4-pins-reach-verifier", "GetClientTLSConfig: pins argument", cs.Pos(), ok, "the verifier receives clientPinnedFingerprints[name] of the requested profile", "the client verifier is not given the profile's pinned fingerprints")
		case "(netceptor.TLSServerConfig).PrepareTLSServerConfig":
			ok := false
			if e, isE := pinArg.(*ssa.Extract); isE {
				if c, isC := e.Tuple.(*ssa.Call); isC && engine.IsCallTo(c.Common(), "netceptor.decodeFingerprints") {
					f, _ := engine.FieldOfLoad(c.Common().Args[0])
					ok = f != nil && f.Name() == "PinnedClientCert"
				}
			}
			r.Check("R4-pins-reach-verifier", "PrepareTLSServerConfig: pins argument", cs.Pos(), ok, "the verifier receives decodeFingerprints(cfg.PinnedClientCert)", "the server verifier is not given the profile's pinned client fingerprints")
			serverInstallRule(r, p, fn)
		default:
			// any other site: either passes real pins or chains the profile's verifier
			chained := chainsProfileVerifier(p, fn)
			r.Check("R4-pins-reach-verifier", engine.FuncName(fn)+": pins argument", cs.Pos(), chained,
				"this verifier is built without pins but the profile's own VerifyPeerCertificate (holder of the pins) is called first and its error returned", "a verifier is built with an empty pin list and replaces the profile's verifier: pinned fingerprints configured on the profile are dropped")
			listenerBindingRule(r, p, fn, cs)
		}
	}
	sort.Strings(where)
	r.Check("R4-pins-reach-verifier", "ReceptorVerifyFunc: call sites", rvf.Pos(), len(where) == 3, fmt.Sprintf("3 call sites: %v", where), fmt.Sprintf("call sites changed: %v (frozen: GetClientTLSConfig, PrepareTLSServerConfig, listen's GetConfigForClient)", where))

	profileImmutableRule(r, p)
	trustPoolRule(r, p)

	// R6 exact name match
	prn := p.Func("utils.ParseReceptorNamesFromCert")
	if prn == nil {
		r.Broken("ParseReceptorNamesFromCert not found")
		return
	}
	{
		exp := prn.Params[1]
		eq, _ := valEqEdges(prn, func(v ssa.Value) bool { return v == ssa.Value(exp) }, func(v ssa.Value) bool { return v.Type().String() == "string" && v != ssa.Value(exp) })
		// found=true only via eq edges
		okM := len(eq) > 0
		for _, ret := range engine.Returns(prn) {
			if ph, isPhi := ret.Results[0].(*ssa.Phi); isPhi {
				if !trueOnlyVia(prn, ph, eq, map[*ssa.Phi]bool{}) {
					okM = false
				}
			} else if k, isC := ret.Results[0].(*ssa.Const); isC && k.Value != nil && k.Value.String() == "true" {
				okM = false
			}
		}
		folds := []string{}
		for _, ci := range engine.CallsIn(prn) {
			if o := engine.CalleeObj(ci.Common()); o != nil && o.Pkg() != nil && o.Pkg().Path() == "strings" {
				folds = append(folds, o.Name())
			}
		}
		r.Check("R6-exact-name", "ParseReceptorNamesFromCert: match is == on the whole name", prn.Pos(), okM && len(folds) == 0,
			"found is true only on the edge name == expectedHostname (plain string equality, no normalisation)", fmt.Sprintf("the name match is not exact string equality (strings helpers used: %v): a certificate can verify as an ID it does not carry", folds))
		for _, ci := range callsTo(prn, "utils.ReceptorNames") {
			okp, why := errorPropagates(prn, ci.(*ssa.Call))
			r.Check("R6-exact-name", "ParseReceptorNamesFromCert: decode error propagates", ci.Pos(), okp, why, why)
		}
	}
	_ = strings.Join
}

// trueOnlyVia: every constant true flowing into phi (transitively) enters from a predecessor
// block that is unreachable once edges `via` are removed.
func trueOnlyVia(fn *ssa.Function, ph *ssa.Phi, via []engine.Edge, seen map[*ssa.Phi]bool) bool {
	if seen[ph] {
		return true
	}
	seen[ph] = true
	cut := engine.EdgeSet{}.Add(via...)
	for i, e := range ph.Edges {
		switch x := e.(type) {
		case *ssa.Const:
			if x.Value != nil && x.Value.String() == "true" {
				pred := ph.Block().Preds[i]
				// is pred reachable with the via-edges cut? also the edge pred→phi block itself may be a via edge
				if cut[engine.Edge{From: pred, Succ: succIndex(pred, ph.Block())}] {
					continue
				}
				reach := false
				if pred == fn.Blocks[0] {
					reach = true
				} else if len(pred.Instrs) > 0 {
					first := pred.Instrs[0]
					reach = engine.Reach(fn, nil, cut, nil, func(in ssa.Instruction) bool { return in == first }) != nil
				}
				if reach {
					return false
				}
			}
		case *ssa.Phi:
			if !trueOnlyVia(fn, x, via, seen) {
				return false
			}
		default:
			return false
		}
	}
	return true
}

func succIndex(from, to *ssa.BasicBlock) int {
	for i, s := range from.Succs {
		if s == to {
			return i
		}
	}
	return -1
}

func rootName(v ssa.Value) string {
	for i := 0; i < 10; i++ {
		switch x := v.(type) {
		case *ssa.FieldAddr:
			v = x.X
		case *ssa.IndexAddr:
			v = x.X
		case *ssa.UnOp:
			v = x.X
		default:
			return v.Name()
		}
	}
	return v.Name()
}

// rootIsFreeVarOf: the stored-to address is (derived from) a free variable that is bound, via
// the closure chain, to a variable of outer (i.e. state living as long as the verifier).
func rootIsFreeVarOf(addr ssa.Value, V, outer *ssa.Function) bool {
	v := addr
	for i := 0; i < 12; i++ {
		switch x := v.(type) {
		case *ssa.FieldAddr:
			v = x.X
		case *ssa.IndexAddr:
			v = x.X
		case *ssa.UnOp:
			v = x.X
		case *ssa.FreeVar:
			// resolve to the function that owns the captured variable
			fn := x.Parent()
			idx := -1
			for j, fv := range fn.FreeVars {
				if fv == x {
					idx = j
				}
			}
			par := fn.Parent()
			if par == nil || idx < 0 {
				return false
			}
			for _, b := range par.Blocks {
				for _, in := range b.Instrs {
					if mc, ok := in.(*ssa.MakeClosure); ok && mc.Fn == ssa.Value(fn) && idx < len(mc.Bindings) {
						bound := mc.Bindings[idx]
						if par == outer {
							return true // variable of ReceptorVerifyFunc itself: survives across handshakes
						}
						return rootIsFreeVarOf(bound, V, outer)
					}
				}
			}
			return false
		default:
			return false
		}
	}
	return false
}

// digestTable checks the (length, hash) rows and that the digest input is certs[0].Raw.
func digestTable(r *engine.Report, p *engine.Program, V *ssa.Function) {
	want := map[int64]string{28: "crypto/sha256.Sum224", 32: "crypto/sha256.Sum256", 48: "crypto/sha512.Sum384", 64: "crypto/sha512.Sum512"}
	// rows: stores of an int constant into field "len" and of a closure into "sumFunc" of the same element
	type row struct {
		n  int64
		fn *ssa.Function
	}
	rows := map[ssa.Value]*row{}
	for _, b := range V.Blocks {
		for _, in := range b.Instrs {
			st, ok := in.(*ssa.Store)
			if !ok {
				continue
			}
			fa, ok := st.Addr.(*ssa.FieldAddr)
			if !ok {
				continue
			}
			fv := engine.FieldAddrVar(fa)
			if fv == nil {
				continue
			}
			rw := rows[fa.X]
			if rw == nil {
				rw = &row{}
				rows[fa.X] = rw
			}
			switch fv.Name() {
			case "len":
				if k, ok := engine.ConstInt(st.Val); ok {
					rw.n = k
				}
			case "sumFunc":
				switch f := engine.Unwrap(st.Val).(type) {
				case *ssa.Function:
					rw.fn = f
				case *ssa.MakeClosure:
					rw.fn = f.Fn.(*ssa.Function)
				}
			}
		}
	}
	got := map[int64]string{}
	for _, rw := range rows {
		if rw.fn == nil || rw.n == 0 {
			continue
		}
		for _, ci := range engine.CallsIn(rw.fn) {
			if o := engine.CalleeObj(ci.Common()); o != nil && o.Pkg() != nil && strings.HasPrefix(o.Pkg().Path(), "crypto/sha") {
				got[rw.n] = o.FullName()
			}
		}
	}
	ok := len(got) == len(want)
	for k, v := range want {
		if got[k] != v {
			ok = false
		}
	}
	r.Check("R1-verifier", "ReceptorVerifyFunc$1: digest table (fingerprint length → hash)", V.Pos(), ok,
		fmt.Sprintf("each fingerprint length selects the hash producing that many bytes: %v", got), fmt.Sprintf("digest table is %v, expected %v", got, want))
	// the digest input: the dynamic call of s.sumFunc has certs[0].Raw as argument
	okIn := false
	for _, ci := range engine.CallsIn(V) {
		if ci.Common().StaticCallee() != nil || ci.Common().IsInvoke() || len(ci.Common().Args) != 1 {
			continue
		}
		if f, base := engine.FieldOfLoad(ci.Common().Args[0]); f != nil && f.Name() == "Raw" {
			// base = load of &certs[0]
			if u, ok := engine.Unwrap(base).(*ssa.UnOp); ok {
				if ia, ok := u.X.(*ssa.IndexAddr); ok {
					if k, ok := engine.ConstInt(ia.Index); ok && k == 0 {
						okIn = true
					}
				}
			}
		}
	}
	r.Check("R1-verifier", "ReceptorVerifyFunc$1: digest input is the leaf certificate", V.Pos(), okIn, "the fingerprint is computed over certs[0].Raw", "the fingerprint is not computed over the presented leaf certificate certs[0].Raw")
}

// roleTable: VerifyServer ↦ (RootCAs, ServerAuth), VerifyClient ↦ (ClientCAs, ClientAuth), default ↦ error.
func roleTable(r *engine.Report, p *engine.Program, V *ssa.Function) {
	type role struct {
		name       string
		c          *types.Const
		pool       string
		usage      int64
		usageLabel string
	}
	roles := []role{
		{"VerifyServer", p.Const("netceptor", "VerifyServer"), "RootCAs", 2, "ExtKeyUsageServerAuth"},
		{"VerifyClient", p.Const("netceptor", "VerifyClient"), "ClientCAs", 3, "ExtKeyUsageClientAuth"},
	}
	// x509.ExtKeyUsageServerAuth = 1, ClientAuth = 2 (iota: Any=0, ServerAuth=1, ClientAuth=2)
	roles[0].usage, roles[1].usage = 1, 2
	isVT := func(v ssa.Value) bool {
		u, ok := v.(*ssa.UnOp)
		if ok && u.Op == token.MUL {
			if fv, ok := u.X.(*ssa.FreeVar); ok && fv.Name() == "verifyType" {
				return true
			}
		}
		if fv, ok := v.(*ssa.FreeVar); ok && fv.Name() == "verifyType" {
			return true
		}
		return false
	}
	var allEq []engine.Edge
	for _, ro := range roles {
		if ro.c == nil {
			r.Broken("constant %s not found", ro.name)
			return
		}
		eq, _ := engine.IntCmpEdges(V, isVT, -100, token.EQL, constIntVal(ro.c))
		allEq = append(allEq, eq...)
		ok := len(eq) == 1
		why := "role case not found"
		if ok {
			blk := eq[0].To()
			pool, usage, hasTime := "", int64(-1), false
			for _, in := range blk.Instrs {
				st, isS := in.(*ssa.Store)
				if !isS {
					continue
				}
				switch a := st.Addr.(type) {
				case *ssa.FieldAddr:
					fv := engine.FieldAddrVar(a)
					if fv == nil || fv.Pkg() == nil || fv.Pkg().Path() != "crypto/x509" {
						continue
					}
					switch fv.Name() {
					case "Roots":
						if f, _ := engine.FieldOfLoad(st.Val); f != nil {
							pool = f.Name()
						}
					case "CurrentTime":
						if c, isC := st.Val.(*ssa.Call); isC && engine.IsCallTo(c.Common(), "time.Now") {
							hasTime = true
						}
					}
				case *ssa.IndexAddr:
					if k, isK := engine.ConstInt(st.Val); isK && strings.HasSuffix(st.Val.Type().String(), "x509.ExtKeyUsage") {
						usage = k
					}
				}
			}
			ok = pool == ro.pool && usage == ro.usage && hasTime
			why = fmt.Sprintf("role %s uses trust pool %q, key usage %d, CurrentTime=time.Now:%v; expected pool %s and %s", ro.name, pool, usage, hasTime, ro.pool, ro.usageLabel)
		}
		r.Check("R2-role-table", "ReceptorVerifyFunc$1: "+ro.name+" options", V.Pos(), ok, fmt.Sprintf("%s verifies against tlscfg.%s with %s at the current time", ro.name, ro.pool, ro.usageLabel), why)
	}
	// default arm fails
	isNilRet := func(in ssa.Instruction) bool {
		ret, ok := in.(*ssa.Return)
		return ok && engine.IsNilConst(ret.Results[0])
	}
	okDef := len(allEq) == 2 && engine.Reach(V, nil, engine.EdgeSet{}.Add(allEq...), nil, isNilRet) == nil
	r.Check("R2-role-table", "ReceptorVerifyFunc$1: unknown role fails", V.Pos(), okDef, "with neither role case taken, return nil is unreachable", "an unknown verification role can succeed")
}

// serverInstallRule: a server profile whose ClientAuth is not NoClientCert always installs the verifier.
// clientAuthSetRule: the ClientAuth modes a server profile can get are exactly NoClientCert,
// VerifyClientCertIfGiven and RequireAndVerifyClientCert — the last being the constant by which
// listen() recognises a mutually authenticated listener and installs the node binding.
func clientAuthSetRule(r *engine.Report, p *engine.Program, fn *ssa.Function) {
	got := map[int64]bool{}
	for _, b := range fn.Blocks {
		for _, in := range b.Instrs {
			st, ok := in.(*ssa.Store)
			if !ok {
				continue
			}
			if fa, ok := st.Addr.(*ssa.FieldAddr); ok && isTLSConfigField(engine.FieldAddrVar(fa), "ClientAuth") {
				if k, isC := engine.ConstInt(st.Val); isC {
					got[k] = true
				} else {
					got[-1] = true
				}
			}
		}
	}
	ok := len(got) == 3 && got[0] && got[3] && got[4]
	r.Check("R5-listener-binding", "PrepareTLSServerConfig: ClientAuth is one of NoClientCert, VerifyClientCertIfGiven, RequireAndVerifyClientCert", fn.Pos(), ok,
		"the three modes stored are 0, 3 and 4; 'requireclientcert' yields RequireAndVerifyClientCert, the value listen() tests before installing the node-binding verifier",
		fmt.Sprintf("ClientAuth modes stored: %v — with a mode such as RequireAnyClientCert the stream listener no longer recognises the profile as mutually authenticated and never binds the client certificate to the packet source node", got))
}

func serverInstallRule(r *engine.Report, p *engine.Program, fn *ssa.Function) {
	clientAuthSetRule(r, p, fn)
	var vpc []ssa.Instruction
	var caStores []*ssa.Store
	for _, b := range fn.Blocks {
		for _, in := range b.Instrs {
			st, ok := in.(*ssa.Store)
			if !ok {
				continue
			}
			fa, ok := st.Addr.(*ssa.FieldAddr)
			if !ok {
				continue
			}
			fv := engine.FieldAddrVar(fa)
			if isTLSConfigField(fv, "VerifyPeerCertificate") && !engine.IsNilConst(st.Val) {
				vpc = append(vpc, in)
			}
			if isTLSConfigField(fv, "ClientAuth") {
				caStores = append(caStores, st)
			}
		}
	}
	isVPC := func(in ssa.Instruction) bool { return isOneOf(in, vpc) }
	okRet := func(in ssa.Instruction) bool {
		ret, ok := in.(*ssa.Return)
		return ok && len(ret.Results) == 2 && engine.IsNilConst(ret.Results[1])
	}
	n := 0
	for _, st := range caStores {
		k, isC := engine.ConstInt(st.Val)
		if !isC {
			r.Add("R4-pins-reach-verifier", "PrepareTLSServerConfig: ClientAuth value", st.Pos(), engine.Undecided, "ClientAuth is set to a non-constant value")
			continue
		}
		if k == 0 { // tls.NoClientCert
			continue
		}
		n++
		// start just before the store so that the constant it writes is known on the path
		var start ssa.Instruction
		ref := engine.RefOf(st)
		if ref.I > 0 {
			start = ref.B.Instrs[ref.I-1]
		}
		bad := engine.Reach(fn, start, nil, isVPC, okRet)
		if start == nil {
			bad = st
		}
		r.Check("R4-pins-reach-verifier", fmt.Sprintf("PrepareTLSServerConfig: ClientAuth=%d installs the verifier", k), st.Pos(), bad == nil && len(vpc) > 0,
			"from this ClientAuth setting every path to a successful return installs VerifyPeerCertificate (constant propagation resolves the ClientAuth test)",
			"a profile that verifies client certificates can be returned without the receptor verifier: its pinned client fingerprints are silently ignored")
	}
	if n < 2 {
		r.Add("R4-pins-reach-verifier", "PrepareTLSServerConfig: ClientAuth settings", fn.Pos(), engine.Violated, fmt.Sprintf("expected 2 client-verifying ClientAuth settings, found %d", n))
	}
}

// chainsProfileVerifier: fn (the GetConfigForClient closure) builds a combined verifier that calls
// the profile's VerifyPeerCertificate (loaded from the listener's tls.Config) and returns its error.
func chainsProfileVerifier(p *engine.Program, fn *ssa.Function) bool {
	// value loaded from field VerifyPeerCertificate in fn
	var prof ssa.Value
	for _, b := range fn.Blocks {
		for _, in := range b.Instrs {
			if u, ok := in.(*ssa.UnOp); ok && u.Op == token.MUL {
				if fa, ok := u.X.(*ssa.FieldAddr); ok && isTLSConfigField(engine.FieldAddrVar(fa), "VerifyPeerCertificate") {
					prof = u
				}
			}
		}
	}
	if prof == nil {
		return false
	}
	for _, an := range fn.AnonFuncs {
		// which free var is bound to prof?
		for _, b := range fn.Blocks {
			for _, in := range b.Instrs {
				mc, ok := in.(*ssa.MakeClosure)
				if !ok || mc.Fn != ssa.Value(an) {
					continue
				}
				for bi, bd := range mc.Bindings {
					if bd != prof {
						// captured through a cell holding prof
						al, isAl := bd.(*ssa.Alloc)
						if !isAl {
							continue
						}
						holds := false
						if refs := al.Referrers(); refs != nil {
							for _, rr := range *refs {
								if st, ok := rr.(*ssa.Store); ok && st.Addr == ssa.Value(al) && st.Val == prof {
									holds = true
								}
							}
						}
						if !holds {
							continue
						}
					}
					fv := an.FreeVars[bi]
					for _, ci := range engine.CallsIn(an) {
						call, isCall := ci.(*ssa.Call)
						if !isCall {
							continue
						}
						if ci.Common().Value == ssa.Value(fv) {
							if okp, _ := errorPropagates(an, call); okp {
								return true
							}
						}
						if u, ok := ci.Common().Value.(*ssa.UnOp); ok && u.X == ssa.Value(fv) {
							if okp, _ := errorPropagates(an, call); okp {
								return true
							}
						}
					}
				}
			}
		}
	}
	return false
}

// listenerBindingRule (R5): the stream listener's per-client verifier expects the packet source
// node in receptor mode as a client verification, and is installed iff client certs are required.
func listenerBindingRule(r *engine.Report, p *engine.Program, fn *ssa.Function, cs ssa.CallInstruction) {
	args := cs.Common().Args
	cR, cVC := p.Const("netceptor", "ExpectedHostnameTypeReceptor"), p.Const("netceptor", "VerifyClient")
	ht, _ := engine.ConstInt(args[3])
	vt, _ := engine.ConstInt(args[4])
	okMode := cR != nil && cVC != nil && ht == constIntVal(cR) && vt == constIntVal(cVC)
	// expected name derives from hi.Conn.RemoteAddr().String() split at ":" element 0
	name := engine.Unwrap(args[2])
	okName := false
	for i := 0; i < 8 && name != nil; i++ {
		switch x := name.(type) {
		case *ssa.UnOp:
			name = x.X
		case *ssa.IndexAddr:
			name = x.X
		case *ssa.Call:
			if engine.IsCallTo(x.Common(), "strings.Split") {
				name = x.Common().Args[0]
			} else if x.Common().IsInvoke() && x.Common().Method.Name() == "String" {
				name = x.Common().Value
			} else if x.Common().IsInvoke() && x.Common().Method.Name() == "RemoteAddr" {
				if f, _ := engine.FieldOfLoad(x.Common().Value); f != nil && f.Name() == "Conn" {
					okName = true
				}
				name = nil
			} else {
				name = nil
			}
		default:
			name = nil
		}
	}
	r.Check("R5-listener-binding", "listen: per-client verifier binds the certificate to the packet source node", cs.Pos(), okMode && okName,
		"the verifier is built for VerifyClient in receptor-name mode with the node taken from hi.Conn.RemoteAddr()", "the per-client verifier no longer expects the packet source node's ID as a receptor name (a node could present another node's identity)")
	// the combined verifier installed on the per-client config cannot succeed without the
	// node-binding verifier having accepted: every return yields that verifier's result or an
	// error just found non-nil
	{
		okAll, n := true, 0
		why := "no closure calling the node-binding verifier was found"
		if nodeV, isV := cs.(*ssa.Call); isV {
			for _, an := range fn.AnonFuncs {
				for _, fv := range freeVarsBoundTo(fn, an, nodeV) {
					var nodeCalls []*ssa.Call
					for _, ci := range engine.CallsIn(an) {
						call, isCall := ci.(*ssa.Call)
						if !isCall {
							continue
						}
						v := ci.Common().Value
						if u, ok := v.(*ssa.UnOp); ok {
							v = u.X
						}
						if v == ssa.Value(fv) {
							nodeCalls = append(nodeCalls, call)
						}
					}
					if len(nodeCalls) == 0 {
						continue
					}
					n++
					for _, ret := range engine.Returns(an) {
						if len(ret.Results) != 1 {
							continue
						}
						res := engine.Unwrap(ret.Results[0])
						fromNode := false
						for _, c := range nodeCalls {
							if res == ssa.Value(c) {
								fromNode = true
							}
						}
						if fromNode {
							continue
						}
						// an error found non-nil: the return is unreachable once the non-nil edges of res are cut
						_, nonNil := engine.NilCmpEdges(an, func(v ssa.Value) bool { return engine.Unwrap(v) == res })
						cut := engine.EdgeSet{}.Add(nonNil...)
						if len(nonNil) == 0 || engine.Reach(an, nil, cut, nil, func(in ssa.Instruction) bool { return in == ssa.Instruction(ret) }) != nil {
							okAll = false
							why = "the combined verifier can return at " + p.Pos(ret.Pos()) + " with a result that is neither the node-binding verifier's verdict nor an error just found non-nil: a client holding any trusted certificate is accepted whatever node its packets come from"
						}
					}
				}
			}
		}
		r.Check("R5-listener-binding", "listen: the combined verifier succeeds only through the node-binding verifier", cs.Pos(), okAll && n > 0,
			"every return of the installed VerifyPeerCertificate closure yields nodeVerify's result or an error found non-nil", why)
	}
	// installed iff ClientAuth == RequireAndVerifyClientCert
	// the function that installs this closure as GetConfigForClient: the closure's parent, or a
	// caller of the parent when the parent is a helper that merely returns the closure
	var li *ssa.Function
	var install ssa.Instruction
	isThisClosure := func(v ssa.Value) bool {
		switch x := v.(type) {
		case *ssa.MakeClosure:
			return x.Fn == ssa.Value(fn)
		case *ssa.Call:
			callee := x.Common().StaticCallee()
			if callee == nil || callee != fn.Parent() {
				return false
			}
			for _, ret := range engine.Returns(callee) {
				if len(ret.Results) != 1 {
					return false
				}
				mc, ok := ret.Results[0].(*ssa.MakeClosure)
				if !ok || mc.Fn != ssa.Value(fn) {
					return false
				}
			}
			return true
		}
		return false
	}
	p.AllInstrs(func(f *ssa.Function, in ssa.Instruction) {
		if engine.IsMock(f) {
			return
		}
		if st, ok := in.(*ssa.Store); ok {
			if fa, ok := st.Addr.(*ssa.FieldAddr); ok && isTLSConfigField(engine.FieldAddrVar(fa), "GetConfigForClient") && isThisClosure(st.Val) {
				install = in
				li = f
			}
		}
	})
	if li == nil {
		r.Add("R5-listener-binding", "listen: node-binding verifier installed for RequireAndVerifyClientCert", fn.Pos(), engine.Violated, "the per-client config callback holding the node-binding verifier is never stored into a tls.Config.GetConfigForClient")
		return
	}
	req, _ := engine.IntCmpEdges(li, func(v ssa.Value) bool { f, _ := engine.FieldOfLoad(v); return isTLSConfigField(f, "ClientAuth") }, 0, token.EQL, 4)
	okInst := install != nil && len(req) > 0
	if okInst {
		// installed on the require edge
		for _, e := range req {
			if reachFromEdge(li, e, nil, func(in ssa.Instruction) bool { return in == install }, func(in ssa.Instruction) bool {
				ci, ok := in.(ssa.CallInstruction)
				return ok && engine.CalleeObj(ci.Common()) != nil && engine.CalleeObj(ci.Common()).Name() == "Listen"
			}) != nil {
				okInst = false
			}
		}
	}
	r.Check("R5-listener-binding", "listen: node-binding verifier installed for RequireAndVerifyClientCert", li.Pos(), okInst,
		"when the profile requires client certificates, GetConfigForClient is installed before the QUIC listener is created", "a listener requiring client certificates can be created without the node-binding verifier")
}

// freeVarsBoundTo returns the free variables of closure an (created in fn) that are bound to val,
// directly or through a cell whose only stored value is val.
func freeVarsBoundTo(fn, an *ssa.Function, val ssa.Value) []*ssa.FreeVar {
	var out []*ssa.FreeVar
	for _, b := range fn.Blocks {
		for _, in := range b.Instrs {
			mc, ok := in.(*ssa.MakeClosure)
			if !ok || mc.Fn != ssa.Value(an) {
				continue
			}
			for bi, bd := range mc.Bindings {
				if bd != val {
					al, isAl := bd.(*ssa.Alloc)
					if !isAl {
						continue
					}
					holds, other := false, false
					if refs := al.Referrers(); refs != nil {
						for _, rr := range *refs {
							if st, ok := rr.(*ssa.Store); ok && st.Addr == ssa.Value(al) {
								if st.Val == val {
									holds = true
								} else {
									other = true
								}
							}
						}
					}
					if !holds || other {
						continue
					}
				}
				out = append(out, an.FreeVars[bi])
			}
		}
	}
	return out
}

// profileImmutableRule (R7): a named TLS profile stored in the Netceptor maps is shared by every
// later user; whoever customises a config (verifier, ServerName, NextProtos, ...) must do it on a
// private copy. Every store to a crypto/tls.Config field in receptor code targets a config that
// is freshly made in that function: a composite literal / new, the result of (*tls.Config).Clone,
// or the result of a receptor function all of whose returned configs are fresh.
func profileImmutableRule(r *engine.Report, p *engine.Program) {
	freshFn := map[*ssa.Function]int{} // 0 unknown, 1 computing, 2 fresh, 3 not fresh
	var isFresh func(v ssa.Value, depth int) bool
	var returnsFresh func(fn *ssa.Function) bool
	returnsFresh = func(fn *ssa.Function) bool {
		switch freshFn[fn] {
		case 1, 2:
			return true
		case 3:
			return false
		}
		freshFn[fn] = 1
		ok := len(fn.Blocks) > 0
		for _, ret := range engine.Returns(fn) {
			for _, res := range ret.Results {
				if isTLSConfigPtr(res.Type()) && !isFresh(res, 0) {
					ok = false
				}
			}
		}
		if ok {
			freshFn[fn] = 2
		} else {
			freshFn[fn] = 3
		}
		return ok
	}
	isFresh = func(v ssa.Value, depth int) bool {
		if depth > 8 {
			return false
		}
		switch x := v.(type) {
		case *ssa.Alloc:
			if isTLSConfigPtr(x.Type()) {
				return true // new(tls.Config) / &tls.Config{}
			}
			// a variable cell holding *tls.Config: every stored value is fresh (or nil)
			refs := x.Referrers()
			if refs == nil {
				return false
			}
			n := 0
			for _, rr := range *refs {
				if st, ok := rr.(*ssa.Store); ok && st.Addr == ssa.Value(x) {
					n++
					if !isFresh(st.Val, depth+1) {
						return false
					}
				}
			}
			return n > 0
		case *ssa.Const:
			return x.IsNil()
		case *ssa.Phi:
			for _, e := range x.Edges {
				if e != v && !isFresh(e, depth+1) {
					return false
				}
			}
			return true
		case *ssa.UnOp:
			if x.Op == token.MUL {
				// load of a variable cell: every store that can reach this load without an
				// intervening store to the same cell holds a fresh config
				cell, isCell := x.X.(*ssa.Alloc)
				if !isCell || cell.Parent() != x.Parent() || cellWrittenByClosure(cell) {
					return isFresh(x.X, depth+1)
				}
				var stores []*ssa.Store
				if refs := cell.Referrers(); refs != nil {
					for _, rr := range *refs {
						if st, ok := rr.(*ssa.Store); ok && st.Addr == ssa.Value(cell) {
							stores = append(stores, st)
						}
					}
				}
				n := 0
				for _, st := range stores {
					other := func(in ssa.Instruction) bool {
						o, ok := in.(*ssa.Store)
						return ok && o != st && o.Addr == ssa.Value(cell)
					}
					if engine.Reach(x.Parent(), st, nil, other, func(in ssa.Instruction) bool { return in == ssa.Instruction(x) }) != nil {
						n++
						if !isFresh(st.Val, depth+1) {
							return false
						}
					}
				}
				return n > 0
			}
		case *ssa.Extract:
			return isFresh(x.Tuple, depth+1)
		case *ssa.FreeVar:
			// captured variable: resolve in the parent through the closure binding
			fn := x.Parent()
			par := fn.Parent()
			if par == nil {
				return false
			}
			idx := -1
			for i, fv := range fn.FreeVars {
				if fv == x {
					idx = i
				}
			}
			for _, b := range par.Blocks {
				for _, in := range b.Instrs {
					if mc, ok := in.(*ssa.MakeClosure); ok && mc.Fn == ssa.Value(fn) && idx >= 0 {
						return isFresh(mc.Bindings[idx], depth+1)
					}
				}
			}
			return false
		case *ssa.Call:
			if engine.IsCallTo(x.Common(), "(*crypto/tls.Config).Clone") {
				return true
			}
			if callee := x.Common().StaticCallee(); callee != nil && inReceptor(callee) {
				return returnsFresh(callee)
			}
		}
		return false
	}
	n := 0
	p.AllInstrs(func(fn *ssa.Function, in ssa.Instruction) {
		if engine.IsMock(fn) || !inReceptor(fn) {
			return
		}
		st, ok := in.(*ssa.Store)
		if !ok {
			return
		}
		fa, ok := st.Addr.(*ssa.FieldAddr)
		if !ok {
			return
		}
		fv := engine.FieldAddrVar(fa)
		if fv == nil || fv.Pkg() == nil || fv.Pkg().Path() != "crypto/tls" || !isTLSConfigPtr(fa.X.Type()) {
			return
		}
		n++
		okF := isFresh(fa.X, 0)
		r.Check("R7-profile-immutable", fmt.Sprintf("%s: store to tls.Config.%s", engine.FuncName(fn), fv.Name()), st.Pos(), okF,
			"the config written is a private one (fresh literal, Clone() result, or the fresh result of a receptor function)",
			"the config written is not provably a private copy: a stored TLS profile (shared by every later dial/listen that names it) is modified in place — e.g. the verifier bound to the first expected peer stays installed for the next one")
	})
	r.Min("R7-profile-immutable", 10)
}

func isTLSConfigPtr(t types.Type) bool {
	pt, ok := t.Underlying().(*types.Pointer)
	if !ok {
		return false
	}
	return pt.Elem().String() == "crypto/tls.Config"
}

func inReceptor(fn *ssa.Function) bool {
	return fn.Pkg != nil && strings.HasPrefix(fn.Pkg.Pkg.Path(), engine.ModPath) || (fn.Parent() != nil && inReceptor(fn.Parent()))
}

// cellWrittenByClosure: some closure that captures the cell stores to it.
func cellWrittenByClosure(cell *ssa.Alloc) bool {
	refs := cell.Referrers()
	if refs == nil {
		return false
	}
	for _, rr := range *refs {
		mc, ok := rr.(*ssa.MakeClosure)
		if !ok {
			continue
		}
		an := mc.Fn.(*ssa.Function)
		for bi, bd := range mc.Bindings {
			if bd != ssa.Value(cell) {
				continue
			}
			fv := an.FreeVars[bi]
			if fr := fv.Referrers(); fr != nil {
				for _, u := range *fr {
					if st, ok := u.(*ssa.Store); ok && st.Addr == ssa.Value(fv) {
						return true
					}
				}
			}
		}
	}
	return false
}

// verifierGlobals lists the package-level variables of receptor packages that the verifier closure
// (or a closure nested in it) touches: a verdict must depend on the presented certificate only.
func verifierGlobals(p *engine.Program, V *ssa.Function) []string {
	var out []string
	var walk func(fn *ssa.Function)
	walk = func(fn *ssa.Function) {
		for _, b := range fn.Blocks {
			for _, in := range b.Instrs {
				for _, op := range in.Operands(nil) {
					if g, ok := (*op).(*ssa.Global); ok && g.Pkg != nil && strings.HasPrefix(g.Pkg.Pkg.Path(), engine.ModPath) {
						out = append(out, fmt.Sprintf("%s touches package-level variable %s at %s", engine.FuncName(fn), g.Name(), p.Pos(in.Pos())))
					}
				}
			}
		}
		for _, an := range fn.AnonFuncs {
			walk(an)
		}
	}
	walk(V)
	return out
}

// trustPoolRule (R8): "chains to the configured authority" — the pools installed as RootCAs /
// ClientCAs hold only what the operator configured: each is a fresh x509.NewCertPool() filled by
// AppendCertsFromPEM of the file named by the same-named option; receptor never starts from the
// host's system pool.
func trustPoolRule(r *engine.Report, p *engine.Program) {
	n := 0
	p.AllInstrs(func(fn *ssa.Function, in ssa.Instruction) {
		if engine.IsMock(fn) || !inReceptor(fn) {
			return
		}
		st, ok := in.(*ssa.Store)
		if !ok {
			return
		}
		fa, ok := st.Addr.(*ssa.FieldAddr)
		if !ok {
			return
		}
		fv := engine.FieldAddrVar(fa)
		if !isTLSConfigField(fv, "RootCAs") && !isTLSConfigField(fv, "ClientCAs") {
			return
		}
		n++
		// fromOption: the PEM bytes are os.ReadFile(cfg.<same name>)
		fromOption := func(v ssa.Value) bool {
			if e, isE := engine.Unwrap(v).(*ssa.Extract); isE {
				if rf, isRF := e.Tuple.(*ssa.Call); isRF && engine.IsCallTo(rf.Common(), "os.ReadFile") {
					if f, _ := engine.FieldOfLoad(rf.Common().Args[0]); f != nil && f.Name() == fv.Name() {
						return true
					}
				}
			}
			return false
		}
		// freshPoolFilledFrom: in function g, value v is x509.NewCertPool() and is filled by AppendCertsFromPEM(bytes) with bytesOK(bytes)
		freshPoolFilledFrom := func(g *ssa.Function, v ssa.Value, bytesOK func(ssa.Value) bool) (bool, bool) {
			c, isC := engine.Unwrap(v).(*ssa.Call)
			if !isC || !engine.IsCallTo(c.Common(), "crypto/x509.NewCertPool") {
				return false, false
			}
			for _, ci := range engine.CallsIn(g) {
				if engine.IsCallTo(ci.Common(), "(*crypto/x509.CertPool).AppendCertsFromPEM") && engine.Unwrap(ci.Common().Args[0]) == engine.Unwrap(v) && bytesOK(ci.Common().Args[1]) {
					return true, true
				}
			}
			return true, false
		}
		okPool, filled := freshPoolFilledFrom(fn, st.Val, fromOption)
		if !okPool {
			// a private helper that builds the pool from the bytes it is given
			if c, isC := engine.Unwrap(st.Val).(*ssa.Call); isC {
				if h := c.Common().StaticCallee(); h != nil && inReceptor(h) && len(h.Blocks) > 0 && h.Object() != nil && !h.Object().Exported() {
					for ai, a := range c.Common().Args {
						if !fromOption(a) || ai >= len(h.Params) {
							continue
						}
						hp := h.Params[ai]
						all, n := true, 0
						for _, ret := range engine.Returns(h) {
							for _, res := range ret.Results {
								if engine.IsNilConst(res) || res.Type().String() != "*crypto/x509.CertPool" {
									continue
								}
								n++
								p1, p2 := freshPoolFilledFrom(h, res, func(b ssa.Value) bool { return engine.Unwrap(b) == ssa.Value(hp) })
								if !p1 || !p2 {
									all = false
								}
							}
						}
						if all && n > 0 {
							okPool, filled = true, true
						}
					}
				}
			}
		}
		r.Check("R8-trust-pool", fmt.Sprintf("%s: tls.Config.%s", engine.FuncName(fn), fv.Name()), st.Pos(), okPool && filled,
			"the pool is a fresh x509.NewCertPool() filled with the PEM file named by the "+fv.Name()+" option, nothing else",
			"the trust pool installed as "+fv.Name()+" is not a fresh pool filled only from the configured bundle (e.g. it starts from the system pool): peers whose certificate chains to some other authority are accepted")
	})
	var sys []string
	p.AllInstrs(func(fn *ssa.Function, in ssa.Instruction) {
		if engine.IsMock(fn) || !inReceptor(fn) {
			return
		}
		if ci, ok := in.(ssa.CallInstruction); ok && engine.IsCallTo(ci.Common(), "crypto/x509.SystemCertPool") {
			sys = append(sys, engine.FuncName(fn))
		}
	})
	r.Check("R8-trust-pool", "x509.SystemCertPool: callers in receptor", token.NoPos, len(sys) == 0, "none", fmt.Sprintf("called from %v", sys))
	r.Min("R8-trust-pool", 3)
}
