package rules

import (
	"fmt"
	"sort"
	"go/token"
	"go/types"
	"strings"

	"golang.org/x/tools/go/ssa"

	"rcheck/engine"
)

// secretFlow follows the parameter values of an unredacted status record through one function
// (and the closures it creates) and reports every place where they leave the permitted channel.
//
// Sources: the result of UnredactedStatus() (a "carrier": the record, its ExtraData, the
// *RemoteExtraData) and, from it, the RemoteParams map, its keys/values, any map/slice/array the
// values are put into, and json.Marshal of such a container.
// Permitted uses: projecting non-secret scalar fields off a carrier; ranging/looking up/len of the
// map; copying values into a local container; json.Marshal; Write on the function's own
// connection parameter. Everything else (any other call argument, MakeInterface of a carrier,
// store outside local containers, return, channel send) is a leak.
func secretFlow(p *engine.Program, fn *ssa.Function, rp *types.Var, connParam ssa.Value) (leaks []string, nSources, nSinks int) {
	leaks, nSources, nSinks, _, _ = secretFlowFrom(p, fn, rp, connParam, nil, nil, 0)
	return
}

// secretFlowFrom is secretFlow with parameters of fn pre-marked as carriers / tainted (used for
// private helpers the values are handed to). retTaint / retCarrier: some returned value is tainted / a carrier.
func secretFlowFrom(p *engine.Program, fn *ssa.Function, rp *types.Var, connParam ssa.Value, seedCarrier, seedTaint []ssa.Value, depth int) (leaks []string, nSources, nSinks int, retTaint, retCarrier bool) {
	carrier := map[ssa.Value]bool{}
	taint := map[ssa.Value]bool{}
	for _, v := range seedCarrier {
		carrier[v] = true
	}
	for _, v := range seedTaint {
		taint[v] = true
	}
	handled := map[ssa.Instruction]bool{}
	type summary struct {
		leaks      []string
		nSinks     int
		retT, retC bool
	}
	summaries := map[string]summary{}
	// helperCall: a call handing secret-bearing values to a private helper of the same package is analysed in the helper
	helperCall := func(c *ssa.Call) (summary, bool) {
		callee := c.Common().StaticCallee()
		if callee == nil || len(callee.Blocks) == 0 || depth >= 2 || !inPkg(callee, "workceptor") || callee.Object() == nil || callee.Object().Exported() {
			return summary{}, false
		}
		args := c.Common().Args
		if len(args) != len(callee.Params) {
			return summary{}, false
		}
		var sc, st []ssa.Value
		var conn ssa.Value
		key := callee.String()
		for i, a := range args {
			if carrier[a] {
				sc = append(sc, callee.Params[i])
				key += fmt.Sprintf("|c%d", i)
			}
			if taint[a] {
				st = append(st, callee.Params[i])
				key += fmt.Sprintf("|t%d", i)
			}
			if connParam != nil && engine.Unwrap(a) == connParam {
				conn = callee.Params[i]
			}
		}
		if len(sc)+len(st) == 0 {
			return summary{}, false
		}
		if sm, ok := summaries[key]; ok {
			return sm, true
		}
		l, _, ns, rt, rc := secretFlowFrom(p, callee, rp, conn, sc, st, depth+1)
		sm := summary{l, ns, rt, rc}
		summaries[key] = sm
		return sm, true
	}
	isCarrierType := func(t types.Type) bool {
		s := t.String()
		return strings.HasSuffix(s, "workceptor.StatusFileData") || strings.HasSuffix(s, "workceptor.RemoteExtraData") || s == "interface{}" || s == "any"
	}
	var fns []*ssa.Function
	var collect func(f *ssa.Function)
	collect = func(f *ssa.Function) {
		fns = append(fns, f)
		for _, an := range f.AnonFuncs {
			collect(an)
		}
	}
	collect(fn)
	// seeds
	for _, f := range fns {
		for _, b := range f.Blocks {
			for _, in := range b.Instrs {
				if c, ok := in.(*ssa.Call); ok {
					if o := engine.CalleeObj(c.Common()); o != nil && o.Name() == "UnredactedStatus" {
						carrier[c] = true
						nSources++
					}
				}
			}
		}
	}
	leak := func(in ssa.Instruction, what string) {
		leaks = append(leaks, fmt.Sprintf("%s at %s (%s)", what, p.Pos(in.Pos()), engine.FuncName(in.Parent())))
	}
	// closure bindings: a free variable is a carrier/tainted if its binding is
	bindOf := func(fv *ssa.FreeVar) ssa.Value {
		f := fv.Parent()
		par := f.Parent()
		if par == nil {
			return nil
		}
		idx := -1
		for i, x := range f.FreeVars {
			if x == fv {
				idx = i
			}
		}
		for _, b := range par.Blocks {
			for _, in := range b.Instrs {
				if mc, ok := in.(*ssa.MakeClosure); ok && mc.Fn == ssa.Value(f) && idx >= 0 {
					return mc.Bindings[idx]
				}
			}
		}
		return nil
	}
	rootOf := func(addr ssa.Value) ssa.Value {
		for i := 0; i < 10; i++ {
			switch x := addr.(type) {
			case *ssa.IndexAddr:
				addr = x.X
			case *ssa.FieldAddr:
				addr = x.X
			case *ssa.Slice:
				addr = x.X
			default:
				return addr
			}
		}
		return addr
	}
	changed := true
	mark := func(m map[ssa.Value]bool, v ssa.Value) {
		if v != nil && !m[v] {
			m[v] = true
			changed = true
		}
	}
	for iter := 0; changed && iter < 20; iter++ {
		changed = false
		for _, f := range fns {
			for _, fv := range f.FreeVars {
				if b := bindOf(fv); b != nil {
					if carrier[b] {
						mark(carrier, fv)
					}
					if taint[b] {
						mark(taint, fv)
					}
				}
			}
			for _, b := range f.Blocks {
				for _, in := range b.Instrs {
					switch x := in.(type) {
					case *ssa.FieldAddr:
						if carrier[x.X] {
							if engine.FieldAddrVar(x) == rp {
								mark(taint, x) // address of the secret map
							} else if pt, ok := x.Type().Underlying().(*types.Pointer); ok && isCarrierType(pt.Elem()) {
								mark(carrier, x)
							}
						}
					case *ssa.Field:
						if carrier[x.X] && isCarrierType(x.Type()) {
							mark(carrier, x)
						}
					case *ssa.UnOp:
						if x.Op == token.MUL {
							if taint[x.X] {
								mark(taint, x)
							}
							if carrier[x.X] {
								mark(carrier, x)
							}
						}
					case *ssa.TypeAssert:
						if carrier[x.X] {
							mark(carrier, x)
						}
						if taint[x.X] {
							mark(taint, x)
						}
					case *ssa.Extract:
						if carrier[x.Tuple] {
							mark(carrier, x)
						}
						if taint[x.Tuple] && x.Type().String() != "error" && x.Type().String() != "bool" {
							mark(taint, x)
						}
					case *ssa.Phi:
						for _, e := range x.Edges {
							if carrier[e] {
								mark(carrier, x)
							}
							if taint[e] {
								mark(taint, x)
							}
						}
					case *ssa.Range:
						if taint[x.X] {
							mark(taint, x)
						}
					case *ssa.Next:
						if taint[x.Iter] {
							mark(taint, x)
						}
					case *ssa.Lookup:
						if taint[x.X] {
							mark(taint, x)
						}
					case *ssa.MakeInterface:
						if taint[x.X] {
							mark(taint, x)
						}
					case *ssa.ChangeType:
						if taint[x.X] {
							mark(taint, x)
						}
					case *ssa.Convert:
						if taint[x.X] {
							mark(taint, x)
						}
					case *ssa.ChangeInterface:
						if taint[x.X] {
							mark(taint, x)
						}
						if carrier[x.X] {
							mark(carrier, x)
						}
					case *ssa.Slice:
						if taint[x.X] {
							mark(taint, x)
						}
					case *ssa.IndexAddr:
						if taint[x.X] {
							mark(taint, x)
						}
					case *ssa.BinOp:
						if x.Op == token.ADD && (taint[x.X] || taint[x.Y]) {
							mark(taint, x) // string concatenation
						}
					case *ssa.MapUpdate:
						if taint[x.Value] || taint[x.Key] {
							mark(taint, x.Map)
						}
					case *ssa.Store:
						if taint[x.Val] {
							root := rootOf(x.Addr)
							if _, isLocal := root.(*ssa.Alloc); isLocal {
								mark(taint, root)
							}
						}
						if carrier[x.Val] {
							if al, isLocal := x.Addr.(*ssa.Alloc); isLocal {
								mark(carrier, al) // a local variable holding the record
							}
						}
					case *ssa.Call:
						if sm, ok := helperCall(x); ok {
							handled[x] = true
							if sm.retT {
								mark(taint, x)
							}
							if sm.retC {
								mark(carrier, x)
							}
						}
						if engine.IsCallTo(x.Common(), "encoding/json.Marshal") {
							for _, a := range x.Common().Args {
								if taint[a] {
									mark(taint, x)
								}
							}
						}
						if bi, ok := x.Common().Value.(*ssa.Builtin); ok && bi.Name() == "append" {
							for _, a := range x.Common().Args {
								if taint[a] {
									mark(taint, x)
								}
							}
						}
					}
				}
			}
		}
	}
	// sinks
	for _, f := range fns {
		for _, b := range f.Blocks {
			for _, in := range b.Instrs {
				switch x := in.(type) {
				case *ssa.MakeInterface:
					if carrier[x.X] {
						leak(in, "the whole unredacted record is converted to an interface value")
					}
				case *ssa.Return:
					for _, v := range x.Results {
						if depth > 0 {
							if taint[v] {
								retTaint = true
							}
							if carrier[v] {
								retCarrier = true
							}
							continue
						}
						if taint[v] || carrier[v] {
							leak(in, "secret-bearing value returned")
						}
					}
				case *ssa.Send:
					if taint[x.X] || carrier[x.X] {
						leak(in, "secret-bearing value sent on a channel")
					}
				case *ssa.Store:
					if taint[x.Val] || carrier[x.Val] {
						root := rootOf(x.Addr)
						if _, isLocal := root.(*ssa.Alloc); !isLocal {
							leak(in, "secret-bearing value stored outside the function's local containers")
						}
					}
				case ssa.CallInstruction:
					c := x.Common()
					if handled[in] {
						continue
					}
					if bi, ok := c.Value.(*ssa.Builtin); ok {
						switch bi.Name() {
						case "len", "delete", "append", "cap":
							continue
						}
					}
					if engine.IsCallTo(c, "encoding/json.Marshal") {
						continue
					}
					var args []ssa.Value
					args = append(args, c.Args...)
					bad := false
					for _, a := range args {
						if taint[a] || carrier[a] {
							bad = true
						}
					}
					if !bad {
						continue
					}
					if c.IsInvoke() && c.Method.Name() == "Write" && connParam != nil && engine.Unwrap(c.Value) == connParam {
						nSinks++
						continue
					}
					if o := engine.CalleeObj(c); o != nil && o.Name() == "UnredactedStatus" {
						continue
					}
					name := "a function value"
					if o := engine.CalleeObj(c); o != nil {
						name = o.FullName()
					}
					leak(in, "secret-bearing value passed to "+name)
				}
			}
		}
	}
	for _, sm := range summaries {
		leaks = append(leaks, sm.leaks...)
		nSinks += sm.nSinks
	}
	sort.Strings(leaks)
	return leaks, nSources, nSinks, retTaint, retCarrier
}
