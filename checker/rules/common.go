package rules

import (
	"fmt"
	"go/constant"
	"go/token"
	"go/types"
	"sort"
	"strings"

	"golang.org/x/tools/go/ssa"

	"rcheck/engine"
)

var errType = types.Universe.Lookup("error").Type()

// errIndex returns the index of the last result of type error in sig, or -1.
func errIndex(sig *types.Signature) int {
	for i := sig.Results().Len() - 1; i >= 0; i-- {
		if types.Identical(sig.Results().At(i).Type(), errType) {
			return i
		}
	}
	return -1
}

// callResult returns the SSA values carrying result idx of call (the call itself for single
// results, the Extracts otherwise).
func callResult(c *ssa.Call, idx int) []ssa.Value {
	n := c.Common().Signature().Results().Len()
	if n == 1 {
		return []ssa.Value{c}
	}
	var out []ssa.Value
	if refs := c.Referrers(); refs != nil {
		for _, r := range *refs {
			if e, ok := r.(*ssa.Extract); ok && e.Index == idx {
				out = append(out, e)
			}
		}
	}
	return out
}

// firstInstr returns the first instruction of the block an edge leads to.
func firstInstr(e engine.Edge) ssa.Instruction {
	b := e.To()
	if len(b.Instrs) == 0 {
		return nil
	}
	return b.Instrs[0]
}

// reachFromEdge explores from the target block of e (inclusive of its first instruction); the
// branch fact established by e is known along the paths.
func reachFromEdge(fn *ssa.Function, e engine.Edge, cut engine.EdgeSet, barrier func(ssa.Instruction) bool, visit func(ssa.Instruction) bool) ssa.Instruction {
	return engine.ReachEdge(fn, e, cut, barrier, visit)
}

// errorPropagates (P8): the error result of call must not be dropped; it must be returned
// directly, or compared with nil such that from every non-nil edge all reachable Returns carry a
// non-nil error (not the nil constant) — or reach one of the handler calls.
func errorPropagates(fn *ssa.Function, call *ssa.Call, handlers ...string) (bool, string) {
	idx := errIndex(call.Common().Signature())
	if idx < 0 {
		return true, "callee returns no error"
	}
	vals := callResult(call, idx)
	if len(vals) == 0 {
		return false, "the error result is discarded (assigned to _ or not bound)"
	}
	ferr := errIndex(fn.Signature)
	used := false
	for _, e := range vals {
		isE := func(v ssa.Value) bool { return engine.Unwrap(v) == e || phiOf(v, e) }
		// returned directly?
		for _, ret := range engine.Returns(fn) {
			if ferr >= 0 && ferr < len(ret.Results) && isE(ret.Results[ferr]) {
				used = true
			}
		}
		_, nonNil := engine.NilCmpEdges(fn, isE)
		for _, ed := range nonNil {
			used = true
			bad := reachFromEdge(fn, ed, nil, func(in ssa.Instruction) bool {
				if ci, ok := in.(ssa.CallInstruction); ok && len(handlers) > 0 && engine.IsCallTo(ci.Common(), handlers...) {
					return true
				}
				return false
			}, func(in ssa.Instruction) bool {
				ret, ok := in.(*ssa.Return)
				if !ok {
					return false
				}
				if ferr < 0 || ferr >= len(ret.Results) {
					return len(handlers) == 0 // function has no error result: only handlers can discharge
				}
				return engine.IsNilConst(ret.Results[ferr])
			})
			if bad != nil {
				return false, fmt.Sprintf("after the error is found non-nil a path reaches a return that reports success (%s)", bad.String())
			}
		}
	}
	if !used {
		return false, "the error result is bound but never returned nor tested against nil"
	}
	// the test comes before the value can be lost: from the call, no path reaches the same call
	// again (a loop overwriting the error) or a return that does not carry it, without first
	// passing a nil test of this error
	isE := func(v ssa.Value) bool {
		for _, e := range vals {
			if engine.Unwrap(v) == e || phiOf(v, e) {
				return true
			}
		}
		return false
	}
	tested := func(in ssa.Instruction) bool {
		switch x := in.(type) {
		case *ssa.If:
			c := x.Cond
			for {
				u, ok := c.(*ssa.UnOp)
				if !ok || u.Op != token.NOT {
					break
				}
				c = u.X
			}
			if bo, ok := c.(*ssa.BinOp); ok && (bo.Op == token.EQL || bo.Op == token.NEQ) {
				return (isE(bo.X) && engine.IsNilConst(bo.Y)) || (isE(bo.Y) && engine.IsNilConst(bo.X))
			}
		case *ssa.Return:
			return ferr >= 0 && ferr < len(x.Results) && isE(x.Results[ferr])
		}
		return false
	}
	if lost := engine.Reach(fn, call, nil, tested, func(in ssa.Instruction) bool {
		if in == ssa.Instruction(call) {
			return true
		}
		_, isR := in.(*ssa.Return)
		return isR
	}); lost != nil {
		if lost == ssa.Instruction(call) {
			return false, "the call is executed again (loop) before its error was tested: an earlier failure is overwritten by a later success"
		}
		return false, "a return is reachable after the call without the error having been tested (" + lost.String() + ")"
	}
	return true, "the error is returned, or tested before it can be overwritten, and every non-nil path ends in a failing return"
}

func phiOf(v ssa.Value, e ssa.Value) bool {
	ph, ok := v.(*ssa.Phi)
	if !ok {
		return false
	}
	for _, x := range ph.Edges {
		if engine.Unwrap(x) == e {
			return true
		}
	}
	return false
}

// stringSwitchConsts collects, per compared value, the string constants it is compared (==) with
// in fn. Returns the largest such set (the switch) and the edges taken when a comparison is true.
func stringSwitchConsts(fn *ssa.Function) (consts []string, trueEdges []engine.Edge, subject ssa.Value) {
	type grp struct {
		consts []string
		edges  []engine.Edge
	}
	groups := map[ssa.Value]*grp{}
	for _, i := range engine.Ifs(fn) {
		b, ok := i.Cond.(*ssa.BinOp)
		if !ok || b.Op != token.EQL {
			continue
		}
		var subj ssa.Value
		var c string
		if s, ok := engine.ConstString(b.Y); ok {
			subj, c = b.X, s
		} else if s, ok := engine.ConstString(b.X); ok {
			subj, c = b.Y, s
		} else {
			continue
		}
		g := groups[subj]
		if g == nil {
			g = &grp{}
			groups[subj] = g
		}
		g.consts = append(g.consts, c)
		g.edges = append(g.edges, engine.Edge{From: i.Block(), Succ: 0})
	}
	var best *grp
	for s, g := range groups {
		if best == nil || len(g.consts) > len(best.consts) {
			best = g
			subject = s
		}
	}
	if best == nil {
		return nil, nil, nil
	}
	consts = append([]string{}, best.consts...)
	sort.Strings(consts)
	return consts, best.edges, subject
}

func setEq(a, b []string) bool {
	if len(a) != len(b) {
		return false
	}
	for i := range a {
		if a[i] != b[i] {
			return false
		}
	}
	return true
}

func without(a []string, x string) []string {
	var out []string
	for _, s := range a {
		if s != x {
			out = append(out, s)
		}
	}
	return out
}

// allReturnsFail: every Return reachable under the given cuts (from entry) carries a non-nil error.
func allReturnsFail(fn *ssa.Function, start ssa.Instruction, cut engine.EdgeSet) (bool, int) {
	ferr := errIndex(fn.Signature)
	n := 0
	bad := engine.Reach(fn, start, cut, nil, func(in ssa.Instruction) bool {
		ret, ok := in.(*ssa.Return)
		if !ok {
			return false
		}
		n++
		return ferr < 0 || engine.IsNilConst(ret.Results[ferr])
	})
	return bad == nil && n > 0, n
}

// constVal returns the exact constant value of a *types.Const as int64.
func constIntVal(c *types.Const) int64 {
	v, _ := constant.Int64Val(constant.ToInt(c.Val()))
	return v
}

// onlyCallers (P7): callers of fn (by function name) must be within allowed. Returns names.
func callersOf(p *engine.Program, fn *ssa.Function) []string {
	obj, _ := fn.Object().(*types.Func)
	if obj == nil {
		return nil
	}
	set := map[string]bool{}
	for _, cs := range p.CallSitesOf(obj) {
		if engine.IsMock(cs.Parent()) {
			continue
		}
		set[engine.FuncName(engine.Outermost(cs.Parent()))] = true
	}
	// uses as a function value (method values, callbacks)
	p.AllInstrs(func(f *ssa.Function, in ssa.Instruction) {
		if engine.IsMock(f) {
			return
		}
		for _, op := range in.Operands(nil) {
			if *op == ssa.Value(fn) {
				if ci, ok := in.(ssa.CallInstruction); ok && ci.Common().Value == ssa.Value(fn) {
					continue
				}
				set[engine.FuncName(engine.Outermost(f))+" (as value)"] = true
			}
			if mc, ok := (*op).(*ssa.MakeClosure); ok {
				_ = mc
			}
		}
	})
	// bound method closures: ssa creates "bound" wrappers  fn$bound
	for _, f := range p.Funcs() {
		_ = f
	}
	var out []string
	for k := range set {
		out = append(out, k)
	}
	sort.Strings(out)
	return out
}

func checkCallers(r *engine.Report, p *engine.Program, rule string, fnName string, allowed ...string) {
	fn := p.Func(fnName)
	if fn == nil {
		r.Broken("anchor function %s not found", fnName)
		return
	}
	got := callersOf(p, fn)
	allow := map[string]bool{}
	for _, a := range allowed {
		allow[a] = true
	}
	var extra []string
	for _, g := range got {
		if !allow[g] {
			// a private helper extracted from a table member (called only from table members) is the member's own code
			if h := p.Func(g); h != nil && privateHelperOf(p, h, allow) != "" {
				continue
			}
			extra = append(extra, g)
		}
	}
	r.Check(rule, fnName+": callers", fn.Pos(), len(extra) == 0,
		fmt.Sprintf("callers are exactly within the frozen table {%s}: %v", strings.Join(allowed, ", "), got),
		fmt.Sprintf("called from %v, which is outside the frozen who-may-call table {%s}", extra, strings.Join(allowed, ", ")))
}

// fieldLoadIs builds a predicate: v is a load of field f (any base).
func fieldLoadIs(f *types.Var) func(ssa.Value) bool {
	return func(v ssa.Value) bool {
		ff, _ := engine.FieldOfLoad(v)
		return ff == f
	}
}

// callsTo lists calls in fn to any of the named callees.
func callsTo(fn *ssa.Function, names ...string) []ssa.CallInstruction {
	var out []ssa.CallInstruction
	for _, ci := range engine.CallsIn(fn) {
		if engine.IsCallTo(ci.Common(), names...) {
			out = append(out, ci)
		}
	}
	return out
}

// strEqEdges: edges where "subject == const s" holds / fails, subject recognised by isSubject.
func strEqEdges(fn *ssa.Function, isSubject func(ssa.Value) bool, s string) (eq, ne []engine.Edge) {
	return engine.CondEdges(fn, func(c ssa.Value) (bool, bool) {
		cmp, ok := engine.AsCmp(c, isSubject)
		if !ok {
			return false, false
		}
		k, isStr := engine.ConstString(cmp.Other)
		if !isStr || k != s {
			return false, false
		}
		switch cmp.Op {
		case token.EQL:
			return true, true
		case token.NEQ:
			return true, false
		}
		return false, false
	})
}

// valEqEdges: edges where "a == b" holds/fails for values recognised by the two predicates.
func valEqEdges(fn *ssa.Function, isA, isB func(ssa.Value) bool) (eq, ne []engine.Edge) {
	return engine.CondEdges(fn, func(c ssa.Value) (bool, bool) {
		b, ok := c.(*ssa.BinOp)
		if !ok || (b.Op != token.EQL && b.Op != token.NEQ) {
			return false, false
		}
		if (isA(b.X) && isB(b.Y)) || (isA(b.Y) && isB(b.X)) {
			return true, b.Op == token.EQL
		}
		return false, false
	})
}

// argRows returns, for a call, the list of argument tuples it is executed with: the call's own
// arguments, or — when every argument is a field of the element variable of a range over a slice
// literal (table-driven form) — one tuple per row of the literal, in row order.
func argRows(ci ssa.CallInstruction) [][]ssa.Value {
	args := ci.Common().Args
	rows, ok := literalRowsOf(args)
	if ok {
		return rows
	}
	return [][]ssa.Value{append([]ssa.Value{}, args...)}
}

// literalRowsOf: each arg is `*(&elem.f_k)` with elem a copy of lit[i]; returns lit's rows projected on the f_k.
func literalRowsOf(args []ssa.Value) ([][]ssa.Value, bool) {
	if len(args) == 0 {
		return nil, false
	}
	var arr *ssa.Alloc
	idx := make([]int, len(args))
	for i, a := range args {
		u, ok := a.(*ssa.UnOp)
		if !ok || u.Op != token.MUL {
			return nil, false
		}
		fa, ok := u.X.(*ssa.FieldAddr)
		if !ok {
			return nil, false
		}
		idx[i] = fa.Field
		// element: a local copy of lit[i], or lit[i] itself
		var elemAddr ssa.Value = fa.X
		if cell, isCell := elemAddr.(*ssa.Alloc); isCell {
			var src ssa.Value
			n := 0
			if refs := cell.Referrers(); refs != nil {
				for _, rr := range *refs {
					if st, ok := rr.(*ssa.Store); ok && st.Addr == ssa.Value(cell) {
						n++
						src = st.Val
					}
				}
			}
			if n != 1 {
				return nil, false
			}
			ld, ok := src.(*ssa.UnOp)
			if !ok || ld.Op != token.MUL {
				return nil, false
			}
			elemAddr = ld.X
		}
		ia, ok := elemAddr.(*ssa.IndexAddr)
		if !ok {
			return nil, false
		}
		var base ssa.Value = ia.X
		if sl, ok := base.(*ssa.Slice); ok {
			base = sl.X
		}
		al, ok := base.(*ssa.Alloc)
		if !ok {
			return nil, false
		}
		if _, isArr := al.Type().Underlying().(*types.Pointer).Elem().Underlying().(*types.Array); !isArr {
			return nil, false
		}
		if arr != nil && arr != al {
			return nil, false
		}
		arr = al
	}
	// rows of the literal
	type row struct {
		i    int64
		vals map[int]ssa.Value
	}
	var rows []row
	if refs := arr.Referrers(); refs != nil {
		for _, rr := range *refs {
			ia, ok := rr.(*ssa.IndexAddr)
			if !ok {
				continue
			}
			k, isC := engine.ConstInt(ia.Index)
			if !isC {
				continue // the ranged access
			}
			rw := row{i: k, vals: map[int]ssa.Value{}}
			if irefs := ia.Referrers(); irefs != nil {
				for _, x := range *irefs {
					switch y := x.(type) {
					case *ssa.Store: // *(&lit[i]) = *complit
						if ld, ok := y.Val.(*ssa.UnOp); ok && ld.Op == token.MUL {
							if c, ok := ld.X.(*ssa.Alloc); ok {
								if crefs := c.Referrers(); crefs != nil {
									for _, z := range *crefs {
										if fa, ok := z.(*ssa.FieldAddr); ok {
											if fr := fa.Referrers(); fr != nil {
												for _, w := range *fr {
													if st, ok := w.(*ssa.Store); ok && st.Addr == ssa.Value(fa) {
														rw.vals[fa.Field] = st.Val
													}
												}
											}
										}
									}
								}
							}
						}
					case *ssa.FieldAddr: // &lit[i].f = v
						if fr := y.Referrers(); fr != nil {
							for _, w := range *fr {
								if st, ok := w.(*ssa.Store); ok && st.Addr == ssa.Value(y) {
									rw.vals[y.Field] = st.Val
								}
							}
						}
					}
				}
			}
			rows = append(rows, rw)
		}
	}
	if len(rows) == 0 {
		return nil, false
	}
	sort.Slice(rows, func(a, b int) bool { return rows[a].i < rows[b].i })
	var out [][]ssa.Value
	for _, rw := range rows {
		t := make([]ssa.Value, len(args))
		for i, k := range idx {
			v, ok := rw.vals[k]
			if !ok {
				return nil, false
			}
			t[i] = v
		}
		out = append(out, t)
	}
	return out, true
}

// privateHelperOf: fn is an unexported function or method that is never used as a value and is
// called only from functions of the allowed table (or from other such helpers of them); returns
// the name of one allowed caller, "" otherwise. A frozen who-may table thereby extends to private
// helpers extracted from its members.
func privateHelperOf(p *engine.Program, fn *ssa.Function, allowed map[string]bool) string {
	return privateHelperOfDepth(p, fn, allowed, 0)
}

func privateHelperOfDepth(p *engine.Program, fn *ssa.Function, allowed map[string]bool, depth int) string {
	if fn == nil || fn.Parent() != nil || depth > 2 {
		return ""
	}
	obj, _ := fn.Object().(*types.Func)
	if obj == nil || obj.Exported() || fnValueUses(p, fn) > 0 {
		return ""
	}
	owner := ""
	n := 0
	for _, cs := range p.CallSitesOf(obj) {
		if engine.IsMock(cs.Parent()) {
			continue
		}
		n++
		caller := engine.Outermost(cs.Parent())
		name := engine.FuncName(caller)
		if !allowed[name] {
			if privateHelperOfDepth(p, caller, allowed, depth+1) == "" {
				return ""
			}
		}
		owner = name
	}
	if n == 0 {
		return ""
	}
	return owner
}

// mustPassEdges decides "target is executed only after one of the conditions found by find held":
// with the edges find(fn) removed, target is unreachable from fn's entry; or, when fn is a private
// helper (unexported, never used as a value), the same holds at every call site of fn (depth <= 2).
func mustPassEdges(p *engine.Program, fn *ssa.Function, target ssa.Instruction, find func(*ssa.Function) []engine.Edge, depth int) bool {
	edges := find(fn)
	if len(edges) > 0 {
		cut := engine.EdgeSet{}.Add(edges...)
		if engine.Reach(fn, nil, cut, nil, func(in ssa.Instruction) bool { return in == target }) == nil {
			return true
		}
	}
	if depth >= 2 || fn.Parent() != nil {
		return false
	}
	obj, _ := fn.Object().(*types.Func)
	if obj == nil || obj.Exported() || fnValueUses(p, fn) > 0 {
		return false
	}
	n := 0
	for _, cs := range p.CallSitesOf(obj) {
		if engine.IsMock(cs.Parent()) {
			continue
		}
		n++
		if !mustPassEdges(p, cs.Parent(), cs, find, depth+1) {
			return false
		}
	}
	return n > 0
}

// noticeAlwaysSent: sendUnreachable hands every notice to sendMessage — assuming the marshal
// succeeded, no return is reachable without the send (no rate limit, cache or filter in between).
func noticeAlwaysSent(p *engine.Program, su *ssa.Function) (bool, string) {
	sends := callsTo(su, "(*netceptor.Netceptor).sendMessage")
	if len(sends) == 0 {
		return false, "sendUnreachable no longer calls sendMessage"
	}
	cut := engine.EdgeSet{}
	for _, ci := range callsTo(su, "encoding/json.Marshal") {
		if c, ok := ci.(*ssa.Call); ok {
			if e, tested := assumeSucceeds(su, c); tested {
				for k := range e {
					cut[k] = true
				}
			}
		}
	}
	isSend := func(in ssa.Instruction) bool {
		for _, s := range sends {
			if in == ssa.Instruction(s) {
				return true
			}
		}
		return false
	}
	if hit := engine.Reach(su, nil, cut, isSend, func(in ssa.Instruction) bool { _, ok := in.(*ssa.Return); return ok }); hit != nil {
		return false, "sendUnreachable can return at " + descInstr(p, hit) + " without sending the notice although it could be encoded (a rate limit, cache or filter): some senders never learn that their packet expired / was rejected / hit an unknown service"
	}
	return true, ""
}

// decodedAlwaysDispatched: in runProtocol every data packet that decoded successfully is handed to
// handleMessageData before the loop takes the next message (no receive-side filter in between).
func decodedAlwaysDispatched(p *engine.Program, rp *ssa.Function) (bool, string) {
	decs := callsTo(rp, "(*netceptor.Netceptor).translateDataToMessage")
	hmds := callsTo(rp, "(*netceptor.Netceptor).handleMessageData")
	if len(decs) != 1 || len(hmds) == 0 {
		return false, fmt.Sprintf("expected one decode and at least one dispatch in runProtocol, found %d and %d", len(decs), len(hmds))
	}
	dec := decs[0].(*ssa.Call)
	cut, tested := assumeSucceeds(rp, dec)
	if !tested {
		return false, "the decode error is not tested"
	}
	isDispatch := func(in ssa.Instruction) bool {
		for _, h := range hmds {
			if in == ssa.Instruction(h) {
				return true
			}
		}
		return false
	}
	hit := engine.Reach(rp, dec, cut, isDispatch, func(in ssa.Instruction) bool {
		switch in.(type) {
		case *ssa.Select, *ssa.Return:
			return true
		}
		return false
	})
	if hit != nil {
		return false, "a successfully decoded data packet can be discarded before handleMessageData (the loop goes on at " + descInstr(p, hit) + "): packets are dropped silently on the receive side, with no expiry or unreachable notice"
	}
	return true, ""
}

// evalPureIntPredicate interprets a small side-effect-free function of one integer parameter that
// returns a bool (comparisons with constants, boolean connectives, branches, phis) for one
// argument value. ok=false if the function uses anything else.
func evalPureIntPredicate(fn *ssa.Function, arg int64) (result bool, ok bool) {
	if len(fn.Params) != 1 || len(fn.Blocks) == 0 {
		return false, false
	}
	vals := map[ssa.Value]interface{}{fn.Params[0]: arg}
	get := func(v ssa.Value) (interface{}, bool) {
		if c, isC := v.(*ssa.Const); isC {
			if c.Value == nil {
				return nil, false
			}
			if c.Value.Kind() == constant.Bool {
				return constant.BoolVal(c.Value), true
			}
			if k, isI := constant.Int64Val(constant.ToInt(c.Value)); isI {
				return k, true
			}
			return nil, false
		}
		x, have := vals[v]
		return x, have
	}
	var prev *ssa.BasicBlock
	b := fn.Blocks[0]
	for steps := 0; steps < 200; steps++ {
		for _, in := range b.Instrs {
			switch x := in.(type) {
			case *ssa.DebugRef:
			case *ssa.Phi:
				for i, p := range b.Preds {
					if p == prev {
						v, have := get(x.Edges[i])
						if !have {
							return false, false
						}
						vals[x] = v
					}
				}
			case *ssa.BinOp:
				l, ok1 := get(x.X)
				r, ok2 := get(x.Y)
				if !ok1 || !ok2 {
					return false, false
				}
				li, lInt := l.(int64)
				ri, rInt := r.(int64)
				if !lInt || !rInt {
					return false, false
				}
				switch x.Op {
				case token.EQL:
					vals[x] = li == ri
				case token.NEQ:
					vals[x] = li != ri
				case token.LSS:
					vals[x] = li < ri
				case token.LEQ:
					vals[x] = li <= ri
				case token.GTR:
					vals[x] = li > ri
				case token.GEQ:
					vals[x] = li >= ri
				default:
					return false, false
				}
			case *ssa.UnOp:
				if x.Op != token.NOT {
					return false, false
				}
				v, have := get(x.X)
				bv, isB := v.(bool)
				if !have || !isB {
					return false, false
				}
				vals[x] = !bv
			case *ssa.If:
				v, have := get(x.Cond)
				bv, isB := v.(bool)
				if !have || !isB {
					return false, false
				}
				prev = b
				if bv {
					b = b.Succs[0]
				} else {
					b = b.Succs[1]
				}
			case *ssa.Jump:
				prev = b
				b = b.Succs[0]
			case *ssa.Return:
				if len(x.Results) != 1 {
					return false, false
				}
				v, have := get(x.Results[0])
				bv, isB := v.(bool)
				return bv, have && isB
			default:
				return false, false
			}
		}
	}
	return false, false
}

// noticeAlwaysPublished: handleUnreachable hands every decodable notice to the node broker —
// assuming the decode succeeded, no return is reachable without Publish (no dedup, rate limit or filter).
func noticeAlwaysPublished(p *engine.Program, hu *ssa.Function) (bool, string) {
	var pubs []ssa.Instruction
	for _, ci := range engine.CallsIn(hu) {
		if o := engine.CalleeObj(ci.Common()); o != nil && o.Name() == "Publish" {
			pubs = append(pubs, ci)
		}
	}
	if len(pubs) == 0 {
		return false, "handleUnreachable no longer publishes to the broker"
	}
	cut := engine.EdgeSet{}
	for _, ci := range callsTo(hu, "encoding/json.Unmarshal") {
		if c, ok := ci.(*ssa.Call); ok {
			if e, tested := assumeSucceeds(hu, c); tested {
				for k := range e {
					cut[k] = true
				}
			}
		}
	}
	if hit := engine.Reach(hu, nil, cut, func(in ssa.Instruction) bool { return isOneOf(in, pubs) }, func(in ssa.Instruction) bool { _, ok := in.(*ssa.Return); return ok }); hit != nil {
		return false, "handleUnreachable can return at " + descInstr(p, hit) + " without publishing a notice it decoded (a duplicate filter or rate limit): a second socket or dial that sent to the same dead address never hears about it"
	}
	return true, ""
}

// brokerLossless: utils.Broker hands every published message to every current subscriber: the
// per-subscriber send is a blocking select whose only other arm is the broker context, and
// subscription channels are unbuffered (back-pressure instead of dropping).
func brokerLossless(p *engine.Program) (bool, string) {
	start := p.Func("(*utils.Broker).start")
	sub := p.Func("(*utils.Broker).Subscribe")
	if start == nil || sub == nil {
		return false, "Broker.start / Subscribe not found"
	}
	nSend := 0
	var walk func(fn *ssa.Function) string
	walk = func(fn *ssa.Function) string {
		for _, b := range fn.Blocks {
			for _, in := range b.Instrs {
				switch x := in.(type) {
				case *ssa.Send:
					if _, isIface := x.X.Type().Underlying().(*types.Interface); isIface {
						nSend++
					}
				case *ssa.Select:
					hasSend := false
					for _, st := range x.States {
						if st.Dir == types.SendOnly {
							if _, isIface := st.Send.Type().Underlying().(*types.Interface); isIface {
								hasSend = true
							}
						}
					}
					if !hasSend {
						continue
					}
					nSend++
					if !x.Blocking {
						return "the delivery to a subscriber is a non-blocking send (default arm): messages are dropped when the subscriber is not ready"
					}
					for _, st := range x.States {
						if st.Dir == types.RecvOnly {
							c, isCall := engine.Unwrap(st.Chan).(*ssa.Call)
							if !isCall || !c.Common().IsInvoke() || c.Common().Method.Name() != "Done" {
								return "the delivery select has an arm other than the send and the broker context"
							}
						}
					}
				}
			}
		}
		for _, an := range fn.AnonFuncs {
			if w := walk(an); w != "" {
				return w
			}
		}
		return ""
	}
	if w := walk(start); w != "" {
		return false, w
	}
	// private helpers of start (e.g. an extracted delivery function)
	for _, ci := range engine.CallsIn(start) {
		if c := ci.Common().StaticCallee(); c != nil && inPkg(c, "utils") && len(c.Blocks) > 0 && privateHelperOf(p, c, map[string]bool{"(*utils.Broker).start": true}) != "" {
			if w := walk(c); w != "" {
				return false, w
			}
		}
	}
	if nSend == 0 {
		return false, "no delivery send found in Broker.start"
	}
	for _, b := range sub.Blocks {
		for _, in := range b.Instrs {
			if mk, ok := in.(*ssa.MakeChan); ok {
				if k, isC := engine.ConstInt(mk.Size); !isC || k != 0 {
					return false, "Subscribe hands out a buffered channel (with non-blocking delivery notices beyond the buffer are lost; with blocking delivery ordering/back-pressure assumptions change)"
				}
			}
		}
	}
	return true, ""
}

// packetPathStateless: the functions every datagram passes through keep no state of their own —
// they write no field of the Netceptor object and no package-level variable (the name-hash table
// is maintained by AddNameHash, the tables they read are maintained elsewhere). A cache, "last
// notice" record or rate limiter added to this path makes the fate of a packet depend on earlier,
// unrelated packets.
func packetPathStateless(p *engine.Program) (bool, string, int) {
	names := []string{"(*netceptor.Netceptor).handleMessageData", "(*netceptor.Netceptor).forwardMessage", "(*netceptor.Netceptor).sendUnreachable",
		"(*netceptor.Netceptor).handleUnreachable", "(*netceptor.Netceptor).handlePing", "(*netceptor.Netceptor).dispatchReservedService",
		"(*netceptor.Netceptor).translateDataFromMessage", "(*netceptor.Netceptor).translateDataToMessage",
		"(*netceptor.Netceptor).SendMessageWithHopsToLive", "(*netceptor.Netceptor).sendMessage"}
	nc := p.NamedType("netceptor", "Netceptor")
	if nc == nil {
		return false, "type Netceptor not found", 0
	}
	ncFields := map[*types.Var]bool{}
	st := nc.Underlying().(*types.Struct)
	for i := 0; i < st.NumFields(); i++ {
		ncFields[st.Field(i)] = true
	}
	var bad []string
	n := 0
	for _, name := range names {
		fn := p.Func(name)
		if fn == nil {
			if name == "(*netceptor.Netceptor).dispatchReservedService" {
				continue // a two-line helper of handleMessageData: inlined, its code is covered there
			}
			return false, "packet path function " + name + " not found", 0
		}
		fns := append([]*ssa.Function{fn}, fn.AnonFuncs...)
		for _, f := range fns {
			n++
			for _, b := range f.Blocks {
				for _, in := range b.Instrs {
					switch x := in.(type) {
					case *ssa.Store:
						if fa, ok := x.Addr.(*ssa.FieldAddr); ok && ncFields[engine.FieldAddrVar(fa)] {
							bad = append(bad, fmt.Sprintf("%s stores to Netceptor.%s at %s", engine.FuncName(f), engine.FieldAddrVar(fa).Name(), p.Pos(in.Pos())))
						}
						if g, ok := x.Addr.(*ssa.Global); ok && g.Pkg != nil && strings.HasPrefix(g.Pkg.Pkg.Path(), engine.ModPath) {
							bad = append(bad, fmt.Sprintf("%s stores to package variable %s at %s", engine.FuncName(f), g.Name(), p.Pos(in.Pos())))
						}
					case *ssa.MapUpdate:
						if fl, _ := engine.FieldOfLoad(x.Map); fl != nil && ncFields[fl] {
							bad = append(bad, fmt.Sprintf("%s updates map Netceptor.%s at %s", engine.FuncName(f), fl.Name(), p.Pos(in.Pos())))
						}
					case ssa.CallInstruction:
						// methods with pointer receiver on a Netceptor field of sync.Map / similar containers: Store/LoadOrStore/Delete
						c := x.Common()
						if o := engine.CalleeObj(c); o != nil && len(c.Args) > 0 {
							switch o.Name() {
							case "Store", "LoadOrStore", "Delete", "Swap", "CompareAndSwap", "Add":
								if fa, ok := c.Args[0].(*ssa.FieldAddr); ok && ncFields[engine.FieldAddrVar(fa)] {
									bad = append(bad, fmt.Sprintf("%s calls %s on Netceptor.%s at %s", engine.FuncName(f), o.Name(), engine.FieldAddrVar(fa).Name(), p.Pos(in.Pos())))
								}
								if g, ok := c.Args[0].(*ssa.Global); ok && g.Pkg != nil && strings.HasPrefix(g.Pkg.Pkg.Path(), engine.ModPath) {
									bad = append(bad, fmt.Sprintf("%s calls %s on package variable %s at %s", engine.FuncName(f), o.Name(), g.Name(), p.Pos(in.Pos())))
								}
							}
						}
					}
				}
			}
		}
	}
	if len(bad) > 0 {
		return false, strings.Join(bad, "; "), n
	}
	return true, "", n
}

// bindOnceRule: a service name is bound to at most one socket. In each of the three binding
// functions the registration (the NewPacketConn* call or the direct registry store) is unreachable
// when the name is reserved or already registered, and lookup and registration are one
// listenerLock write section.
func bindOnceRule(r *engine.Report, p *engine.Program, rule string) {
	reg := p.Field("netceptor", "Netceptor", "listenerRegistry")
	res := p.Field("netceptor", "Netceptor", "reservedServices")
	ll := p.Field("netceptor", "Netceptor", "listenerLock")
	if reg == nil || res == nil || ll == nil {
		r.Broken("listener registry anchors not found")
		return
	}
	for _, name := range []string{"(*netceptor.Netceptor).ListenPacket", "(*netceptor.Netceptor).ListenPacketAndAdvertise", "(*netceptor.Netceptor).listen"} {
		fn := p.Func(name)
		if fn == nil {
			r.Broken("%s not found", name)
			continue
		}
		var lookups []ssa.Instruction
		var hits []engine.Edge
		for _, f := range []*types.Var{reg, res} {
			for _, a := range engine.FieldAccessesIn(fn, f) {
				if lk, ok := a.Instr.(*ssa.Lookup); ok && lk.CommaOk {
					lookups = append(lookups, lk)
					h, _ := engine.CondEdges(fn, func(c ssa.Value) (bool, bool) {
						e, isE := c.(*ssa.Extract)
						return isE && e.Tuple == ssa.Value(lk) && e.Index == 1, true
					})
					hits = append(hits, h...)
				}
			}
		}
		var binds []ssa.Instruction
		for _, ci := range engine.CallsIn(fn) {
			if engine.IsCallTo(ci.Common(), "netceptor.NewPacketConn", "netceptor.NewPacketConnWithConst") {
				binds = append(binds, ci)
			}
		}
		for _, a := range engine.FieldAccessesIn(fn, reg) {
			if a.Kind == engine.AccMapUpdate {
				binds = append(binds, a.Instr)
			}
		}
		ok, why := len(lookups) >= 2 && len(hits) >= 2 && len(binds) > 0, fmt.Sprintf("found %d lookup(s), %d registration site(s)", len(lookups), len(binds))
		if ok {
			isBind := func(in ssa.Instruction) bool { return isOneOf(in, binds) }
			for _, e := range hits {
				if reachFromEdge(fn, e, nil, nil, isBind) != nil {
					ok, why = false, "the registration is reachable although the name is reserved or already registered: a second socket takes over the name and the first one silently stops receiving"
				}
			}
		}
		if ok {
			ok, why = atomicSection(p, fn, ll, lookups, binds)
		}
		r.Check(rule, engine.FuncName(fn)+": a reserved or already bound service name is refused, atomically with the registration", fn.Pos(), ok,
			"from the hit edge of the reservedServices / listenerRegistry lookups the registration is unreachable; lookups and registration run in one listenerLock write section", why)
	}
}

// adjacencyAfterInsertion: in runProtocol the adjacency rows of a new link (knownConnectionCosts)
// are written only after this session was inserted into the connection table, i.e. after it passed
// the "already connected" test — a session that is about to be refused writes nothing.
func adjacencyAfterInsertion(p *engine.Program) (bool, string) {
	rp := p.Func("(*netceptor.Netceptor).runProtocol")
	conns := p.Field("netceptor", "Netceptor", "connections")
	kcc := p.Field("netceptor", "Netceptor", "knownConnectionCosts")
	if rp == nil || conns == nil || kcc == nil {
		return false, "runProtocol anchors not found"
	}
	var ins ssa.Instruction
	for _, a := range engine.FieldAccessesIn(rp, conns) {
		if a.Kind == engine.AccMapUpdate {
			ins = a.Instr
		}
	}
	writes := fieldWriteSitesIn(p, rp, kcc, true)
	if ins == nil || len(writes) < 1 {
		return false, fmt.Sprintf("insertion found: %v, adjacency writes: %d", ins != nil, len(writes))
	}
	if hit := engine.Reach(rp, nil, nil, func(in ssa.Instruction) bool { return in == ins }, func(in ssa.Instruction) bool { return isOneOf(in, writes) }); hit != nil {
		return false, "the link's cost rows can be written at " + descInstr(p, hit) + " before the session is inserted into the connection table: a session that is then refused (ID already connected on another backend) has already overwritten the live link's cost in the local row, which no flooded update ever repairs"
	}
	return true, ""
}

// adjacencyMapsAreFresh: every map installed as a row of knownConnectionCosts is made here
// (make(map...)), never a map decoded from a peer's message (which may be nil or shared).
func adjacencyMapsAreFresh(p *engine.Program) (bool, string, int) {
	kcc := p.Field("netceptor", "Netceptor", "knownConnectionCosts")
	if kcc == nil {
		return false, "knownConnectionCosts not found", 0
	}
	n := 0
	var bad []string
	for _, a := range p.FieldAccesses(kcc) {
		mu, ok := a.Instr.(*ssa.MapUpdate)
		if !ok || a.Kind != engine.AccMapUpdate || engine.IsMock(a.Fn) {
			continue
		}
		if _, isMap := mu.Value.Type().Underlying().(*types.Map); !isMap {
			continue // an element of a row
		}
		n++
		if _, isMk := engine.Unwrap(mu.Value).(*ssa.MakeMap); !isMk {
			bad = append(bad, engine.FuncName(a.Fn)+" at "+p.Pos(mu.Pos()))
		}
	}
	if len(bad) > 0 {
		return false, "a row of knownConnectionCosts is installed from something other than make(map) in " + strings.Join(bad, ", ") + ": a peer's \"Connections\":null leaves a nil row, and the next write into that row (a handshake as that node) panics the daemon", n
	}
	return n > 0, "no row installation found", n
}

// fieldWriteSitesIn lists the instructions of owner that write field f (store, map update/delete),
// including calls from owner to a private helper of owner that performs such a write: an
// extracted helper is the owner's own code, and the call is where the write happens in the owner.
func fieldWriteSitesIn(p *engine.Program, owner *ssa.Function, f *types.Var, insertOnly bool) []ssa.Instruction {
	var out []ssa.Instruction
	isW := func(k engine.AccessKind) bool {
		if insertOnly {
			return k == engine.AccMapUpdate
		}
		return k == engine.AccMapUpdate || k == engine.AccMapDelete || k == engine.AccStore
	}
	for _, a := range engine.FieldAccessesIn(owner, f) {
		if engine.IsFreshAlloc(a.Base) {
			continue
		}
		if isW(a.Kind) {
			out = append(out, a.Instr)
		}
	}
	ownerName := engine.FuncName(owner)
	for _, ci := range engine.CallsIn(owner) {
		c := ci.Common().StaticCallee()
		if c == nil || len(c.Blocks) == 0 || c == owner || privateHelperOf(p, c, map[string]bool{ownerName: true}) == "" {
			continue
		}
		writes := false
		for _, a := range engine.FieldAccessesIn(c, f) {
			if isW(a.Kind) {
				writes = true
			}
		}
		if writes {
			out = append(out, ci)
		}
	}
	return out
}
