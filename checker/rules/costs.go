package rules

import (
	"fmt"
	"go/token"
	"go/types"

	"golang.org/x/tools/go/ssa"

	"rcheck/engine"
)

// costPositivity: every value stored into knownConnectionCosts[·][·] must be positive on every
// path: either the stored value itself is dominated by a "> 0" test, or it is an element of a
// map that a dominating validation loop has checked element by element (every element <= 0
// leads to a return that does not reach the store), or it is read from BackendInfo whose
// construction sites validate it.
func costPositivity(r *engine.Report, p *engine.Program, rule string) {
	kcc := p.Field("netceptor", "Netceptor", "knownConnectionCosts")
	if kcc == nil {
		r.Broken("field Netceptor.knownConnectionCosts not found")
		return
	}
	n := 0
	for _, acc := range p.FieldAccesses(kcc) {
		if acc.Kind != engine.AccMapUpdate || !acc.Nested || engine.IsMock(acc.Fn) {
			continue
		}
		mu := acc.Instr.(*ssa.MapUpdate)
		n++
		fn := acc.Fn
		construct := fmt.Sprintf("%s: knownConnectionCosts[..][..] = %s", engine.FuncName(fn), valueDesc(mu.Value))
		ok, why := positiveAt(p, fn, mu, mu.Value, map[ssa.Value]bool{})
		st := engine.Discharged
		if !ok {
			st = engine.Violated
		}
		r.Add(rule, construct, mu.Pos(), st, why)
	}
	r.Min(rule, 2)
	_ = n
}

func valueDesc(v ssa.Value) string {
	v = engine.Unwrap(v)
	if e, ok := v.(*ssa.Extract); ok {
		if nx, ok := e.Tuple.(*ssa.Next); ok {
			if rg, ok := nx.Iter.(*ssa.Range); ok {
				if f, _ := engine.FieldOfLoad(rg.X); f != nil {
					return "element of range over " + f.Name()
				}
			}
		}
	}
	if f, _ := engine.FieldOfLoad(v); f != nil {
		return "field " + f.Name()
	}
	if ph, ok := v.(*ssa.Phi); ok {
		return "phi(" + ph.Comment + ")"
	}
	return v.Name()
}

// positiveAt decides whether value v is guaranteed > 0 at instruction site in fn.
func positiveAt(p *engine.Program, fn *ssa.Function, site ssa.Instruction, v ssa.Value, inProgress map[ssa.Value]bool) (bool, string) {
	v = engine.Unwrap(v)
	if inProgress[v] {
		return true, "loop-carried value (coinductive)"
	}
	inProgress[v] = true
	defer delete(inProgress, v)
	// (a) direct dominating test on the same SSA value
	holds, _ := engine.IntCmpEdges(fn, func(x ssa.Value) bool { return engine.Unwrap(x) == v }, -1<<40, token.GTR, 0)
	if len(holds) > 0 {
		cut := engine.EdgeSet{}.Add(holds...)
		if engine.Reach(fn, nil, cut, nil, func(in ssa.Instruction) bool { return in == site }) == nil {
			return true, "the stored value is dominated by a test guaranteeing > 0"
		}
	}
	switch x := v.(type) {
	case *ssa.Parameter:
		// the cost is handed to a private helper: positive iff it is at every call site
		if obj, _ := fn.Object().(*types.Func); obj != nil && !obj.Exported() && fnValueUses(p, fn) == 0 {
			idx := -1
			for i, pp := range fn.Params {
				if pp == x {
					idx = i
				}
			}
			n := 0
			for _, cs := range p.CallSitesOf(obj) {
				if engine.IsMock(cs.Parent()) || idx < 0 || idx >= len(cs.Common().Args) {
					continue
				}
				n++
				if ok, why := positiveAt(p, cs.Parent(), cs, cs.Common().Args[idx], inProgress); !ok {
					return false, "argument at " + p.Pos(cs.Pos()) + ": " + why
				}
			}
			if n > 0 {
				return true, "parameter of a private helper; positive at every call site"
			}
		}
	case *ssa.Phi:
		for _, e := range x.Edges {
			ok, why := positiveAt(p, fn, site, e, inProgress)
			if !ok {
				return false, "phi operand " + valueDesc(e) + ": " + why
			}
		}
		return true, "every phi operand is positive"
	case *ssa.Extract:
		// element of a range over a map: look for a dominating validation loop over the same map
		if nx, ok := x.Tuple.(*ssa.Next); ok && x.Index == 2 {
			if rg, ok := nx.Iter.(*ssa.Range); ok {
				if ok, why := validatedMap(p, fn, site, rg.X); ok {
					return true, why
				} else {
					return false, why
				}
			}
		}
		// comma-ok lookup in a map: validated at construction?
		if lk, ok := x.Tuple.(*ssa.Lookup); ok && x.Index == 0 {
			return lookupPositive(p, fn, lk)
		}
	case *ssa.Lookup:
		return lookupPositive(p, fn, x)
	case *ssa.UnOp:
		if f, _ := engine.FieldOfLoad(x); f != nil {
			return fieldPositive(p, fn, site, f, x)
		}
	}
	return false, "no positivity argument found for " + valueDesc(v)
}

// validatedMap: is there a range loop over a load of the same field (same base) in fn in which
// every element <= 0 leads to a return that cannot reach site, and which site cannot be reached
// without traversing?
func validatedMap(p *engine.Program, fn *ssa.Function, site ssa.Instruction, m ssa.Value) (bool, string) {
	mf, mbase := engine.FieldOfLoad(m)
	if mf == nil {
		return false, "ranged map is not a field load"
	}
	for _, b := range fn.Blocks {
		for _, in := range b.Instrs {
			rg, ok := in.(*ssa.Range)
			if !ok {
				continue
			}
			f2, b2 := engine.FieldOfLoad(rg.X)
			if f2 != mf || b2 != mbase {
				continue
			}
			// element values of this range
			var elems []ssa.Value
			for _, rr := range *rg.Referrers() {
				if nx, ok := rr.(*ssa.Next); ok {
					for _, er := range *nx.Referrers() {
						if ex, ok := er.(*ssa.Extract); ok && ex.Index == 2 {
							elems = append(elems, ex)
						}
					}
				}
			}
			for _, el := range elems {
				_, bad := engine.IntCmpEdges(fn, func(x ssa.Value) bool { return engine.Unwrap(x) == el }, -1<<40, token.GTR, 0)
				holds, _ := engine.IntCmpEdges(fn, func(x ssa.Value) bool { return engine.Unwrap(x) == el }, -1<<40, token.GTR, 0)
				if len(bad) == 0 {
					continue
				}
				// (1) from every "element <= 0" edge, site is unreachable
				reachFromBad := false
				for _, e := range bad {
					to := e.To()
					if len(to.Instrs) == 0 {
						continue
					}
					first := to.Instrs[0]
					if first == site {
						reachFromBad = true
					}
					if engine.Reach(fn, first, nil, nil, func(in ssa.Instruction) bool { return in == site }) != nil {
						reachFromBad = true
					}
				}
				if reachFromBad {
					continue
				}
				// (2) site is unreachable without entering the loop: cut the loop-entry, i.e. the
				// range instruction is a barrier
				if engine.Reach(fn, nil, nil, func(in ssa.Instruction) bool { return in == ssa.Instruction(rg) }, func(in ssa.Instruction) bool { return in == site }) != nil {
					continue
				}
				_ = holds
				return true, fmt.Sprintf("a validation loop over %s (at %s) returns on every element <= 0 and lies on every path to the store", mf.Name(), p.Pos(rg.Pos()))
			}
		}
	}
	return false, fmt.Sprintf("elements of %s are stored without a dominating loop that rejects non-positive costs (a negative-cost cycle makes updateRoutingTable spin forever)", mf.Name())
}

// fieldPositive: a cost read from a struct field (BackendInfo.connectionCost, connInfo.Cost).
func fieldPositive(p *engine.Program, fn *ssa.Function, site ssa.Instruction, f *types.Var, load ssa.Value) (bool, string) {
	// in-function test on another load of the same field
	_, base := engine.FieldOfLoad(load)
	holds, _ := engine.IntCmpEdges(fn, func(x ssa.Value) bool {
		f2, b2 := engine.FieldOfLoad(x)
		return f2 == f && b2 == base
	}, -1<<40, token.GTR, 0)
	if len(holds) > 0 {
		cut := engine.EdgeSet{}.Add(holds...)
		if engine.Reach(fn, nil, cut, nil, func(in ssa.Instruction) bool { return in == site }) == nil {
			return true, fmt.Sprintf("field %s is tested > 0 on every path to the store", f.Name())
		}
	}
	return false, fmt.Sprintf("field %s is not tested for positivity before the store", f.Name())
}

// lookupPositive: value looked up in BackendInfo.nodeCost — positive iff every Prepare() that
// feeds BackendNodeCost validates each element (cfg.NodeCost loops with cost <= 0 → error).
func lookupPositive(p *engine.Program, fn *ssa.Function, lk *ssa.Lookup) (bool, string) {
	f, _ := engine.FieldOfLoad(lk.X)
	if f == nil || f.Name() != "nodeCost" {
		return false, "lookup in an unrecognised map"
	}
	// every call of netceptor.BackendNodeCost(arg): arg is cfg.NodeCost of a config type whose
	// Prepare method validates it
	bnc := p.Func("netceptor.BackendNodeCost")
	if bnc == nil {
		return false, "netceptor.BackendNodeCost not found"
	}
	sites := p.CallSitesOf(bnc.Object().(*types.Func))
	checked := 0
	for _, cs := range sites {
		if engine.IsMock(cs.Parent()) {
			continue
		}
		arg := cs.Common().Args[0]
		af, _ := engine.FieldOfLoad(arg)
		if af == nil {
			return false, "BackendNodeCost called with a value that is not a config field at " + p.Pos(cs.Pos())
		}
		// find the Prepare method of the struct type owning af
		owner := ownerOf(p, af)
		if owner == nil {
			return false, "cannot find the config type owning " + af.Name()
		}
		prep := p.Func("(" + shortType(owner) + ").Prepare")
		if prep == nil {
			prep = p.Func("(*" + shortType(owner) + ").Prepare")
		}
		if prep == nil {
			return false, "config type " + owner.Obj().Name() + " has no Prepare method"
		}
		ok := false
		for _, b := range prep.Blocks {
			for _, in := range b.Instrs {
				if rg, isR := in.(*ssa.Range); isR {
					if rf, _ := engine.FieldOfLoad(rg.X); rf == af {
						// some element test with a <= 0 edge leading to a non-nil error return
						for _, rr := range *rg.Referrers() {
							if nx, isN := rr.(*ssa.Next); isN {
								for _, er := range *nx.Referrers() {
									if ex, isE := er.(*ssa.Extract); isE && ex.Index == 2 {
										_, bad := engine.IntCmpEdges(prep, func(x ssa.Value) bool { return engine.Unwrap(x) == ex }, -1<<40, token.GTR, 0)
										if len(bad) > 0 {
											ok = true
										}
									}
								}
							}
						}
					}
				}
			}
		}
		if !ok {
			return false, fmt.Sprintf("%s does not reject non-positive entries of %s", engine.FuncName(prep), af.Name())
		}
		checked++
	}
	if checked == 0 {
		return false, "no BackendNodeCost call sites found"
	}
	return true, fmt.Sprintf("per-node costs come from BackendNodeCost; all %d call site(s) pass a config map whose Prepare() rejects entries <= 0", checked)
}

func ownerOf(p *engine.Program, f *types.Var) *types.Named {
	for _, pk := range p.Pkgs {
		sc := pk.Types.Scope()
		for _, nm := range sc.Names() {
			if tn, ok := sc.Lookup(nm).(*types.TypeName); ok {
				if st, ok := tn.Type().Underlying().(*types.Struct); ok {
					for i := 0; i < st.NumFields(); i++ {
						if st.Field(i) == f {
							n, _ := tn.Type().(*types.Named)
							return n
						}
					}
				}
			}
		}
	}
	return nil
}

func shortType(n *types.Named) string {
	return n.Obj().Pkg().Name() + "." + n.Obj().Name()
}
