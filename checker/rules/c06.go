package rules

import (
	"fmt"
	"go/token"
	"go/types"
	"strings"

	"golang.org/x/tools/go/ssa"

	"rcheck/engine"
)

func init() { register("C06", c06) }

// pictureWrites: instructions in fn that change the per-origin routing picture.
func pictureWrites(p *engine.Program, fn *ssa.Function) []ssa.Instruction {
	var out []ssa.Instruction
	for _, fd := range [][3]string{{"netceptor", "Netceptor", "knownNodeInfo"}, {"netceptor", "Netceptor", "knownConnectionCosts"}} {
		f := p.Field(fd[0], fd[1], fd[2])
		for _, a := range engine.FieldAccessesIn(fn, f) {
			if a.Kind == engine.AccMapUpdate || a.Kind == engine.AccMapDelete || a.Kind == engine.AccStore {
				out = append(out, a.Instr)
			}
		}
	}
	for _, fd := range []string{"Epoch", "Sequence"} {
		f := p.Field("netceptor", "nodeInfo", fd)
		for _, a := range engine.FieldAccessesIn(fn, f) {
			if a.Kind == engine.AccStore {
				out = append(out, a.Instr)
			}
		}
	}
	return out
}

// orderingOutcome abstractly executes the chain of comparisons starting at block b under a given
// ordering of two quantity pairs. sign[i] ∈ {-1,0,1} is the ordering of pair i (left vs right).
// It follows Ifs whose condition compares the two sides of a pair and unconditional jumps, and
// stops at the first block that ends differently or tests something else. Returns that block.
type qpair struct{ left, right func(ssa.Value) bool }

func orderingOutcome(b *ssa.BasicBlock, pairs []qpair, sign []int) *ssa.BasicBlock {
	for steps := 0; steps < 50; steps++ {
		if len(b.Instrs) == 0 {
			return b
		}
		switch t := b.Instrs[len(b.Instrs)-1].(type) {
		case *ssa.Jump:
			// only pass through blocks without effects other than loads/compares
			b = b.Succs[0]
			continue
		case *ssa.If:
			c := t.Cond
			neg := false
			for {
				u, ok := c.(*ssa.UnOp)
				if ok && u.Op == token.NOT {
					neg = !neg
					c = u.X
					continue
				}
				break
			}
			bo, ok := c.(*ssa.BinOp)
			if !ok {
				return b
			}
			matched := false
			for i, pr := range pairs {
				var op token.Token
				if pr.left(bo.X) && pr.right(bo.Y) {
					op = bo.Op
				} else if pr.left(bo.Y) && pr.right(bo.X) {
					op = flipOp(bo.Op)
				} else {
					continue
				}
				var val bool
				switch op {
				case token.LSS:
					val = sign[i] < 0
				case token.LEQ:
					val = sign[i] <= 0
				case token.GTR:
					val = sign[i] > 0
				case token.GEQ:
					val = sign[i] >= 0
				case token.EQL:
					val = sign[i] == 0
				case token.NEQ:
					val = sign[i] != 0
				default:
					return b
				}
				if neg {
					val = !val
				}
				if val {
					b = b.Succs[0]
				} else {
					b = b.Succs[1]
				}
				matched = true
				break
			}
			if !matched {
				return b
			}
		default:
			return b
		}
	}
	return b
}

func flipOp(op token.Token) token.Token {
	switch op {
	case token.LSS:
		return token.GTR
	case token.LEQ:
		return token.GEQ
	case token.GTR:
		return token.LSS
	case token.GEQ:
		return token.LEQ
	}
	return op
}

func c06(r *engine.Report, p *engine.Program) {
	r.Explanation = "Decides, in handleRoutingUpdate/flood (the only code that applies and relays routing updates), that for every one of the 9 orderings of (update epoch vs stored epoch) × (update sequence vs stored sequence) the comparison chain accepts exactly when the update is newer (greater epoch, or equal epoch and greater sequence) — the quantities are only compared, so the 9 orderings are exhaustive; that every write to the per-origin picture and the relay are unreachable from the 'already seen' edge and from the 'origin is myself' edge; that the update ID is recorded, in the same seenUpdatesLock section as the lookup, on every path before any write or relay; that the relay excludes the connection the update came from and carries our ID as forwarder; that sequence/epoch have single writers. It does not decide behaviour over delivery orders/duplications of a running mesh or dedup-table expiry timing."
	r.NotDecided = []string{"behaviour over all delivery orders and duplications (needs an executable model)", "dedup-table expiry timing", "epoch clock assumptions"}
	r.Assumptions = []string{"epoch and sequence are unsigned integers touched only through comparisons and copies in this function (checked: the evaluator stops at any other use)"}
	hru := p.Func("(*netceptor.Netceptor).handleRoutingUpdate")
	fl := p.Func("(*netceptor.Netceptor).flood")
	rp := p.Func("(*netceptor.Netceptor).runProtocol")
	if hru == nil || fl == nil || rp == nil {
		r.Broken("C06 anchors not found")
		return
	}
	r.Anchor("(*netceptor.Netceptor).handleRoutingUpdate")
	r.Anchor("(*netceptor.Netceptor).flood")
	fld := func(t, f string) *types.Var {
		v := p.Field("netceptor", t, f)
		if v == nil {
			r.Broken("field %s.%s not found", t, f)
		}
		return v
	}
	uEpoch, uSeq, uID, uNode, uFwd := fld("routingUpdate", "UpdateEpoch"), fld("routingUpdate", "UpdateSequence"), fld("routingUpdate", "UpdateID"), fld("routingUpdate", "NodeID"), fld("routingUpdate", "ForwardingNode")
	nEpoch, nSeq := fld("nodeInfo", "Epoch"), fld("nodeInfo", "Sequence")
	seen, seenLock := fld("Netceptor", "seenUpdates"), fld("Netceptor", "seenUpdatesLock")
	kni, kcc, knl := fld("Netceptor", "knownNodeInfo"), fld("Netceptor", "knownConnectionCosts"), fld("Netceptor", "knownNodeLock")
	nodeID := fld("Netceptor", "nodeID")
	if uEpoch == nil || uSeq == nil || uID == nil || nEpoch == nil || nSeq == nil || seen == nil || kni == nil || kcc == nil || nodeID == nil || uNode == nil || uFwd == nil {
		return
	}
	writes := pictureWrites(p, hru)
	floods := callsTo(hru, "(*netceptor.Netceptor).flood")
	if len(floods) != 1 {
		r.Add("R4-relay", "handleRoutingUpdate: relay call", hru.Pos(), engine.Violated, fmt.Sprintf("expected exactly one flood call, found %d", len(floods)))
		return
	}
	relay := floods[0]
	isEffect := func(in ssa.Instruction) bool { return isOneOf(in, writes) || in == ssa.Instruction(relay) }
	param0 := hru.Params[1] // ri

	// R1 freshness: exhaustive ordering table, starting where an existing entry was found
	var lk *ssa.Lookup
	for _, a := range engine.FieldAccessesIn(hru, kni) {
		if l, ok := a.Instr.(*ssa.Lookup); ok && l.CommaOk {
			// the lookup whose found-branch compares epochs: pick the one from whose ok edge an epoch comparison is reachable
			okT, _ := engine.CondEdges(hru, func(c ssa.Value) (bool, bool) {
				e, isE := c.(*ssa.Extract)
				return isE && e.Index == 1 && e.Tuple == ssa.Value(l), true
			})
			for _, e := range okT {
				tb := e.To()
				if i := engine.IfOf(tb); i != nil {
					if bo, isB := i.Cond.(*ssa.BinOp); isB {
						fx, _ := engine.FieldOfLoad(bo.X)
						fy, _ := engine.FieldOfLoad(bo.Y)
						if (fx == uEpoch && fy == nEpoch) || (fx == nEpoch && fy == uEpoch) {
							lk = l
						}
					}
				}
			}
		}
	}
	if lk == nil {
		r.Add("R1-freshness", "handleRoutingUpdate: stored-entry comparison", hru.Pos(), engine.Violated, "no comparison of the update's epoch with the stored epoch was found on the 'entry exists' edge of the knownNodeInfo lookup")
	} else {
		okT, _ := engine.CondEdges(hru, func(c ssa.Value) (bool, bool) {
			e, isE := c.(*ssa.Extract)
			return isE && e.Index == 1 && e.Tuple == ssa.Value(lk), true
		})
		pairs := []qpair{
			{fieldLoadIs(uEpoch), fieldLoadIs(nEpoch)},
			{fieldLoadIs(uSeq), fieldLoadIs(nSeq)},
		}
		names := map[int]string{-1: "<", 0: "=", 1: ">"}
		table := []string{}
		for _, e := range okT {
			for _, se := range []int{-1, 0, 1} {
				for _, sq := range []int{-1, 0, 1} {
					end := orderingOutcome(e.To(), pairs, []int{se, sq})
					accepted := false
					if len(end.Instrs) > 0 {
						first := end.Instrs[0]
						accepted = isEffect(first) || engine.Reach(hru, first, nil, nil, isEffect) != nil
					}
					want := se > 0 || (se == 0 && sq > 0)
					desc := fmt.Sprintf("epoch %s stored, sequence %s stored", names[se], names[sq])
					table = append(table, fmt.Sprintf("%s → %s", desc, map[bool]string{true: "applied+relayed", false: "ignored"}[accepted]))
					r.Check("R1-freshness", "handleRoutingUpdate: "+desc, lk.Pos(), accepted == want,
						map[bool]string{true: "accepted (newer than the stored picture)", false: "ignored: no picture write or relay is reachable"}[want],
						map[bool]string{true: "an update that is NEWER than the stored picture is ignored", false: "an update that is older than or equal to the stored picture reaches a picture write or the relay: knowledge regresses / is relayed again"}[want])
				}
			}
		}
		r.Extra["freshness_decision_table"] = table
	}
	r.Min("R1-freshness", 9)

	// R2 dedup
	var slk *ssa.Lookup
	var sins *ssa.MapUpdate
	for _, a := range engine.FieldAccessesIn(hru, seen) {
		switch x := a.Instr.(type) {
		case *ssa.Lookup:
			if f, b := engine.FieldOfLoad(x.Index); f == uID && b == ssa.Value(param0) {
				slk = x
			}
		case *ssa.MapUpdate:
			if f, b := engine.FieldOfLoad(x.Key); f == uID && b == ssa.Value(param0) {
				sins = x
			}
		}
	}
	if slk == nil || sins == nil || !slk.CommaOk {
		r.Add("R2-dedup", "handleRoutingUpdate: seenUpdates lookup/insert by UpdateID", hru.Pos(), engine.Violated, "the comma-ok lookup and the insert of ri.UpdateID into seenUpdates were not both found")
	} else {
		hitE, missE := engine.CondEdges(hru, func(c ssa.Value) (bool, bool) {
			e, isE := c.(*ssa.Extract)
			return isE && e.Index == 1 && e.Tuple == ssa.Value(slk), true
		})
		ok := len(hitE) > 0
		for _, e := range hitE {
			if reachFromEdge(hru, e, nil, nil, isEffect) != nil {
				ok = false
			}
		}
		r.Check("R2-dedup", "handleRoutingUpdate: an already-seen update has no effect", slk.Pos(), ok,
			"from the 'UpdateID already seen' edge no picture write and no relay is reachable", "an update whose ID was already seen can still change the picture or be relayed")
		// effects only after the lookup: cut the miss edges → effects unreachable
		cut := engine.EdgeSet{}.Add(missE...)
		hit := engine.Reach(hru, nil, cut, nil, isEffect)
		r.Check("R2-dedup", "handleRoutingUpdate: every effect passes the dedup test", slk.Pos(), hit == nil && len(missE) > 0,
			"picture writes and the relay are unreachable once the 'not seen before' edge is removed", "an effect is reachable without passing the dedup test: "+descInstr(p, hit))
		// the ID is recorded before any effect on every path
		isIns := func(in ssa.Instruction) bool { return in == ssa.Instruction(sins) }
		okRec := len(missE) > 0
		var where ssa.Instruction
		for _, e := range missE {
			if h := reachFromEdge(hru, e, nil, isIns, isEffect); h != nil {
				okRec = false
				where = h
			}
		}
		r.Check("R2-dedup", "handleRoutingUpdate: the UpdateID is recorded before any effect", sins.Pos(), okRec,
			"from the 'not seen before' edge every path to a picture write or to the relay passes seenUpdates[UpdateID] = now", "an effect ("+descInstr(p, where)+") is reachable without recording the UpdateID: the same update is applied/relayed every time it arrives, flooding never terminates on a cycle")
		// atomic test-and-set
		lf := p.Locks(hru)
		var lockKey string
		for _, op := range lf.Ops() {
			if op.Path.Last() == seenLock && op.Acquire {
				lockKey = op.Path.String()
			}
		}
		h1, h2 := lf.HeldAt(slk), lf.HeldAt(sins)
		okAt := lockKey != "" && h1[lockKey] == engine.LockW && h2[lockKey] == engine.LockW
		if okAt {
			for _, op := range lf.Ops() {
				if op.Acquire || op.Path.Last() != seenLock {
					continue
				}
				u := op.Call.(ssa.Instruction)
				if engine.Reach(hru, slk, nil, isIns, func(in ssa.Instruction) bool { return in == u }) != nil && engine.Reach(hru, u, nil, nil, isIns) != nil {
					okAt = false
				}
			}
		}
		r.Check("R2-dedup", "handleRoutingUpdate: dedup test-and-insert is one seenUpdatesLock write section", sins.Pos(), okAt,
			"lookup and insert run with the seenUpdatesLock write lock must-held and no path between them releases it", fmt.Sprintf("dedup lookup (held %s) and insert (held %s) are not in one write section: two copies arriving concurrently are both relayed", h1, h2))
	}

	// R3 self-origin filter
	selfEq, _ := valEqEdges(hru, func(v ssa.Value) bool { f, b := engine.FieldOfLoad(v); return f == uNode && b == ssa.Value(param0) }, fieldLoadIs(nodeID))
	okSelf := len(selfEq) > 0
	for _, e := range selfEq {
		if reachFromEdge(hru, e, nil, nil, isEffect) != nil {
			okSelf = false
		}
	}
	r.Check("R3-self-origin", "handleRoutingUpdate: updates naming ourselves as origin", hru.Pos(), okSelf,
		"from the edge ri.NodeID == s.nodeID no picture write and no relay is reachable", "an update naming this node as origin can change the picture or be relayed")
	emptyEq, _ := strEqEdges(hru, func(v ssa.Value) bool { f, _ := engine.FieldOfLoad(v); return f == uNode }, "")
	okEmpty := len(emptyEq) > 0
	for _, e := range emptyEq {
		if reachFromEdge(hru, e, nil, nil, isEffect) != nil {
			okEmpty = false
		}
	}
	r.Check("R3-self-origin", "handleRoutingUpdate: updates without an origin", hru.Pos(), okEmpty, "an update with an empty origin has no effect", "an update with an empty origin ID is applied")

	// R4 relay excludes the sender
	okArg := relay.Common().Args[2] == ssa.Value(hru.Params[2])
	r.Check("R4-relay", "handleRoutingUpdate: flood excludes the receiving connection", relay.Pos(), okArg,
		"the relay's excludeConn argument is handleRoutingUpdate's own recvConn parameter", "the relay does not exclude the connection the update came from")
	// in flood: the goroutine start is cut by conn != excludeConn
	var goInstr ssa.Instruction
	for _, ci := range engine.CallsIn(fl) {
		if _, isGo := ci.(*ssa.Go); isGo {
			goInstr = ci
		}
	}
	exParam := fl.Params[2]
	_, neE := valEqEdges(fl, func(v ssa.Value) bool { return v == ssa.Value(exParam) }, func(v ssa.Value) bool {
		e, ok := v.(*ssa.Extract)
		if !ok {
			return false
		}
		_, isNext := e.Tuple.(*ssa.Next)
		return isNext && e.Index == 1
	})
	okFl := goInstr != nil && len(neE) > 0
	if okFl {
		cut := engine.EdgeSet{}.Add(neE...)
		okFl = engine.Reach(fl, nil, cut, nil, func(in ssa.Instruction) bool { return in == goInstr }) == nil
	}
	r.Check("R4-relay", "flood: no send to the excluded connection", fl.Pos(), okFl,
		"the per-connection send is unreachable once the edge conn != excludeConn is removed", "flood can send to the excluded connection")
	// in runProtocol the recvConn passed is the established remote ID
	for _, c := range callsTo(rp, "(*netceptor.Netceptor).handleRoutingUpdate") {
		arg := c.Common().Args[2]
		ok := false
		// same value as compared with ri.ForwardingNode
		eq, _ := valEqEdges(rp, fieldLoadIs(uFwd), func(v ssa.Value) bool { return v == arg })
		ok = len(eq) > 0
		r.Check("R4-relay", "runProtocol: recvConn passed is the established remote ID", c.Pos(), ok,
			"the value passed as recvConn is the one ri.ForwardingNode is required to equal", "recvConn is not the established remote node ID")
	}
	// R5 forwarder stamp dominates the marshal
	var stamp *ssa.Store
	for _, a := range engine.FieldAccessesIn(hru, uFwd) {
		if st, ok := a.Instr.(*ssa.Store); ok && a.Kind == engine.AccStore {
			if f, _ := engine.FieldOfLoad(st.Val); f == nodeID {
				stamp = st
			}
		}
	}
	okStamp := false
	if stamp != nil {
		isStamp := func(in ssa.Instruction) bool { return in == ssa.Instruction(stamp) }
		okStamp = engine.Reach(hru, nil, nil, isStamp, func(in ssa.Instruction) bool { return in == ssa.Instruction(relay) }) == nil
		// and the marshalled struct is ri
		for _, m := range callsTo(hru, "(*netceptor.Netceptor).translateStructToNetwork") {
			if engine.Unwrap(m.Common().Args[2]) != ssa.Value(param0) {
				okStamp = false
			}
		}
	}
	r.Check("R5-forwarder", "handleRoutingUpdate: ForwardingNode = own ID before relaying", hru.Pos(), okStamp,
		"every path to the relay passes ri.ForwardingNode = s.nodeID and the relayed bytes are the marshalled ri", "the relayed copy may carry the previous forwarder's ID")

	// R6 single writers
	for _, x := range []struct{ field, allow string }{{"sequence", "(*netceptor.Netceptor).makeRoutingUpdate"}, {"epoch", ""}} {
		f := fld("Netceptor", x.field)
		var bad []string
		n := 0
		for _, a := range p.FieldAccesses(f) {
			if a.Kind == engine.AccStore && !engine.IsMock(a.Fn) && !engine.IsFreshAlloc(a.Base) {
				n++
				if engine.FuncName(a.Fn) != x.allow {
					bad = append(bad, engine.FuncName(a.Fn))
				}
			}
		}
		r.Check("R6-single-writer", "Netceptor."+x.field+": writers", token.NoPos, len(bad) == 0,
			fmt.Sprintf("%d store(s) outside the constructor, all in {%s}", n, x.allow), "written in "+strings.Join(bad, ", "))
	}
	// R8 the relay of an ordinary update (no duplicate notice) comes after its acceptance, and a
	// duplicate notice rewrites the stored epoch/sequence only for exactly the suspected run
	{
		sdup := fld("routingUpdate", "SuspectedDuplicate")
		isSD := func(v ssa.Value) bool { f, b := engine.FieldOfLoad(v); return f == sdup && b == ssa.Value(param0) }
		notice, ordinary := engine.IntCmpEdges(hru, isSD, 0, token.NEQ, 0)
		var epochStores []ssa.Instruction
		for _, a := range engine.FieldAccessesIn(hru, nEpoch) {
			if a.Kind == engine.AccStore {
				epochStores = append(epochStores, a.Instr)
			}
		}
		for _, a := range engine.FieldAccessesIn(hru, nSeq) {
			if a.Kind == engine.AccStore {
				epochStores = append(epochStores, a.Instr)
			}
		}
		isStore := func(in ssa.Instruction) bool { return isOneOf(in, epochStores) }
		isRelay := func(in ssa.Instruction) bool { return in == ssa.Instruction(relay) }
		okOrd := len(ordinary) > 0 && len(notice) > 0 && len(epochStores) >= 4
		var hit ssa.Instruction
		for _, e := range ordinary {
			if h := reachFromEdge(hru, e, nil, isStore, isRelay); h != nil {
				okOrd = false
				hit = h
			}
		}
		// and the relay is not reachable before the notice/ordinary decision at all
		if okOrd {
			cut := engine.EdgeSet{}.Add(notice...).Add(ordinary...)
			if h := engine.Reach(hru, nil, cut, nil, isRelay); h != nil {
				okOrd = false
				hit = h
			}
		}
		r.Check("R8-relay-after-acceptance", "handleRoutingUpdate: an ordinary update is relayed only after it was recorded as the newest of its origin", relay.Pos(), okOrd,
			"from the SuspectedDuplicate == 0 edge the relay is reachable only through the store of the update's epoch/sequence; before that decision it is not reachable at all",
			"an ordinary update can be relayed without having been accepted ("+descInstr(p, hit)+"): stale or replayed updates with a fresh UpdateID are dropped locally but still flooded to every other neighbour")
		// notice branch: stores only on stored epoch == suspected epoch
		eq, _ := valEqEdges(hru, fieldLoadIs(nEpoch), isSD)
		okN := len(eq) > 0
		if okN {
			cut := engine.EdgeSet{}.Add(eq...)
			for _, e := range notice {
				if h := reachFromEdge(hru, e, cut, nil, isStore); h != nil {
					okN = false
				}
			}
		}
		r.Check("R8-relay-after-acceptance", "handleRoutingUpdate: a duplicate notice rewrites the stored epoch/sequence only if the stored epoch is exactly the suspected one", hru.Pos(), okN,
			"from the SuspectedDuplicate != 0 edge, with the edges stored.Epoch == ri.SuspectedDuplicate removed, no store of epoch/sequence is reachable",
			"a duplicate notice can rewrite the stored epoch/sequence of its origin although the stored epoch is not the suspected one (e.g. >=): a late notice from an old run rewinds the record, after which stale updates of the old run are accepted and relayed")
	}
	// R4b each queued message is written to the neighbour once: in protoWriter no Send is reachable
	// from a Send without first taking the next message from WriteChan
	if pw := p.Func("(*netceptor.connInfo).protoWriter"); pw != nil {
		var sends []ssa.Instruction
		for _, ci := range engine.CallsIn(pw) {
			if ci.Common().IsInvoke() && ci.Common().Method.Name() == "Send" {
				sends = append(sends, ci)
			}
		}
		ok := len(sends) == 1
		if len(sends) >= 1 {
			for _, s0 := range sends {
				if hit := engine.Reach(pw, s0, nil, func(in ssa.Instruction) bool { _, isSel := in.(*ssa.Select); return isSel }, func(in ssa.Instruction) bool { return isOneOf(in, sends) }); hit != nil {
					ok = false
				}
			}
		}
		r.Check("R4-relay", "protoWriter: a queued message is handed to the session exactly once", pw.Pos(), ok,
			"one Send call per message taken from WriteChan; no Send is reachable from a Send without the next receive", "a message can be written to the neighbour's session twice (e.g. a retry after an error that was reported although the datagram went out): a relayed update reaches that neighbour more than once")
	} else {
		r.Broken("protoWriter not found")
	}
	// R7 the picture of an origin is never forgotten: no entry of knownNodeInfo is deleted (a
	// delayed older update arriving afterwards would be accepted as first contact)
	{
		var dels []string
		for _, a := range p.FieldAccesses(kni) {
			if a.Kind == engine.AccMapDelete && !engine.IsMock(a.Fn) {
				dels = append(dels, engine.FuncName(a.Fn)+" at "+p.Pos(a.Instr.Pos()))
			}
		}
		r.Check("R7-no-forget", "Netceptor.knownNodeInfo: deletions", token.NoPos, len(dels) == 0,
			"no function deletes an entry of knownNodeInfo: the newest epoch/sequence accepted from an origin is remembered for the life of the process",
			"the stored epoch/sequence of an origin is deleted in "+strings.Join(dels, ", ")+": an older update arriving afterwards is accepted as first contact and relayed")
	}
	// R7 test and update of the stored epoch/sequence form one knownNodeLock write section
	{
		var reads, writes []ssa.Instruction
		for _, a := range engine.FieldAccessesIn(hru, kni) {
			switch a.Kind {
			case engine.AccMapLookup:
				reads = append(reads, a.Instr)
			case engine.AccMapUpdate:
				writes = append(writes, a.Instr)
			}
		}
		for _, fn := range []string{"Epoch", "Sequence"} {
			for _, a := range engine.FieldAccessesIn(hru, fld("nodeInfo", fn)) {
				if a.Kind == engine.AccStore {
					writes = append(writes, a.Instr)
				}
			}
		}
		ok, why := atomicSection(p, hru, knl, reads, writes)
		r.Check("R7-atomic", "handleRoutingUpdate: freshness test + stored epoch/sequence update in one knownNodeLock write section", hru.Pos(), ok,
			fmt.Sprintf("%d lookup(s) and %d update(s) of knownNodeInfo all run under the knownNodeLock write lock and no path between a lookup and an update releases it", len(reads), len(writes)),
			why+" — two updates of one origin handled by two connection goroutines can both pass the test and the older one can be stored last")
	}
	guardedBy(r, p, "R6-guarded-by", fld("Netceptor", "sequence"), fld("Netceptor", "sequenceLock"), nil)
	guardedBy(r, p, "R6-guarded-by", seen, seenLock, nil)
	guardedBy(r, p, "R6-guarded-by", kni, knl, nil)
	guardedBy(r, p, "R6-guarded-by", kcc, knl, callerHolds{"(*netceptor.Netceptor).printRoutingTable": "documented: the caller must already hold knownNodeLock (updateRoutingTable does)"})
}
