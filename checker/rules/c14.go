package rules

import (
	"go/types"
	"reflect"
	"strings"
	"fmt"
	"go/token"
	"sort"

	"golang.org/x/tools/go/ssa"

	"rcheck/engine"
)

func init() { register("C14", c14) }

var statusCallerHolds = callerHolds{
	"(*workceptor.BaseWorkUnit).getStatus":                 "documented: the caller must already hold statusLock",
	"(*workceptor.BaseWorkUnit).GetStatusCopy":             "accessor: used by worker types inside their own statusLock sections and in SetFromParams before publication",
	"(*workceptor.BaseWorkUnit).GetStatusWithoutExtraData": "accessor: used by worker types inside their own statusLock sections",
	"(*workceptor.BaseWorkUnit).SetStatusExtraData":        "ctor: constructor-time setter (unit not yet published)",
	"(*workceptor.BaseWorkUnit).Init":                      "ctor: constructor (unit not yet published)",
}

func c14(r *engine.Report, p *engine.Program) {
	r.Explanation = "Decides the locking protocol of the status record, not its run-time effect: (R1) only StatusFileData.{Save,Load,UpdateFullStatus} open a status file; (R2) in each of them the file is opened only on the success edge of lockStatusFile and after the deferred unlock was registered, and the lock file is <status file>.lock; (R3) UpdateFullStatus re-reads the stored record (when non-empty) before calling the caller's modification callback and writes after it, all inside the same lock section — a read-modify-write; (R4) the whole-record overwrite Save is used only by AllocateUnit (before the unit is published) — every other writer goes through UpdateFullStatus/UpdateBasicStatus; (R5) the in-memory copy BaseWorkUnit.status is accessed only with statusLock held (or in constructors / documented caller-holds accessors whose call sites are checked); (R6) statusLock is never re-acquired by a callee. It does not decide that the advisory lock excludes on the actual file system nor torn reads by non-locking external readers."
	r.NotDecided = []string{"that lockedfile excludes across processes on the actual file system", "lost-update freedom as observed at run time", "torn reads by readers outside the program", "crash atomicity of the rewrite (C04-R1)"}
	r.Assumptions = []string{"lockedfile.OpenFile blocks until the exclusive lock is held and Close releases it"}
	names := []string{"(*workceptor.StatusFileData).Save", "(*workceptor.StatusFileData).Load", "(*workceptor.StatusFileData).UpdateFullStatus"}
	allowed := map[string]bool{}
	for _, n := range names {
		allowed[n] = true
	}
	// R1
	n1 := 0
	for _, op := range statusFileOps(p) {
		n1++
		fname := engine.FuncName(engine.Outermost(op.fn))
		r.Check("R1-who-may-open", fmt.Sprintf("%s: %s(status path)", engine.FuncName(op.fn), op.name), op.call.Pos(), allowed[fname],
			"within the frozen set {Save, Load, UpdateFullStatus}", "the status file is accessed outside the three locking primitives")
	}
	r.Min("R1-who-may-open", 3)
	// R2
	lsf := p.Func("(*workceptor.StatusFileData).lockStatusFile")
	if lsf == nil {
		r.Broken("lockStatusFile not found")
		return
	}
	for _, n := range names {
		fn := p.Func(n)
		if fn == nil {
			r.Broken("anchor %s not found", n)
			return
		}
		var lockCall *ssa.Call
		for _, ci := range callsTo(fn, "(*workceptor.StatusFileData).lockStatusFile") {
			lockCall, _ = ci.(*ssa.Call)
		}
		var deferUnlock ssa.Instruction
		for _, ci := range engine.CallsIn(fn) {
			if d, ok := ci.(*ssa.Defer); ok && engine.IsCallTo(d.Common(), "(*workceptor.StatusFileData).unlockStatusFile") {
				deferUnlock = d
			}
		}
		var opens []ssa.Instruction
		for _, op := range statusFileOps(p) {
			if op.fn == fn {
				opens = append(opens, op.call)
			}
		}
		ok := lockCall != nil && deferUnlock != nil && len(opens) > 0
		why := "lockStatusFile call, deferred unlockStatusFile or the open was not found"
		if ok {
			isOpen := func(in ssa.Instruction) bool { return isOneOf(in, opens) }
			nilE, _ := engine.NilCmpEdges(fn, engine.ResultOfCall(lockCall, -1))
			cut := engine.EdgeSet{}.Add(nilE...)
			if len(nilE) == 0 || engine.Reach(fn, nil, cut, nil, isOpen) != nil {
				ok = false
				why = "the status file can be opened without the lock having been acquired successfully"
			}
			if engine.Reach(fn, nil, nil, func(in ssa.Instruction) bool { return in == deferUnlock }, isOpen) != nil {
				ok = false
				why = "the status file is opened before the deferred unlock is registered (an early return would leak or skip the lock)"
			}
			// same filename for lock and open
			if !isParamValue(lockCall.Common().Args[1], fn.Params[1]) {
				ok = false
				why = "the lock is taken for a different file name than the one opened"
			}
			// the lock handle passed to the deferred unlock is the one acquired
			d := deferUnlock.(*ssa.Defer)
			lockVals := callResult(lockCall, 0)
			if len(lockVals) != 1 || d.Common().Args[2] != lockVals[0] {
				ok = false
				why = "the deferred unlock does not release the lock handle that was acquired"
			}
		}
		r.Check("R2-lock-around-open", n+": lock → defer unlock → open", fn.Pos(), ok,
			"the open is reachable only on the err == nil edge of lockStatusFile(filename) and after defer unlockStatusFile(filename, lockFile)", why)
	}
	// lock file name
	{
		ok := false
		for _, ci := range engine.CallsIn(lsf) {
			if o := engine.CalleeObj(ci.Common()); o != nil && o.Name() == "OpenFile" && o.Pkg() != nil && o.Pkg().Name() == "lockedfile" {
				parts, _ := stringParts(ci.Common().Args[0])
				if bo, isB := ci.Common().Args[0].(*ssa.BinOp); isB && bo.Op == token.ADD && bo.X == ssa.Value(lsf.Params[1]) {
					if s, isS := engine.ConstString(bo.Y); isS && s == ".lock" {
						ok = true
					}
				}
				_ = parts
			}
		}
		// the re-read overwrites every field of the writer's long-lived copy: UpdateFullStatus/Load
		// decode the stored record INTO an existing StatusFileData, so a field that can be absent
		// from the encoding (omitempty, "-") would keep the writer's stale value
		if sfdT := p.NamedType("workceptor", "StatusFileData"); sfdT != nil {
			st := sfdT.Underlying().(*types.Struct)
			var bad []string
			for i := 0; i < st.NumFields(); i++ {
				if !st.Field(i).Exported() {
					continue
				}
				tag := reflect.StructTag(st.Tag(i)).Get("json")
				if tag == "-" || strings.Contains(tag, "omitempty") || strings.Contains(tag, "omitzero") {
					bad = append(bad, st.Field(i).Name()+" `json:\""+tag+"\"`")
				}
			}
			r.Check("R3-read-modify-write", "StatusFileData: every exported field is always present in the stored encoding", token.NoPos, len(bad) == 0,
				fmt.Sprintf("%d fields, none tagged omitempty or \"-\": decoding the stored record into a long-lived copy overwrites all of them", st.NumFields()),
				"field(s) "+strings.Join(bad, ", ")+" can be absent from the stored record: a writer that re-reads the file keeps its own stale value for them and writes it back (another writer's clearing of the field is undone)")
		} else {
			r.Broken("type StatusFileData not found")
		}
		// a modification callback works on the record it is given: it never replaces ExtraData
		// wholesale by something captured from outside (a snapshot taken before the lock was held)
		{
			exF := p.Field("workceptor", "StatusFileData", "ExtraData")
			var bad []string
			nCb := 0
			p.AllInstrs(func(fn *ssa.Function, in ssa.Instruction) {
				if engine.IsMock(fn) || !inPkg(fn, "workceptor") {
					return
				}
				ci, isCall := in.(ssa.CallInstruction)
				if !isCall {
					return
				}
				o := engine.CalleeObj(ci.Common())
				if o == nil || o.Name() != "UpdateFullStatus" {
					return
				}
				args := ci.Common().Args
				mc, isMC := args[len(args)-1].(*ssa.MakeClosure)
				if !isMC {
					return
				}
				cb := mc.Fn.(*ssa.Function)
				nCb++
				for _, a := range engine.FieldAccessesIn(cb, exF) {
					st, isS := a.Instr.(*ssa.Store)
					if !isS || a.Kind != engine.AccStore {
						continue
					}
					v := engine.Unwrap(st.Val)
					if engine.IsNilConst(v) {
						continue
					}
					fresh := false
					switch x := v.(type) {
					case *ssa.Alloc:
						fresh = true
					case *ssa.MakeInterface:
						if _, isAl := engine.Unwrap(x.X).(*ssa.Alloc); isAl {
							fresh = true
						}
					}
					if !fresh {
						bad = append(bad, engine.FuncName(cb)+" at "+p.Pos(st.Pos()))
					}
				}
			})
			r.Check("R3-read-modify-write", "UpdateFullStatus callbacks: ExtraData is modified in place, never replaced by a captured snapshot", token.NoPos, len(bad) == 0 && nCb >= 5,
				fmt.Sprintf("%d callbacks; a store to status.ExtraData is nil or a freshly allocated value", nCb),
				"a callback assigns status.ExtraData from outside the re-read record in "+strings.Join(bad, ", ")+": the update discards what it has just re-read and writes back an older snapshot (other writers' fields are wiped although both locks are held)")
		}
		// every I/O step of the three status-file primitives reports its failure: an update that could
		// not be read back, positioned, truncated or written must not look like a successful update
		{
			nIO := 0
			// the three primitives and the private codec helpers they call (saveToFile/loadFromFile on
			// the pinned tree, identified by what they do, not by name)
			var prims []*ssa.Function
			codec := map[*ssa.Function]bool{}
			for _, n := range []string{"(*workceptor.StatusFileData).Save", "(*workceptor.StatusFileData).Load", "(*workceptor.StatusFileData).UpdateFullStatus"} {
				fn := p.Func(n)
				if fn == nil {
					continue
				}
				prims = append(prims, fn)
				for _, ci := range append(privateCodecCalls(fn, "encoding/json.Marshal"), privateCodecCalls(fn, "encoding/json.Unmarshal")...) {
					if c := ci.Common().StaticCallee(); !codec[c] {
						codec[c] = true
						prims = append(prims, c)
					}
				}
			}
			for _, fn := range prims {
				for _, ci := range engine.CallsIn(fn) {
					call, isCall := ci.(*ssa.Call)
					if !isCall {
						continue // deferred Close etc.
					}
					o := engine.CalleeObj(call.Common())
					if o == nil || errIndex(call.Common().Signature()) < 0 {
						continue
					}
					switch o.Name() {
					case "OpenFile", "Open", "Seek", "Truncate", "Write", "Read", "ReadAll", "Marshal", "Unmarshal", "lockStatusFile", "Sync":
					default:
						if !codec[call.Common().StaticCallee()] {
							continue
						}
					}
					nIO++
					okp, why := errorPropagates(fn, call)
					r.Check("R3-read-modify-write", fmt.Sprintf("%s: failure of %s#%d is reported", engine.FuncName(fn), o.Name(), ordinalOfCall(call)), call.Pos(), okp, why, why+" — a status update that failed half-way is reported as done")
				}
			}
			if nIO < 10 {
				r.Broken("status-file I/O steps: only %d found, expected at least 10", nIO)
			}
		}
		// the lock's identity is the inode of <status>.lock: nobody removes, renames or recreates that path
		{
			var bad []string
			isLockPath := func(v ssa.Value) bool {
				v = engine.Unwrap(v)
				for i := 0; i < 4; i++ {
					if bo, isB := v.(*ssa.BinOp); isB && bo.Op == token.ADD {
						if s0, isC := engine.ConstString(bo.Y); isC && strings.HasSuffix(s0, ".lock") {
							return true
						}
						v = engine.Unwrap(bo.X)
						continue
					}
					if s0, isC := engine.ConstString(v); isC && strings.HasSuffix(s0, ".lock") {
						return true
					}
					if c, isCall := v.(*ssa.Call); isCall && (engine.IsCallTo(c.Common(), "path.Join") || engine.IsCallTo(c.Common(), "path/filepath.Join")) {
						// variadic: last element of the slice literal — look for a ".lock" constant among stores
						return false
					}
					break
				}
				return false
			}
			p.AllInstrs(func(fn *ssa.Function, in ssa.Instruction) {
				if engine.IsMock(fn) || !inPkg(fn, "workceptor") {
					return
				}
				ci, isCall := in.(ssa.CallInstruction)
				if !isCall || !engine.IsCallTo(ci.Common(), "os.Remove", "os.RemoveAll", "os.Rename", "os.Truncate", "os.Create", "os.WriteFile") {
					return
				}
				for _, a := range ci.Common().Args {
					if isLockPath(a) {
						bad = append(bad, engine.FuncName(fn)+" at "+p.Pos(in.Pos()))
					}
				}
			})
			r.Check("R2-lock-around-open", "status lock file: never removed, renamed or recreated", token.NoPos, len(bad) == 0,
				"no os.Remove/RemoveAll/Rename/Truncate/Create/WriteFile call in workceptor names a *.lock path (a unit directory is removed as a whole only by Release)",
				"the lock file is unlinked or replaced in "+strings.Join(bad, ", ")+": the advisory lock is tied to the inode, so a party holding or waiting on the old file and a party opening the new one are inside the read-modify-write section together (lost updates)")
		}
		r.Check("R2-lock-around-open", "lockStatusFile: lock file is <filename>.lock via lockedfile.OpenFile", lsf.Pos(), ok,
			"daemon and runner lock the same companion file", "the lock file name is no longer <status file>.lock or lockedfile is no longer used")
	}
	// R3 read-modify-write
	ufs := p.Func("(*workceptor.StatusFileData).UpdateFullStatus")
	{
		var cb ssa.Instruction
		for _, ci := range engine.CallsIn(ufs) {
			if ci.Common().Value == ssa.Value(ufs.Params[2]) {
				cb = ci
			}
			// parameter spilled to a cell (captured): call through a load
			if u, ok := ci.Common().Value.(*ssa.UnOp); ok {
				if al, ok := u.X.(*ssa.Alloc); ok {
					if refs := al.Referrers(); refs != nil {
						for _, rr := range *refs {
							if st, ok := rr.(*ssa.Store); ok && st.Val == ssa.Value(ufs.Params[2]) {
								cb = ci
							}
						}
					}
				}
			}
		}
		loads := privateCodecCalls(ufs, "encoding/json.Unmarshal")
		saves := privateCodecCalls(ufs, "encoding/json.Marshal")
		ok := cb != nil && len(loads) == 1 && len(saves) == 1
		why := "callback call, loadFromFile or saveToFile not found in UpdateFullStatus"
		if ok {
			isCB := func(in ssa.Instruction) bool { return in == cb }
			load := loads[0].(*ssa.Call)
			nilE, _ := engine.NilCmpEdges(ufs, engine.ResultOfCall(load, -1))
			// size: result #0 of file.Seek(0, 2)
			var sizeVals []ssa.Value
			for _, ci := range callsTo(ufs, "(*os.File).Seek") {
				if k, isK := engine.ConstInt(ci.Common().Args[2]); isK && k == 2 {
					sizeVals = append(sizeVals, callResult(ci.(*ssa.Call), 0)...)
				}
			}
			empty, _ := engine.IntCmpEdges(ufs, func(v ssa.Value) bool {
				for _, s := range sizeVals {
					if v == s {
						return true
					}
				}
				return false
			}, 0, token.LEQ, 0)
			cut := engine.EdgeSet{}.Add(nilE...).Add(empty...)
			if len(nilE) == 0 || len(empty) == 0 || engine.Reach(ufs, nil, cut, nil, isCB) != nil {
				ok = false
				why = "the modification callback can run without the stored record having been re-read (only an empty file may skip the read): an update can wipe fields written by another process"
			}
			if engine.Reach(ufs, nil, nil, isCB, func(in ssa.Instruction) bool { return in == ssa.Instruction(saves[0]) }) != nil {
				ok = false
				why = "the record can be written without the modification having been applied"
			}
			if engine.Reach(ufs, cb, nil, nil, func(in ssa.Instruction) bool { return in == ssa.Instruction(load) }) != nil {
				ok = false
				why = "the record is re-read after the modification (it would be overwritten)"
			}
		}
		r.Check("R3-read-modify-write", "UpdateFullStatus: re-read → callback → write", ufs.Pos(), ok,
			"the callback runs only after a successful loadFromFile (or on an empty file) and saveToFile only after the callback, inside the lock section of R2", why)
		// UpdateBasicStatus goes through UpdateFullStatus
		ubs := p.Func("(*workceptor.StatusFileData).UpdateBasicStatus")
		okU := ubs != nil && len(callsTo(ubs, "(*workceptor.StatusFileData).UpdateFullStatus")) == 1 && len(statusOpsIn(p, ubs)) == 0
		r.Check("R3-read-modify-write", "StatusFileData.UpdateBasicStatus delegates to UpdateFullStatus", ufs.Pos(), okU, "basic updates are read-modify-write too", "UpdateBasicStatus no longer delegates to UpdateFullStatus")
	}
	// R3b the daemon-side wrappers always perform the file update (no shortcut on the cached copy)
	for _, spec := range [][2]string{{"(*workceptor.BaseWorkUnit).UpdateBasicStatus", "(*workceptor.StatusFileData).UpdateBasicStatus"}, {"(*workceptor.BaseWorkUnit).UpdateFullStatus", "(*workceptor.StatusFileData).UpdateFullStatus"}} {
		fn := p.Func(spec[0])
		if fn == nil {
			r.Broken("%s not found", spec[0])
			continue
		}
		calls := callsTo(fn, spec[1])
		var cs []ssa.Instruction
		for _, c := range calls {
			cs = append(cs, c)
		}
		bad := engine.Reach(fn, nil, nil, func(in ssa.Instruction) bool { return isOneOf(in, cs) }, func(in ssa.Instruction) bool { _, ok := in.(*ssa.Return); return ok })
		r.Check("R3-read-modify-write", spec[0]+": always goes to the stored record", fn.Pos(), len(cs) == 1 && bad == nil,
			"every path to a return passes the locked read-modify-write of the status file", "the wrapper can return without touching the stored record (e.g. a 'nothing changed' shortcut decided on the cached in-memory copy): an update is silently dropped when another writer changed the file in between")
	}

	// R4 who may overwrite the whole record
	checkCallers(r, p, "R4-save-callers", "(*workceptor.StatusFileData).Save", "(*workceptor.BaseWorkUnit).Save")
	{
		var callers []string
		p.AllInstrs(func(fn *ssa.Function, in ssa.Instruction) {
			if engine.IsMock(fn) || !inPkg(fn, "workceptor") {
				return
			}
			if ci, ok := in.(ssa.CallInstruction); ok && isMethodCall(ci, "Save", "workceptor") {
				if o := engine.CalleeObj(ci.Common()); o != nil && o.FullName() != "(*"+engine.ModPath+"/pkg/workceptor.StatusFileData).Save" {
					callers = append(callers, engine.FuncName(engine.Outermost(fn)))
				}
			}
		})
		sort.Strings(callers)
		r.Check("R4-save-callers", "WorkUnit.Save: callers", token.NoPos, len(callers) == 1 && callers[0] == "(*workceptor.Workceptor).AllocateUnit",
			"the overwrite-without-re-read primitive is used only by AllocateUnit, before the unit is published", fmt.Sprintf("Save (overwrite without re-read) is called from %v: a concurrent update can be lost", callers))
	}
	// R5 guarded-by status ↔ statusLock
	guardedBy(r, p, "R5-guarded-by", p.Field("workceptor", "BaseWorkUnit", "status"), p.Field("workceptor", "BaseWorkUnit", "statusLock"), statusCallerHolds)
	r.Min("R5-guarded-by", 8)
	// accessor call sites: GetStatusCopy / GetStatusWithoutExtraData invoked through the interface by worker types
	nAcc := 0
	p.AllInstrs(func(fn *ssa.Function, in ssa.Instruction) {
		if engine.IsMock(fn) || !inPkg(fn, "workceptor") {
			return
		}
		ci, ok := in.(ssa.CallInstruction)
		if !ok || !ci.Common().IsInvoke() {
			return
		}
		m := ci.Common().Method.Name()
		if m != "GetStatusCopy" && m != "GetStatusWithoutExtraData" {
			return
		}
		nAcc++
		// the lock: <recv>.GetStatusLock() held, identified through the accessor summary
		held := p.Locks(fn).HeldAt(in)
		want := p.PathOf(ci.Common().Value).With(p.Field("workceptor", "BaseWorkUnit", "statusLock")).String()
		_, isHeld := held[want]
		top := engine.FuncName(engine.Outermost(fn))
		ctor := isConstructorLike(top)
		construct := fmt.Sprintf("%s: %s()", engine.FuncName(fn), m)
		switch {
		case isHeld:
			r.Add("R5-accessor-sites", construct, in.Pos(), engine.Discharged, "called with the unit's statusLock held ("+want+")")
		case ctor:
			r.Add("R5-accessor-sites", construct, in.Pos(), engine.Discharged, "SetFromParams runs on a unit that is not yet published (AllocateUnit holds the index lock and has not inserted it)").Trivial = true
		default:
			r.Add("R5-accessor-sites", construct, in.Pos(), engine.Violated, "the lock-free status accessor is called without the unit's statusLock held (held: "+held.String()+")")
		}
	})
	r.Extra["accessor_call_sites"] = nAcc
}

func isConstructorLike(top string) bool {
	for _, s := range []string{").SetFromParams", ".NewWorker", "newRemoteWorker", "NewRemoteWorker", "newUnknownWorker", "NewkubeWorker", "newKubeWorker", "NewPythonWorker", ".NewWorker$1", "newCommandWorker"} {
		if len(top) >= len(s) && (top[len(top)-len(s):] == s) {
			return true
		}
	}
	return false
}

func statusOpsIn(p *engine.Program, fn *ssa.Function) []fileOp {
	var out []fileOp
	for _, op := range statusFileOps(p) {
		if op.fn == fn {
			out = append(out, op)
		}
	}
	return out
}

// isParamValue: v is the parameter itself or a load of the cell it was spilled to.
func isParamValue(v ssa.Value, prm *ssa.Parameter) bool {
	if v == ssa.Value(prm) {
		return true
	}
	if u, ok := v.(*ssa.UnOp); ok && u.Op == token.MUL {
		if al, ok := u.X.(*ssa.Alloc); ok {
			if refs := al.Referrers(); refs != nil {
				n, hit := 0, false
				for _, rr := range *refs {
					if st, ok := rr.(*ssa.Store); ok && st.Addr == ssa.Value(al) {
						n++
						if st.Val == ssa.Value(prm) {
							hit = true
						}
					}
				}
				return n == 1 && hit
			}
		}
	}
	return false
}

// privateCodecCalls lists the calls in fn to an unexported function or method of fn's own package
// whose body calls the named standard function (json.Marshal: the record writer saveToFile;
// json.Unmarshal: the record reader loadFromFile).
func privateCodecCalls(fn *ssa.Function, std string) []ssa.CallInstruction {
	var out []ssa.CallInstruction
	for _, ci := range engine.CallsIn(fn) {
		c := ci.Common().StaticCallee()
		if c == nil || len(c.Blocks) == 0 || c.Pkg != fn.Pkg || c == fn {
			continue
		}
		if o, _ := c.Object().(*types.Func); o == nil || o.Exported() {
			continue
		}
		if len(callsTo(c, std)) > 0 {
			out = append(out, ci)
		}
	}
	return out
}
