package rules

import (
	"fmt"
	"go/token"
	"go/types"
	"sort"
	"strings"

	"golang.org/x/tools/go/ssa"

	"rcheck/engine"
)

func init() { register("C02", c02) }

type layoutItem struct {
	lo, hi int64 // hi = -1: to the end
	what   string
}

func (l layoutItem) String() string {
	if l.hi < 0 {
		return fmt.Sprintf("[%d:] %s", l.lo, l.what)
	}
	return fmt.Sprintf("[%d:%d] %s", l.lo, l.hi, l.what)
}

// writerLayout abstractly interprets translateDataFromMessage: the sequence of appends to the
// buffer with their sizes and the MessageData field each comes from.
func writerLayout(p *engine.Program, fn *ssa.Function) ([]layoutItem, string) {
	msg := fn.Params[1]
	var items []layoutItem
	off := int64(0)
	fieldOf := func(v ssa.Value) string {
		if f, b := engine.FieldOfLoad(v); f != nil && b == ssa.Value(msg) {
			return f.Name()
		}
		return ""
	}
	for _, b := range fn.Blocks {
		for _, in := range b.Instrs {
			ci, ok := in.(ssa.CallInstruction)
			if !ok {
				continue
			}
			switch {
			case engine.IsCallTo(ci.Common(), "(*bytes.Buffer).Write"):
				arg := engine.Unwrap(ci.Common().Args[1])
				switch x := arg.(type) {
				case *ssa.Slice:
					// slice of an array literal: size from the array type
					t := x.X.Type()
					if pt, ok := t.Underlying().(*types.Pointer); ok {
						t = pt.Elem()
					}
					if at, ok := t.Underlying().(*types.Array); ok {
						// which elements hold fields?
						what := []string{}
						if al, ok := x.X.(*ssa.Alloc); ok {
							for _, rr := range *al.Referrers() {
								if ia, ok := rr.(*ssa.IndexAddr); ok {
									idx, _ := engine.ConstInt(ia.Index)
									for _, r2 := range *ia.Referrers() {
										if st, ok := r2.(*ssa.Store); ok {
											if f := fieldOf(st.Val); f != "" {
												what = append(what, fmt.Sprintf("byte %d=%s", idx, f))
											} else if k, ok := engine.ConstInt(st.Val); ok {
												what = append(what, fmt.Sprintf("byte %d=%d", idx, k))
											}
										}
									}
								}
							}
						}
						sort.Strings(what)
						items = append(items, layoutItem{off, off + at.Len(), "header{" + strings.Join(what, ",") + "}"})
						off += at.Len()
						continue
					}
					return nil, "unrecognised slice written to the buffer"
				case *ssa.Call:
					if engine.IsCallTo(x.Common(), "netceptor.fixedLenBytesFromString") {
						n, ok := engine.ConstInt(x.Common().Args[1])
						if !ok {
							return nil, "fixedLenBytesFromString with a non-constant width"
						}
						items = append(items, layoutItem{off, off + n, fieldOf(x.Common().Args[0])})
						off += n
						continue
					}
					return nil, "unrecognised call result written to the buffer"
				default:
					if f := fieldOf(arg); f != "" {
						items = append(items, layoutItem{off, -1, f})
						continue
					}
					return nil, "unrecognised value written to the buffer"
				}
			case engine.IsCallTo(ci.Common(), "encoding/binary.Write"):
				// binary.Write(buf, BigEndian, uint64(AddNameHash(field)))
				order := ci.Common().Args[1]
				if !strings.Contains(order.String(), "BigEndian") && !isGlobalNamed(order, "BigEndian") {
					return nil, "binary.Write with a byte order other than BigEndian"
				}
				val := engine.Unwrap(ci.Common().Args[2])
				sz := int64(0)
				if bt, ok := val.Type().Underlying().(*types.Basic); ok {
					switch bt.Kind() {
					case types.Uint64, types.Int64:
						sz = 8
					case types.Uint32, types.Int32:
						sz = 4
					case types.Uint16, types.Int16:
						sz = 2
					}
				}
				src := ""
				if c, ok := val.(*ssa.Call); ok && engine.IsCallTo(c.Common(), "(*netceptor.Netceptor).AddNameHash") {
					src = "hash(" + fieldOf(c.Common().Args[1]) + ")"
				}
				if sz == 0 || src == "" {
					return nil, "binary.Write of an unrecognised value"
				}
				items = append(items, layoutItem{off, off + sz, src})
				off += sz
			}
		}
	}
	return items, ""
}

func isGlobalNamed(v ssa.Value, name string) bool {
	v = engine.Unwrap(v)
	if u, ok := v.(*ssa.UnOp); ok {
		v = u.X
	}
	g, ok := v.(*ssa.Global)
	return ok && g.Name() == name
}

// readerLayout: which constant slices of the packet feed which MessageData field in the decoder.
func readerLayout(p *engine.Program, fn *ssa.Function) ([]layoutItem, string) {
	data := fn.Params[1]
	var items []layoutItem
	// stores into the MessageData literal
	for _, b := range fn.Blocks {
		for _, in := range b.Instrs {
			st, ok := in.(*ssa.Store)
			if !ok {
				continue
			}
			fa, ok := st.Addr.(*ssa.FieldAddr)
			if !ok {
				continue
			}
			fv := engine.FieldAddrVar(fa)
			if fv == nil || fv.Pkg() == nil || !strings.HasSuffix(fv.Pkg().Path(), "netceptor") {
				continue
			}
			src, how := traceToSlice(st.Val, data, 0)
			if src == nil {
				if ld, ok := st.Val.(*ssa.UnOp); ok {
					if ia, ok := ld.X.(*ssa.IndexAddr); ok && ia.X == ssa.Value(data) {
						if k, ok := engine.ConstInt(ia.Index); ok {
							items = append(items, layoutItem{k, k + 1, fv.Name()})
							continue
						}
					}
				}
				return nil, "field " + fv.Name() + " is not filled from a constant slice of the packet"
			}
			lo, hi := int64(0), int64(-1)
			if src.Low != nil {
				k, ok := engine.ConstInt(src.Low)
				if !ok {
					return nil, "non-constant slice bound"
				}
				lo = k
			}
			if src.High != nil {
				k, ok := engine.ConstInt(src.High)
				if !ok {
					return nil, "non-constant slice bound"
				}
				hi = k
			}
			what := fv.Name()
			if how == "hash" {
				what = "hash(" + what + ")"
			}
			items = append(items, layoutItem{lo, hi, what})
		}
	}
	sort.Slice(items, func(i, j int) bool { return items[i].lo < items[j].lo })
	return items, ""
}

// traceToSlice follows v back to a constant slice of data through Uint64/GetNameFromHash or
// stringFromFixedLenBytes.
func traceToSlice(v ssa.Value, data ssa.Value, depth int) (*ssa.Slice, string) {
	if depth > 6 {
		return nil, ""
	}
	v = engine.Unwrap(v)
	switch x := v.(type) {
	case *ssa.Slice:
		if x.X == data {
			return x, "raw"
		}
	case *ssa.Extract:
		if c, ok := x.Tuple.(*ssa.Call); ok && engine.IsCallTo(c.Common(), "(*netceptor.Netceptor).GetNameFromHash") {
			if u, ok := engine.Unwrap(c.Common().Args[1]).(*ssa.Call); ok && strings.HasSuffix(engine.CalleeName(u.Common()), "Uint64") {
				args := u.Common().Args
				sl, _ := traceToSlice(args[len(args)-1], data, depth+1)
				if sl != nil && isGlobalNamed(args[0], "BigEndian") || (sl != nil && strings.Contains(engine.CalleeName(u.Common()), "bigEndian")) {
					return sl, "hash"
				}
			}
		}
	case *ssa.Call:
		if engine.IsCallTo(x.Common(), "netceptor.stringFromFixedLenBytes") {
			sl, _ := traceToSlice(x.Common().Args[0], data, depth+1)
			return sl, "fixed"
		}
	}
	return nil, ""
}

func c02(r *engine.Report, p *engine.Program) {
	r.Explanation = "Decides that encoder and decoder of the data-packet header agree byte for byte (layout tables extracted from both functions by abstract interpretation of the buffer writes and of the constant slices read, equal offsets/widths/fields, guard = header size, one service-name width at every site), that the stream framer's writer and reader use the same prefix width and byte order and that the framer copies — never retains — the caller's receive buffer, that the only delivery site hands a packet to the listener looked up under exactly ToService and only when ToNode == the local node ID under plain string equality, and that packet address fields are written only where a packet is decoded or originated (origin = local node ID, source address handed to the reader = the packet's From fields). It does not decide 64-bit name-hash collisions, at-most-once delivery or run-time fragmentation behaviour."
	r.NotDecided = []string{"64-bit name-hash collisions", "at-most-once delivery", "backend fragmentation at run time beyond the framer's copy discipline", "MTU enforcement"}
	r.Assumptions = []string{"bytes.Buffer.Write / binary.Write append exactly the bytes given", "append(dst, src...) copies src"}
	enc := p.Func("(*netceptor.Netceptor).translateDataFromMessage")
	dec := p.Func("(*netceptor.Netceptor).translateDataToMessage")
	hmd := p.Func("(*netceptor.Netceptor).handleMessageData")
	snd := p.Func("(*netceptor.Netceptor).SendMessageWithHopsToLive")
	rf := p.Func("(*netceptor.PacketConn).ReadFrom")
	if enc == nil || dec == nil || hmd == nil || snd == nil || rf == nil {
		r.Broken("C02 anchors not found")
		return
	}
	// R1 layout agreement
	wl, werr := writerLayout(p, enc)
	rl, rerr := readerLayout(p, dec)
	r.Extra["writer_layout"] = fmt.Sprint(wl)
	r.Extra["reader_layout"] = fmt.Sprint(rl)
	if werr != "" || rerr != "" {
		r.Add("R1-layout", "data packet: encoder/decoder layout extraction", enc.Pos(), engine.Undecided, "could not extract the layout tables: writer: "+werr+" reader: "+rerr)
	} else {
		// normalise: writer header item covers [0:4] with byte1=HopsToLive
		want := map[string]layoutItem{}
		hdr := int64(0)
		for _, it := range wl {
			if strings.HasPrefix(it.what, "header{") {
				if strings.Contains(it.what, "byte 1=HopsToLive") {
					want["HopsToLive"] = layoutItem{it.lo + 1, it.lo + 2, "HopsToLive"}
				}
				continue
			}
			name := it.what
			switch {
			case strings.HasPrefix(name, "hash("):
				want[name] = it
			default:
				want[name] = it
			}
			if it.hi > hdr {
				hdr = it.hi
			}
		}
		okL := len(want) == 6
		var diffs []string
		for _, it := range rl {
			w, ok := want[it.what]
			if !ok || w.lo != it.lo || w.hi != it.hi {
				okL = false
				diffs = append(diffs, fmt.Sprintf("reader %v vs writer %v", it, w))
			}
		}
		if len(rl) != 6 {
			okL = false
		}
		r.Check("R1-layout", "data packet: encoder and decoder layouts are equal", dec.Pos(), okL,
			fmt.Sprintf("writer %v = reader %v", wl, rl), fmt.Sprintf("encoder and decoder disagree: %v (writer %v, reader %v)", diffs, wl, rl))
		// guard constant = header size
		short, _ := engine.IntCmpEdges(dec, func(v ssa.Value) bool {
			c, ok := v.(*ssa.Call)
			if !ok {
				return false
			}
			b, ok := c.Common().Value.(*ssa.Builtin)
			return ok && b.Name() == "len" && c.Common().Args[0] == ssa.Value(dec.Params[1])
		}, 0, token.LSS, hdr)
		okG := len(short) > 0
		for _, e := range short {
			if reachFromEdge(dec, e, nil, nil, func(in ssa.Instruction) bool { _, ok := in.(*ssa.Slice); return ok }) != nil {
				okG = false
			}
		}
		// and nothing weaker: edges guaranteeing len >= hdr must cut every slice
		long, _ := engine.IntCmpEdges(dec, func(v ssa.Value) bool {
			c, ok := v.(*ssa.Call)
			if !ok {
				return false
			}
			b, ok := c.Common().Value.(*ssa.Builtin)
			return ok && b.Name() == "len" && c.Common().Args[0] == ssa.Value(dec.Params[1])
		}, 0, token.GEQ, hdr)
		if engine.Reach(dec, nil, engine.EdgeSet{}.Add(long...), nil, func(in ssa.Instruction) bool { _, ok := in.(*ssa.Slice); return ok }) != nil {
			okG = false
		}
		r.Check("R1-layout", fmt.Sprintf("data packet: decoder requires len(data) >= %d (the header size)", hdr), dec.Pos(), okG,
			"no slice of the packet is taken unless its length is at least the encoder's header size", "the decoder's minimum-length guard does not match the header size written by the encoder")
	}
	// one service-name width
	width := int64(-1)
	for _, it := range wl {
		if it.what == "FromService" {
			width = it.hi - it.lo
		}
	}
	for _, name := range []string{"(*netceptor.Netceptor).SendMessageWithHopsToLive", "(*netceptor.Netceptor).ListenPacket", "(*netceptor.Netceptor).ListenPacketAndAdvertise", "(*netceptor.Netceptor).listen"} {
		fn := p.Func(name)
		if fn == nil {
			r.Broken("%s not found", name)
			continue
		}
		tooLong, _ := engine.IntCmpEdges(fn, func(v ssa.Value) bool {
			c, ok := v.(*ssa.Call)
			if !ok {
				return false
			}
			b, ok := c.Common().Value.(*ssa.Builtin)
			return ok && b.Name() == "len" && c.Common().Args[0].Type().String() == "string"
		}, 0, token.GTR, width)
		fits, _ := engine.IntCmpEdges(fn, func(v ssa.Value) bool {
			c, ok := v.(*ssa.Call)
			if !ok {
				return false
			}
			b, ok := c.Common().Value.(*ssa.Builtin)
			return ok && b.Name() == "len" && c.Common().Args[0].Type().String() == "string"
		}, 0, token.LEQ, width)
		ok := len(tooLong) > 0 && len(fits) > 0
		for _, e := range tooLong {
			if reachFromEdge(fn, e, nil, nil, func(in ssa.Instruction) bool {
				ret, isR := in.(*ssa.Return)
				return isR && engine.IsNilConst(ret.Results[len(ret.Results)-1])
			}) != nil {
				ok = false
			}
		}
		r.Check("R1-layout", name+": service names longer than the wire width are refused", fn.Pos(), ok,
			fmt.Sprintf("a service name longer than %d bytes (the fixed field width of the encoder) only reaches failing returns", width), fmt.Sprintf("the service-name length guard does not match the wire width %d", width))
	}

	// R2 framer
	framerRules(r, p)

	// R3 delivery site
	recvChan := p.Field("netceptor", "PacketConn", "recvChan")
	reg := p.Field("netceptor", "Netceptor", "listenerRegistry")
	toService := p.Field("netceptor", "MessageData", "ToService")
	toNode := p.Field("netceptor", "MessageData", "ToNode")
	nodeID := p.Field("netceptor", "Netceptor", "nodeID")
	var sends []engine.Access
	for _, a := range p.FieldAccesses(recvChan) {
		if a.Kind == engine.AccSend && !engine.IsMock(a.Fn) {
			sends = append(sends, a)
		}
	}
	okS := len(sends) == 1 && sends[0].Fn == hmd
	r.Check("R3-delivery", "PacketConn.recvChan: the only sender is handleMessageData", hmd.Pos(), okS, "one delivery site", fmt.Sprintf("%d delivery sites", len(sends)))
	if okS {
		snd1 := sends[0]
		// the socket sent to is the lookup result of listenerRegistry[md.ToService]
		okLk := false
		if e, ok := engine.Unwrap(snd1.Base).(*ssa.Extract); ok && e.Index == 0 {
			if lk, ok := e.Tuple.(*ssa.Lookup); ok {
				f, _ := engine.FieldOfLoad(lk.X)
				kf, kb := engine.FieldOfLoad(lk.Index)
				okLk = f == reg && kf == toService && kb == ssa.Value(hmd.Params[1])
			}
		}
		r.Check("R3-delivery", "handleMessageData: delivered to listenerRegistry[md.ToService]", snd1.Instr.Pos(), okLk,
			"the socket whose receive channel gets the packet is exactly the registry entry for the packet's ToService", "the packet is delivered to a socket other than the one registered under md.ToService")
		// the value sent is md itself
		var sent ssa.Value
		switch x := snd1.Instr.(type) {
		case *ssa.Send:
			sent = x.X
		case *ssa.Select:
			for _, st := range x.States {
				if st.Dir == types.SendOnly {
					sent = st.Send
				}
			}
		}
		r.Check("R3-delivery", "handleMessageData: the packet delivered is the packet received", snd1.Instr.Pos(), sent == ssa.Value(hmd.Params[1]), "the MessageData handed to the listener is the function's own md", "a different packet object is delivered")
		// only when ToNode == s.nodeID, compared with ==
		eq, _ := valEqEdges(hmd, func(v ssa.Value) bool { f, b := engine.FieldOfLoad(v); return f == toNode && b == ssa.Value(hmd.Params[1]) }, fieldLoadIs(nodeID))
		okEq := len(eq) > 0 && engine.Reach(hmd, nil, engine.EdgeSet{}.Add(eq...), nil, func(in ssa.Instruction) bool { return in == snd1.Instr }) == nil
		r.Check("R3-delivery", "handleMessageData: local delivery only when md.ToNode == s.nodeID (exact)", snd1.Instr.Pos(), okEq,
			"the delivery is unreachable once the edges md.ToNode == s.nodeID (plain string equality) are removed", "local delivery is not guarded by exact equality of the destination node with the local node ID: a node can claim packets addressed to a different ID (e.g. one differing only in case)")
		// dispatchReservedService likewise
		for _, ci := range reservedDispatchSites(p, hmd) {
			ci := ci
			okD := len(eq) > 0 && engine.Reach(hmd, nil, engine.EdgeSet{}.Add(eq...), nil, func(in ssa.Instruction) bool { return in == ci }) == nil
			r.Check("R3-delivery", "handleMessageData: reserved services only for md.ToNode == s.nodeID", ci.Pos(), okD, "same guard", "reserved services are dispatched for packets not addressed to this node")
		}
	}
	// R4 address fields immutable
	for _, fname := range []string{"FromNode", "FromService", "ToNode", "ToService", "Data"} {
		f := p.Field("netceptor", "MessageData", fname)
		var writers []string
		ok := true
		for _, a := range p.FieldAccesses(f) {
			if a.Kind != engine.AccStore || engine.IsMock(a.Fn) {
				continue
			}
			writers = append(writers, engine.FuncName(a.Fn))
			if (a.Fn != dec && a.Fn != snd) || !engine.IsFreshAlloc(a.Base) {
				ok = false
			}
			if a.Fn == snd && fname == "FromNode" {
				if ff, _ := engine.FieldOfLoad(a.Instr.(*ssa.Store).Val); ff != nodeID {
					ok = false
				}
			}
		}
		sort.Strings(writers)
		r.Check("R4-immutable-address", "MessageData."+fname+": writers", token.NoPos, ok && len(writers) == 2,
			"written only in the decoder and in SendMessageWithHopsToLive, on a freshly built packet (origin = s.nodeID)", fmt.Sprintf("written in %v: a packet's addressing/payload can change in transit, or the origin is not the local node ID", writers))
	}
	// origination wiring: SendMessageWithHopsToLive(fromService, toNode, toService, data, _) builds
	// {FromService: fromService, ToNode: toNode (or own ID for the localhost alias), ToService: toService, Data: data};
	// WriteTo calls it with (pc.localService, addr.node, addr.service, p)
	{
		wantParam := map[string]int{"FromService": 1, "ToNode": 2, "ToService": 3, "Data": 4} // index into snd.Params (0 = receiver)
		got := map[string]string{}
		okW := len(snd.Params) >= 5
		for fname, pi := range wantParam {
			if !okW {
				break
			}
			f := p.Field("netceptor", "MessageData", fname)
			n := 0
			for _, a := range engine.FieldAccessesIn(snd, f) {
				st, isS := a.Instr.(*ssa.Store)
				if !isS || a.Kind != engine.AccStore {
					continue
				}
				n++
				v := engine.Unwrap(st.Val)
				good := isParamValue(v, snd.Params[pi])
				if ph, isPhi := v.(*ssa.Phi); isPhi && fname == "ToNode" {
					// localhost alias: phi(param, s.nodeID)
					good = true
					for _, e := range ph.Edges {
						ff, _ := engine.FieldOfLoad(e)
						if !isParamValue(e, snd.Params[pi]) && ff != nodeID {
							good = false
						}
					}
				}
				if good {
					got[fname] = snd.Params[pi].Name()
				} else {
					got[fname] = "?"
				}
			}
			if n != 1 || got[fname] == "?" {
				okW = false
			}
		}
		r.Check("R4-immutable-address", "SendMessageWithHopsToLive: each address/payload field is filled from its own parameter", snd.Pos(), okW,
			fmt.Sprintf("field ← parameter wiring %v (ToNode may be replaced by the own ID for the localhost alias)", got), fmt.Sprintf("field ← parameter wiring is %v: a packet is originated with swapped or foreign address fields", got))
		wt := p.Func("(*netceptor.PacketConn).WriteTo")
		okWT := false
		if wt != nil && len(wt.Params) >= 3 {
			for _, ci := range engine.CallsIn(wt) {
				c := ci.Common()
				if !(c.IsInvoke() && c.Method.Name() == "SendMessageWithHopsToLive") && !engine.IsCallTo(c, "(*netceptor.Netceptor).SendMessageWithHopsToLive") {
					continue
				}
				a := c.Args
				if !c.IsInvoke() {
					a = a[1:]
				}
				if len(a) < 4 {
					continue
				}
				f0, b0 := engine.FieldOfLoad(a[0])
				f1, _ := engine.FieldOfLoad(a[1])
				f2, _ := engine.FieldOfLoad(a[2])
				okWT = f0 != nil && f0.Name() == "localService" && isParamValue(b0, wt.Params[0]) &&
					f1 != nil && f1.Name() == "node" && f2 != nil && f2.Name() == "service" && isParamValue(a[3], wt.Params[1])
			}
		}
		r.Check("R4-immutable-address", "PacketConn.WriteTo: sends (own service, addr.node, addr.service, p)", token.NoPos, okWT,
			"the datagram is originated from the socket's own service to the node and service of the given address, with the caller's bytes", "WriteTo no longer passes (pc.localService, addr.node, addr.service, p) in that order")
	}
	// ReadFrom: source address = m.FromNode / m.FromService, count = copy(p, m.Data)
	{
		okA := true
		for _, spec := range [][2]string{{"node", "FromNode"}, {"service", "FromService"}} {
			af := p.Field("netceptor", "Addr", spec[0])
			found := false
			for _, a := range engine.FieldAccessesIn(rf, af) {
				if st, ok := a.Instr.(*ssa.Store); ok && a.Kind == engine.AccStore {
					if f, _ := engine.FieldOfLoad(st.Val); f != nil && f.Name() == spec[1] {
						found = true
					}
				}
			}
			if !found {
				okA = false
			}
		}
		okC := false
		for _, ci := range engine.CallsIn(rf) {
			if b, ok := ci.Common().Value.(*ssa.Builtin); ok && b.Name() == "copy" {
				if f, _ := engine.FieldOfLoad(ci.Common().Args[1]); f != nil && f.Name() == "Data" && isParamValue(ci.Common().Args[0], rf.Params[1]) {
					okC = true
				}
			}
		}
		r.Check("R4-immutable-address", "PacketConn.ReadFrom: payload and source address come from the packet", rf.Pos(), okA && okC,
			"ReadFrom copies m.Data into the caller's buffer and reports Addr{node: m.FromNode, service: m.FromService}", "ReadFrom no longer reports the packet's own From fields / payload")
	}
}

func framerRules(r *engine.Report, p *engine.Program) {
	sd := p.Func("(*framer.framer).SendData")
	mr := p.Func("(*framer.framer).messageReady")
	gm := p.Func("(*framer.framer).GetMessage")
	rd := p.Func("(*framer.framer).RecvData")
	if sd == nil || gm == nil || rd == nil {
		r.Broken("framer functions not found")
		return
	}
	// the readers of the length prefix: the private helper messageReady on the pinned tree; when it
	// is inlined, every framer method that decodes the prefix itself
	var readers []*ssa.Function
	if mr != nil {
		readers = []*ssa.Function{mr}
	} else {
		for _, fn := range p.Funcs() {
			if inPkg(fn, "framer") && !engine.IsMock(fn) {
				for _, ci := range engine.CallsIn(fn) {
					if strings.HasSuffix(engine.CalleeName(ci.Common()), "littleEndian).Uint16") {
						readers = append(readers, fn)
						break
					}
				}
			}
		}
		inGM := false
		for _, f := range readers {
			if f == gm {
				inGM = true
			}
		}
		if !inGM {
			r.Broken("framer: neither messageReady nor a length decode in GetMessage found")
			return
		}
	}
	// writer: PutUint16 on buf[0:2] with littleEndian, copy at buf[2:]
	wOK, rOK := false, false
	for _, ci := range engine.CallsIn(sd) {
		if strings.HasSuffix(engine.CalleeName(ci.Common()), "littleEndian).PutUint16") {
			if sl, ok := engine.Unwrap(ci.Common().Args[1]).(*ssa.Slice); ok {
				lo, _ := engine.ConstInt(sl.Low)
				hi, ok2 := engine.ConstInt(sl.High)
				wOK = ok2 && lo == 0 && hi == 2
			}
		}
	}
	copyAt2 := false
	for _, ci := range engine.CallsIn(sd) {
		if b, ok := ci.Common().Value.(*ssa.Builtin); ok && b.Name() == "copy" {
			if sl, ok := engine.Unwrap(ci.Common().Args[0]).(*ssa.Slice); ok {
				if lo, ok := engine.ConstInt(sl.Low); ok && lo == 2 && sl.High == nil && ci.Common().Args[1] == ssa.Value(sd.Params[1]) {
					copyAt2 = true
				}
			}
		}
	}
	rOK = true
	nR := 0
	for _, rdr := range readers {
		for _, ci := range engine.CallsIn(rdr) {
			if strings.HasSuffix(engine.CalleeName(ci.Common()), "littleEndian).Uint16") {
				nR++
				sl, ok := engine.Unwrap(ci.Common().Args[1]).(*ssa.Slice)
				if !ok {
					rOK = false
					continue
				}
				hi, ok2 := engine.ConstInt(sl.High)
				if !(ok2 && hi == 2 && sl.Low == nil) {
					rOK = false
				}
			}
		}
	}
	rOK = rOK && nR > 0
	r.Check("R2-framer", "framer: length prefix is 2 bytes little-endian on both sides, payload follows", sd.Pos(), wOK && rOK && copyAt2,
		"SendData writes LittleEndian.PutUint16(buf[0:2]) and the payload at buf[2:]; messageReady reads LittleEndian.Uint16(buffer[:2])", "framer writer and reader disagree on prefix width or byte order")
	// readiness: len(buffer) >= size+2 ; GetMessage returns [2:size+2] and keeps [size+2:]
	// readyCmp: v is `len(..) >= x+2` (or an equivalent spelling); holdsOnTrue tells its polarity
	readyCmp := func(v ssa.Value) (matched, holdsOnTrue bool) {
		bo, ok := v.(*ssa.BinOp)
		if !ok {
			return false, false
		}
		var sum ssa.Value
		switch bo.Op {
		case token.GEQ: // len >= sum
			sum, holdsOnTrue = bo.Y, true
		case token.LEQ: // sum <= len
			sum, holdsOnTrue = bo.X, true
		case token.LSS: // len < sum
			sum, holdsOnTrue = bo.Y, false
		case token.GTR: // sum > len
			sum, holdsOnTrue = bo.X, false
		default:
			return false, false
		}
		if add, ok := sum.(*ssa.BinOp); ok && add.Op == token.ADD {
			if k, ok := engine.ConstInt(add.Y); ok && k == 2 {
				return true, holdsOnTrue
			}
		}
		return false, false
	}
	okReady := true
	for _, rdr := range readers {
		found := false
		for _, b := range rdr.Blocks {
			for _, in := range b.Instrs {
				if v, isV := in.(ssa.Value); isV {
					if m, _ := readyCmp(v); m {
						found = true
					}
				}
			}
		}
		if !found {
			okReady = false
		}
	}
	var slices []*ssa.Slice
	for _, b := range gm.Blocks {
		for _, in := range b.Instrs {
			if sl, ok := in.(*ssa.Slice); ok {
				if hi, isC := engine.ConstInt(sl.High); isC && hi == 2 && sl.Low == nil {
					continue // the prefix handed to the length decoder (inlined messageReady)
				}
				slices = append(slices, sl)
			}
		}
	}
	okGet := len(slices) == 2
	if okGet {
		lo0, _ := engine.ConstInt(slices[0].Low)
		h0, isAdd0 := slices[0].High.(*ssa.BinOp)
		l1, isAdd1 := slices[1].Low.(*ssa.BinOp)
		okGet = lo0 == 2 && isAdd0 && isAdd1 && slices[1].High == nil
		if okGet {
			k0, _ := engine.ConstInt(h0.Y)
			k1, _ := engine.ConstInt(l1.Y)
			okGet = k0 == 2 && k1 == 2 && h0.X == l1.X
		}
	}
	// guarded by ready
	guard := false
	if mr != nil {
		for _, ci := range callsTo(gm, "(*framer.framer).messageReady") {
			rdy := callResult(ci.(*ssa.Call), 1)
			if len(rdy) == 1 {
				tE, _ := engine.CondEdges(gm, func(c ssa.Value) (bool, bool) { return c == rdy[0], true })
				guard = len(tE) > 0 && len(slices) > 0 && engine.Reach(gm, nil, engine.EdgeSet{}.Add(tE...), nil, func(in ssa.Instruction) bool { return in == ssa.Instruction(slices[0]) }) == nil
			}
		}
	} else {
		tE, _ := engine.CondEdges(gm, readyCmp)
		guard = len(tE) > 0 && len(slices) > 0 && engine.Reach(gm, nil, engine.EdgeSet{}.Add(tE...), nil, func(in ssa.Instruction) bool { return in == ssa.Instruction(slices[0]) }) == nil
	}
	r.Check("R2-framer", "framer: a message is cut out only when complete, as [2:size+2], keeping [size+2:]", gm.Pos(), okReady && okGet && guard,
		"messageReady requires len(buffer) >= size+2; GetMessage slices only on its ready edge, returns buffer[2:size+2] and keeps buffer[size+2:]", "the framer can cut a message before it is complete, or returns/keeps the wrong byte ranges")
	// RecvData never retains the caller's buffer
	retained := []string{}
	buf := rd.Params[1]
	for _, b := range rd.Blocks {
		for _, in := range b.Instrs {
			if st, ok := in.(*ssa.Store); ok {
				v := engine.Unwrap(st.Val)
				if v == ssa.Value(buf) {
					retained = append(retained, "store at "+p.Pos(st.Pos()))
				}
				if sl, ok := v.(*ssa.Slice); ok && sl.X == ssa.Value(buf) {
					retained = append(retained, "store of a sub-slice at "+p.Pos(st.Pos()))
				}
				if ph, ok := v.(*ssa.Phi); ok {
					for _, e := range ph.Edges {
						if engine.Unwrap(e) == ssa.Value(buf) {
							retained = append(retained, "store (merged) at "+p.Pos(st.Pos()))
						}
					}
				}
			}
		}
	}
	appends := 0
	for _, ci := range engine.CallsIn(rd) {
		if b, ok := ci.Common().Value.(*ssa.Builtin); ok && b.Name() == "append" {
			appends++
		}
	}
	r.Check("R2-framer", "framer.RecvData copies the caller's bytes and never keeps the caller's slice", rd.Pos(), len(retained) == 0 && appends == 1,
		"received bytes are appended (copied) to the framer's own buffer; the backends reuse their read buffer for the next read", fmt.Sprintf("RecvData keeps a reference to the caller's read buffer (%v): the next read of the backend overwrites a partially received frame", retained))
	streamReaderKeepsBytes(r, p)
	sizeIndependentPath(r, p)
	nameHashRules(r, p)
	bindOnceRule(r, p, "R3-delivery")
	// the hand-over to a listener is synchronous: recvChan is unbuffered, so a local sender's
	// WriteTo returns only after the reader has taken the datagram (the payload slice is the
	// sender's own buffer — nothing may still reference it after the send returns)
	{
		rc := p.Field("netceptor", "PacketConn", "recvChan")
		n, okU := 0, true
		for _, a := range p.FieldAccesses(rc) {
			if a.Kind != engine.AccStore || engine.IsMock(a.Fn) {
				continue
			}
			if mk, isMk := engine.Unwrap(a.Instr.(*ssa.Store).Val).(*ssa.MakeChan); isMk {
				n++
				if k, isC := engine.ConstInt(mk.Size); !isC || k != 0 {
					okU = false
				}
			}
		}
		r.Check("R3-delivery", "PacketConn.recvChan is unbuffered", token.NoPos, okU && n >= 2,
			fmt.Sprintf("%d construction sites, all make(chan *MessageData) without capacity", n),
			"the receive channel is buffered: a same-node WriteTo returns while the queued datagram still points at the sender's buffer, so a sender that reuses its buffer overwrites datagrams that are waiting to be read")
	}
	// service names are decoded byte for byte: the decoder returns string(bytes[:k]) of its input
	if sf := p.Func("netceptor.stringFromFixedLenBytes"); sf != nil {
		ok := true
		nRet := 0
		for _, ret := range engine.Returns(sf) {
			v := ret.Results[0]
			if s0, isC := engine.ConstString(v); isC && s0 == "" {
				continue
			}
			nRet++
			cv, isCv := v.(*ssa.Convert)
			if !isCv {
				ok = false
				continue
			}
			sl, isSl := cv.X.(*ssa.Slice)
			if !isSl || engine.Unwrap(sl.X) != ssa.Value(sf.Params[0]) || sl.Low != nil {
				ok = false
			}
		}
		for _, ci := range engine.CallsIn(sf) {
			if o := engine.CalleeObj(ci.Common()); o != nil && (o.Name() == "WriteRune" || o.Name() == "AppendRune" || o.Name() == "EncodeRune") {
				ok = false
			}
		}
		r.Check("R1-layout", "stringFromFixedLenBytes: a service name is the prefix bytes[:k] of the wire field, converted as bytes", sf.Pos(), ok && nRet > 0,
			"every non-empty result is string(bytes[:k]) of the input slice; no rune encoding", "the decoder re-encodes the field (rune by rune) or returns something other than a prefix of the wire bytes: service names with bytes >= 0x80 change on the wire, so the datagram goes to a different listener and reports a different source")
	} else {
		r.Broken("stringFromFixedLenBytes not found")
	}
	// path lengths up to the hop limit: the forwarding budget is tested before it is decremented
	// and decremented exactly once per relay (clauses decided by C10's rules)
	{
		sub := engine.NewReport("C10", r.Tier, p)
		c10(sub, p)
		if r.ImportFrom(sub, "R7-hop-accounting", "R2-positive-budget", "R3-decrement") < 2 {
			r.Broken("C10 hop-accounting obligations not generated")
		}
	}
	if rpf := p.Func("(*netceptor.Netceptor).runProtocol"); rpf != nil {
		okD, whyD := decodedAlwaysDispatched(p, rpf)
		r.Check("R3-delivery", "runProtocol: every successfully decoded data packet is handed to handleMessageData", rpf.Pos(), okD,
			"from the decode, assuming it succeeded, the next select/return is unreachable without passing handleMessageData", whyD)
	}
}

// sizeIndependentPath: a payload of any length up to the advertised MTU takes the same path. On
// the send / forward / deliver path no branch may depend on the length of the payload or of the
// encoded message, except a refusal of payloads strictly longer than the MTU (len(payload) > mtu).
func sizeIndependentPath(r *engine.Report, p *engine.Program) {
	names := []string{"(*netceptor.PacketConn).WriteTo", "(*netceptor.Netceptor).sendMessage", "(*netceptor.Netceptor).SendMessageWithHopsToLive",
		"(*netceptor.Netceptor).forwardMessage", "(*netceptor.Netceptor).handleMessageData", "(*netceptor.Netceptor).translateDataFromMessage"}
	mtu := p.Field("netceptor", "Netceptor", "mtu")
	dataF := p.Field("netceptor", "MessageData", "Data")
	isByteLen := func(v ssa.Value) (ssa.Value, bool) {
		v = engine.Unwrap(v)
		c, ok := v.(*ssa.Call)
		if !ok {
			return nil, false
		}
		b, ok := c.Common().Value.(*ssa.Builtin)
		if !ok || b.Name() != "len" {
			return nil, false
		}
		a := c.Common().Args[0]
		if sl, ok := a.Type().Underlying().(*types.Slice); ok {
			if bt, ok := sl.Elem().Underlying().(*types.Basic); ok && bt.Kind() == types.Uint8 {
				return a, true
			}
		}
		return nil, false
	}
	isMTU := func(v ssa.Value) bool {
		v = engine.Unwrap(v)
		if f, _ := engine.FieldOfLoad(v); f != nil && f == mtu {
			return true
		}
		if c, ok := v.(*ssa.Call); ok {
			if o := engine.CalleeObj(c.Common()); o != nil && o.Name() == "MTU" {
				return true
			}
		}
		return false
	}
	nIfs, nFns := 0, 0
	var bad []string
	for _, n := range names {
		fn := p.Func(n)
		if fn == nil {
			r.Broken("datagram path function %s not found", n)
			continue
		}
		nFns++
		var fns []*ssa.Function
		fns = append(fns, fn)
		fns = append(fns, fn.AnonFuncs...)
		for _, f := range fns {
			for _, i := range engine.Ifs(f) {
				nIfs++
				c := i.Cond
				for {
					u, ok := c.(*ssa.UnOp)
					if !ok || u.Op != token.NOT {
						break
					}
					c = u.X
				}
				bo, ok := c.(*ssa.BinOp)
				if !ok {
					continue
				}
				subj, isL := isByteLen(bo.X)
				other, op := bo.Y, bo.Op
				if !isL {
					subj, isL = isByteLen(bo.Y)
					other, op = bo.X, flipOp(bo.Op)
				}
				if !isL {
					continue
				}
				// permitted: len(payload) > mtu / len(payload) <= mtu, payload = md.Data or a []byte parameter
				payload := false
				if fl, _ := engine.FieldOfLoad(subj); fl != nil && fl == dataF {
					payload = true
				}
				if _, isP := engine.Unwrap(subj).(*ssa.Parameter); isP {
					payload = true
				}
				if payload && isMTU(other) && (op == token.GTR || op == token.LEQ) {
					continue
				}
				bad = append(bad, fmt.Sprintf("%s at %s", engine.FuncName(f), p.Pos(i.Cond.Pos())))
			}
		}
	}
	r.Check("R5-size-independent", "send/forward/deliver path: no branch on the payload or message length (other than payload > MTU)", token.NoPos, len(bad) == 0 && nFns == len(names),
		fmt.Sprintf("%d branch conditions in %d path functions inspected; none compares the length of a byte slice, so every payload size 0..MTU takes the same path", nIfs, nFns),
		"a branch depends on a length: "+strings.Join(bad, "; ")+" — payloads of some sizes up to the advertised MTU are refused or treated differently (e.g. the 36-byte header counted against the MTU)")
}

// streamReaderKeepsBytes: the external-backend stream reader works over an arbitrary net.Conn,
// whose Read may return n > 0 together with an error (io.Reader contract), and its timeout return
// is retried by protoReader. Every byte read must therefore reach the framer before any return:
// from the Read call, with the n <= 0 outcomes removed, no return is reachable without RecvData.
func streamReaderKeepsBytes(r *engine.Report, p *engine.Program) {
	fn := p.Func("(*netceptor.netMessageConn).ReadMessage")
	if fn == nil {
		r.Broken("(*netceptor.netMessageConn).ReadMessage not found")
		return
	}
	var read *ssa.Call
	var recv []ssa.Instruction
	for _, ci := range engine.CallsIn(fn) {
		c := ci.Common()
		if c.IsInvoke() && c.Method.Name() == "Read" {
			read, _ = ci.(*ssa.Call)
		}
		if o := engine.CalleeObj(c); o != nil && o.Name() == "RecvData" {
			recv = append(recv, ci)
		}
	}
	ok := read != nil && len(recv) > 0
	why := "the Read call on the connection or the RecvData call was not found"
	if ok {
		var n ssa.Value
		for _, v := range callResult(read, 0) {
			n = v
		}
		// the bytes handed to the framer are buf[:n] of this read
		okArg := false
		for _, rc := range recv {
			args := rc.(ssa.CallInstruction).Common().Args
			if sl, isS := engine.Unwrap(args[len(args)-1]).(*ssa.Slice); isS && n != nil && sl.High == n && sl.Low == nil && engine.Unwrap(sl.X) == engine.Unwrap(read.Common().Args[0]) {
				okArg = true
			}
		}
		pos, _ := engine.IntCmpEdges(fn, func(v ssa.Value) bool { return v == n }, 0, token.GTR, 0)
		_ = pos
		_, nonpos := engine.IntCmpEdges(fn, func(v ssa.Value) bool { return v == n }, 0, token.GTR, 0)
		cut := engine.EdgeSet{}.Add(nonpos...)
		isRecv := func(in ssa.Instruction) bool { return isOneOf(in, recv) }
		lost := engine.Reach(fn, read, cut, isRecv, func(in ssa.Instruction) bool { _, isR := in.(*ssa.Return); return isR })
		if !okArg {
			ok = false
			why = "RecvData is not given buf[:n] of the buffer and count of this Read"
		} else if lost != nil {
			ok = false
			why = "after Read returned n > 0 a return at " + descInstr(p, lost) + " is reachable without handing the bytes to the framer: a fragment read together with a deadline error is discarded, the retry continues mid-frame and the stream is mis-framed from then on"
		}
	}
	r.Check("R2-framer", "netMessageConn.ReadMessage: bytes read always reach the framer before a return", fn.Pos(), ok,
		"from the Read call, with the n <= 0 outcomes removed, every path to a return passes framer.RecvData(buf[:n]) (the TCP/websocket sessions read from connections they create themselves, whose Read never returns data together with a deadline error)", why)
}
