package rules

import (
	"fmt"
	"go/constant"
	"go/types"
	"strings"

	"golang.org/x/tools/go/ssa"

	"rcheck/engine"
)

// isMethodCall: call (static or interface) of a method named name whose receiver type lives in
// one of the receptor packages listed.
func isMethodCall(ci ssa.CallInstruction, name string, pkgs ...string) bool {
	o := engine.CalleeObj(ci.Common())
	if o == nil || o.Name() != name || o.Pkg() == nil {
		return false
	}
	for _, pk := range pkgs {
		if strings.HasSuffix(o.Pkg().Path(), "/"+pk) {
			sig, _ := o.Type().(*types.Signature)
			return sig != nil && sig.Recv() != nil
		}
	}
	return false
}

// stateWrite is a write of a work state: UpdateBasicStatus(state, …) or a store to
// StatusFileData.State.
type stateWrite struct {
	in    ssa.Instruction
	state int64 // -1 if not constant
	val   ssa.Value
}

func stateWrites(p *engine.Program, fn *ssa.Function) []stateWrite {
	var out []stateWrite
	stateF := p.Field("workceptor", "StatusFileData", "State")
	for _, b := range fn.Blocks {
		for _, in := range b.Instrs {
			switch x := in.(type) {
			case ssa.CallInstruction:
				if isMethodCall(x, "UpdateBasicStatus", "workceptor") {
					args := x.Common().Args
					var sv ssa.Value
					sig := x.Common().Signature()
					// parameters: (filename?) state, detail, stdoutSize — state is the first int param
					off := 0
					if !x.Common().IsInvoke() {
						off = 1
					}
					for i := 0; i < sig.Params().Len(); i++ {
						if b, ok := sig.Params().At(i).Type().Underlying().(*types.Basic); ok && b.Kind() == types.Int {
							sv = args[off+i]
							break
						}
					}
					if sv == nil {
						continue
					}
					sw := stateWrite{in: in, state: -1, val: sv}
					if k, ok := engine.ConstInt(sv); ok {
						sw.state = k
					}
					out = append(out, sw)
				}
			case *ssa.Store:
				if fa, ok := x.Addr.(*ssa.FieldAddr); ok && engine.FieldAddrVar(fa) == stateF {
					sw := stateWrite{in: in, state: -1, val: x.Val}
					if k, ok := engine.ConstInt(x.Val); ok {
						sw.state = k
					}
					out = append(out, sw)
				}
			}
		}
	}
	return out
}

func stageOf(state int64) int {
	switch state {
	case 0:
		return 0
	case 1:
		return 1
	case 2, 3, 4:
		return 2
	}
	return -1
}

func stateName(s int64) string {
	switch s {
	case 0:
		return "Pending"
	case 1:
		return "Running"
	case 2:
		return "Succeeded"
	case 3:
		return "Failed"
	case 4:
		return "Canceled"
	}
	return fmt.Sprint(s)
}

// statusPathOpens: calls in package workceptor that open / create / truncate / rename / remove a
// path derived from a status file name: parameter `filename` of a StatusFileData method, the
// statusFileName field, StatusFileName() or path.Join(…, "status").
type fileOp struct {
	fn    *ssa.Function
	call  ssa.CallInstruction
	name  string
	flags int64
	hasFl bool
}

func derivesFromStatusPath(v ssa.Value, depth int) bool {
	if depth > 6 {
		return false
	}
	v = engine.Unwrap(v)
	switch x := v.(type) {
	case *ssa.Parameter:
		fn := x.Parent()
		if x.Name() == "filename" && fn.Signature.Recv() != nil && strings.Contains(fn.Signature.Recv().Type().String(), "StatusFileData") {
			return true
		}
	case *ssa.Call:
		if engine.IsCallTo(x.Common(), "path.Join", "path/filepath.Join") {
			for _, a := range x.Common().Args {
				if sl, ok := a.(*ssa.Slice); ok {
					// variadic args array: look at stores into it
					if al, ok := sl.X.(*ssa.Alloc); ok {
						for _, r := range *al.Referrers() {
							if ia, ok := r.(*ssa.IndexAddr); ok {
								for _, rr := range *ia.Referrers() {
									if st, ok := rr.(*ssa.Store); ok {
										if s, ok := engine.ConstString(st.Val); ok && s == "status" {
											return true
										}
									}
								}
							}
						}
					}
				}
				if s, ok := engine.ConstString(a); ok && s == "status" {
					return true
				}
			}
		}
		if o := engine.CalleeObj(x.Common()); o != nil && o.Name() == "StatusFileName" {
			return true
		}
	case *ssa.UnOp:
		if f, _ := engine.FieldOfLoad(x); f != nil && f.Name() == "statusFileName" {
			return true
		}
		// a parameter spilled to a cell because a closure captures it
		if al, ok := x.X.(*ssa.Alloc); ok {
			if refs := al.Referrers(); refs != nil {
				for _, rr := range *refs {
					if st, ok := rr.(*ssa.Store); ok && st.Addr == ssa.Value(al) {
						if derivesFromStatusPath(st.Val, depth+1) {
							return true
						}
					}
				}
			}
		}
	case *ssa.Phi:
		for _, e := range x.Edges {
			if derivesFromStatusPath(e, depth+1) {
				return true
			}
		}
	}
	return false
}

func statusFileOps(p *engine.Program) []fileOp {
	var out []fileOp
	for _, fn := range p.Funcs() {
		if !inPkg(fn, "workceptor") || engine.IsMock(fn) {
			continue
		}
		for _, ci := range engine.CallsIn(fn) {
			o := engine.CalleeObj(ci.Common())
			if o == nil || o.Pkg() == nil {
				continue
			}
			full := o.FullName()
			switch full {
			case "os.OpenFile", "os.Open", "os.Create", "os.WriteFile", "os.Rename", "os.Remove", "os.Truncate", "os.ReadFile":
				args := ci.Common().Args
				if len(args) == 0 || !derivesFromStatusPath(args[0], 0) {
					if full == "os.Rename" && len(args) > 1 && derivesFromStatusPath(args[1], 0) {
						// rename onto the status file
					} else {
						continue
					}
				}
				op := fileOp{fn: fn, call: ci, name: full}
				if full == "os.OpenFile" && len(args) > 1 {
					if k, ok := constIntDeep(args[1]); ok {
						op.flags, op.hasFl = k, true
					}
				}
				out = append(out, op)
			}
		}
	}
	return out
}

// constIntDeep evaluates integer constants combined with | or + (flag expressions are folded by
// the type checker, so this is normally a single constant).
func constIntDeep(v ssa.Value) (int64, bool) {
	if k, ok := engine.ConstInt(v); ok {
		return k, true
	}
	if c, ok := v.(*ssa.Const); ok && c.Value != nil && c.Value.Kind() == constant.Int {
		k, ok := constant.Int64Val(c.Value)
		return k, ok
	}
	return 0, false
}

// assumeFails: starting right after call, follow only the non-nil edges of every nil test of a
// value the call's error can flow into; returns (cut set, true) or (nil,false) if the error is
// never tested.
func assumeFails(fn *ssa.Function, call *ssa.Call) (engine.EdgeSet, bool) {
	idx := errIndex(call.Common().Signature())
	if idx < 0 {
		return nil, false
	}
	flows := map[ssa.Value]bool{}
	var grow func(v ssa.Value)
	grow = func(v ssa.Value) {
		if flows[v] {
			return
		}
		flows[v] = true
		if refs := v.Referrers(); refs != nil {
			for _, rr := range *refs {
				switch x := rr.(type) {
				case *ssa.Phi:
					grow(x)
				case *ssa.MakeInterface:
					grow(x)
				case *ssa.ChangeInterface:
					grow(x)
				}
			}
		}
	}
	for _, v := range callResult(call, idx) {
		grow(v)
	}
	isNilE, _ := engine.NilCmpEdges(fn, func(v ssa.Value) bool { return flows[v] })
	return engine.EdgeSet{}.Add(isNilE...), len(isNilE) > 0
}
