package rules

import (
	"strings"
	"fmt"
	"go/token"
	"go/types"

	"golang.org/x/tools/go/ssa"

	"rcheck/engine"
)

func init() { register("C18", c18) }

func c18(r *engine.Report, p *engine.Program) {
	r.Explanation = "Decides the acceptance guard, relay discipline and withdrawal ordering of service advertisements: when handleServiceAdvertisement already holds an entry for (node, service), every write to the table and the relay are unreachable unless the incoming record's Time is After the held one — for advertisements and withdrawals alike; the relay happens after acceptance and excludes the connection the record came from; the decoded record's body is nil-checked before use; closing an advertised socket removes it from the listener registry, under the listener lock, before its withdrawal (stamped time.Now(), Cancel=true) is flooded, so the periodic advertiser cannot re-advertise it afterwards; sendServiceAds advertises exactly the registry entries flagged advertise with their own type and tags; and — one-sided comparison — since records are ordered by time while an entry exists, the withdrawal arm must retain the withdrawal time for later comparisons: it only deletes (known finding K5). It does not decide convergence, expiry of advertisements of dead nodes, or late joiners."
	r.NotDecided = []string{"convergence over delivery orders", "expiry of advertisements of dead nodes", "late joiners"}
	r.Assumptions = []string{"time.Time.After is a strict order on the owner's clock"}
	hsa := p.Func("(*netceptor.Netceptor).handleServiceAdvertisement")
	pcc := p.Func("(*netceptor.PacketConn).Close")
	rla := p.Func("(*netceptor.Netceptor).RemoveLocalServiceAdvertisement")
	ssa_ := p.Func("(*netceptor.Netceptor).sendServiceAds")
	ads := p.Field("netceptor", "Netceptor", "serviceAdsReceived")
	adsLock := p.Field("netceptor", "Netceptor", "serviceAdsLock")
	if hsa == nil || pcc == nil || rla == nil || ssa_ == nil || ads == nil {
		r.Broken("C18 anchors not found")
		return
	}
	// table writes and relay in the handler
	var writes []ssa.Instruction
	for _, a := range engine.FieldAccessesIn(hsa, ads) {
		if a.Kind == engine.AccMapUpdate || a.Kind == engine.AccMapDelete {
			writes = append(writes, a.Instr)
		}
	}
	floods := callsTo(hsa, "(*netceptor.Netceptor).flood")
	if len(floods) != 1 || len(writes) < 2 {
		r.Add("R1-acceptance", "handleServiceAdvertisement: table writes and relay", hsa.Pos(), engine.Violated, fmt.Sprintf("expected table writes and exactly one relay, found %d writes, %d relays", len(writes), len(floods)))
		return
	}
	relay := floods[0]
	// the first write creating the per-node map for an unknown node is not an acceptance effect: writes
	// whose map is the top-level table with a MakeMap value
	var effects []ssa.Instruction
	for _, w := range writes {
		if mu, ok := w.(*ssa.MapUpdate); ok {
			if _, isMk := mu.Value.(*ssa.MakeMap); isMk {
				continue
			}
		}
		effects = append(effects, w)
	}
	isEffect := func(in ssa.Instruction) bool { return isOneOf(in, effects) || in == ssa.Instruction(relay) }
	// R1: entry exists ⇒ effects only on Time.After true
	var held *ssa.Lookup
	for _, b := range hsa.Blocks {
		for _, in := range b.Instrs {
			if lk, ok := in.(*ssa.Lookup); ok && lk.CommaOk {
				if mt, ok := lk.X.Type().Underlying().(*types.Map); ok {
					if pt, ok := mt.Elem().Underlying().(*types.Pointer); ok && pt.Elem().String() == engine.ModPath+"/pkg/netceptor.ServiceAdvertisement" {
						held = lk
					}
				}
			}
		}
	}
	var after *ssa.Call
	for _, ci := range callsTo(hsa, "(time.Time).After") {
		after, _ = ci.(*ssa.Call)
	}
	if held == nil || after == nil {
		r.Add("R1-acceptance", "handleServiceAdvertisement: held-entry lookup and Time.After comparison", hsa.Pos(), engine.Violated, "the lookup of the held advertisement or the Time.After comparison was not found")
	} else {
		exists, _ := engine.CondEdges(hsa, func(c ssa.Value) (bool, bool) {
			e, ok := c.(*ssa.Extract)
			return ok && e.Index == 1 && e.Tuple == ssa.Value(held), true
		})
		newer, _ := engine.CondEdges(hsa, func(c ssa.Value) (bool, bool) { return c == ssa.Value(after), true })
		// After compares incoming.Time with held.Time
		recvT, _ := engine.FieldOfLoad(after.Common().Args[0])
		argT, argB := engine.FieldOfLoad(after.Common().Args[1])
		okArgs := recvT != nil && recvT.Name() == "Time" && argT != nil && argT.Name() == "Time"
		if okArgs {
			// the argument's base is the held entry
			okArgs = false
			if e, ok := engine.Unwrap(argB).(*ssa.Extract); ok && e.Tuple == ssa.Value(held) && e.Index == 0 {
				okArgs = true
			}
		}
		ok := len(exists) > 0 && len(newer) > 0 && okArgs
		var hit ssa.Instruction
		if ok {
			cut := engine.EdgeSet{}.Add(newer...)
			for _, e := range exists {
				if h := reachFromEdge(hsa, e, cut, nil, isEffect); h != nil {
					ok = false
					hit = h
				}
			}
		}
		r.Check("R1-acceptance", "handleServiceAdvertisement: with an entry held, only a strictly newer record has any effect", after.Pos(), ok,
			"from the 'entry exists' edge, with the si.Time.After(held.Time) == true edges removed, no table write and no relay is reachable (withdrawals included)",
			"an advertisement or withdrawal that is not newer than the held record can change the table or be relayed ("+descInstr(p, hit)+"): an older record replaces a newer one / a stale withdrawal removes a re-opened service")
	}
	// R2 relay excludes the sender
	r.Check("R2-relay", "handleServiceAdvertisement: relay excludes the receiving connection and forwards the received bytes", relay.Pos(),
		relay.Common().Args[2] == ssa.Value(hsa.Params[2]) && relay.Common().Args[1] == ssa.Value(hsa.Params[1]),
		"flood(data, receivedFrom) with the function's own parameters", "the relay does not exclude the connection the record came from, or re-encodes it")
	// R2b every accepted record is relayed: from each table write, every path to a return passes the relay
	{
		isRelay := func(in ssa.Instruction) bool { return in == ssa.Instruction(relay) }
		var miss ssa.Instruction
		for _, w := range effects {
			if h := engine.Reach(hsa, w, nil, isRelay, func(in ssa.Instruction) bool { _, ok := in.(*ssa.Return); return ok }); h != nil {
				miss = w
			}
		}
		r.Check("R2-relay", "handleServiceAdvertisement: every record that changes the table is relayed", relay.Pos(), miss == nil,
			fmt.Sprintf("from each of the %d table updates every path to a return passes flood(): periodic refreshes travel hop by hop, which is how late joiners behind a relay learn a service", len(effects)),
			"after the table update "+descInstr(p, miss)+" a return is reachable without relaying the record: nodes behind this one never learn (or never refresh) the service")
	}
	// R1b test and update are one serviceAdsLock write section
	if held != nil {
		reads := []ssa.Instruction{held}
		if after != nil {
			reads = append(reads, after)
		}
		ok, why := atomicSection(p, hsa, adsLock, reads, effects)
		r.Check("R1-atomic", "handleServiceAdvertisement: newer-than test + table update in one serviceAdsLock write section", held.Pos(), ok,
			fmt.Sprintf("the held-entry lookup, the Time.After comparison and the %d table updates all run under the serviceAdsLock write lock with no release in between", len(effects)),
			why+" — two copies of different age arriving on two links can both pass the test and the older one can be written last")
	}
	// R5b who stamps an advertisement, and under which lock: only the owner side sets
	// ServiceAdvertisement.Time — the periodic advertiser while it holds listenerLock over its
	// snapshot of the registry (Close stamps the withdrawal under the same lock, so no advertisement
	// of a listener can carry a later time than that listener's withdrawal), the local add/remove
	// helpers, and Status() on its private display copy. A receiver never restamps what it stores.
	{
		tf := p.Field("netceptor", "ServiceAdvertisement", "Time")
		ll := p.Field("netceptor", "Netceptor", "listenerLock")
		allowed := map[string]string{
			"(*netceptor.Netceptor).sendServiceAds":                   "periodic advertiser, under listenerLock",
			"(*netceptor.Netceptor).AddLocalServiceAdvertisement":     "owner-side table entry when a listener opens",
			"(*netceptor.Netceptor).RemoveLocalServiceAdvertisement":  "the withdrawal, stamped by Close under listenerLock",
			"(*netceptor.Netceptor).Status":                           "display copy of the node's own entries",
		}
		var bad []string
		n := 0
		for _, a := range p.FieldAccesses(tf) {
			if a.Kind != engine.AccStore || engine.IsMock(a.Fn) || !inPkg(a.Fn, "netceptor") {
				continue
			}
			n++
			name := engine.FuncName(engine.Outermost(a.Fn))
			if allowed[name] == "" {
				helper := engine.Outermost(a.Fn)
				if privateHelperOf(p, helper, map[string]bool{"(*netceptor.Netceptor).sendServiceAds": true}) == "" {
					bad = append(bad, name+" at "+p.Pos(a.Instr.Pos()))
					continue
				}
				// a helper of the advertiser: every call site must hold listenerLock
				if obj, _ := helper.Object().(*types.Func); obj != nil {
					for _, cs := range p.CallSitesOf(obj) {
						held := false
						for k := range p.Locks(cs.Parent()).HeldAt(cs) {
							if strings.HasSuffix(k, ll.Name()) {
								held = true
							}
						}
						if !held {
							bad = append(bad, name+" (called without listenerLock at "+p.Pos(cs.Pos())+")")
						}
					}
				}
				continue
			}
			if name == "(*netceptor.Netceptor).sendServiceAds" {
				// the value is time.Now() evaluated with listenerLock held
				st := a.Instr.(*ssa.Store)
				c, isC := engine.Unwrap(st.Val).(*ssa.Call)
				held := false
				if isC && engine.IsCallTo(c.Common(), "time.Now") {
					for k := range p.Locks(a.Fn).HeldAt(c) {
						if strings.HasSuffix(k, "."+ll.Name()) || strings.HasSuffix(k, ll.Name()) {
							held = true
						}
					}
				}
				if !held {
					bad = append(bad, name+": stamp not taken under listenerLock at "+p.Pos(a.Instr.Pos()))
				}
			}
		}
		r.Check("R5-advertiser", "ServiceAdvertisement.Time: stamped only by the owner side, the periodic one under listenerLock", token.NoPos, len(bad) == 0 && n >= 4,
			fmt.Sprintf("%d store(s), all in the frozen owner-side table; the advertiser's time.Now() runs with listenerLock held", n),
			"the advertisement time is written in "+strings.Join(bad, ", ")+": the order of an advertisement and the withdrawal of the same listener (or the owner's clock versus the receiver's) is no longer what the 'newer than' test assumes — a withdrawn service stays listed")
	}
	// R3 nil check (shared with C07-O2)
	targets := decodeTargets(p, []*ssa.Function{hsa})
	nilFieldObligations(r, p, "R3-nil-body", []*ssa.Function{hsa}, targets)
	r.Min("R3-nil-body", 2)

	// R4 withdrawal on close, ordered after deregistration
	{
		reg := p.Field("netceptor", "Netceptor", "listenerRegistry")
		var del ssa.Instruction
		for _, ci := range engine.CallsIn(pcc) {
			if b, ok := ci.Common().Value.(*ssa.Builtin); ok && b.Name() == "delete" {
				// map obtained via GetListenerRegistry()
				if c, ok := ci.Common().Args[0].(*ssa.Call); ok {
					if o := engine.CalleeObj(c.Common()); o != nil && o.Name() == "GetListenerRegistry" {
						del = ci
					}
				}
				if f, _ := engine.FieldOfLoad(ci.Common().Args[0]); f == reg {
					del = ci
				}
			}
		}
		var withdraw ssa.Instruction
		for _, ci := range engine.CallsIn(pcc) {
			if o := engine.CalleeObj(ci.Common()); o != nil && o.Name() == "RemoveLocalServiceAdvertisement" {
				withdraw = ci
			}
		}
		adv := p.Field("netceptor", "PacketConn", "advertise")
		advT, _ := engine.CondEdges(pcc, func(c ssa.Value) (bool, bool) { f, _ := engine.FieldOfLoad(c); return f == adv && f != nil, true })
		ok := del != nil && withdraw != nil && len(advT) > 0
		why := "PacketConn.Close no longer deregisters the socket or no longer withdraws its advertisement"
		if ok {
			if engine.Reach(pcc, nil, nil, func(in ssa.Instruction) bool { return in == del }, func(in ssa.Instruction) bool { return in == withdraw }) != nil {
				ok = false
				why = "the withdrawal is flooded before the socket is removed from the listener registry: a periodic sendServiceAds in between still sees it and floods an advertisement newer than the withdrawal, so other nodes list the closed service for good"
			}
			// under the listener lock
			h := p.Locks(pcc).HeldAt(withdraw)
			lockOK := false
			for k, m := range h {
				if m == engine.LockW && len(k) > 0 && (containsSuffix(k, ".listenerLock")) {
					lockOK = true
				}
			}
			if !lockOK {
				ok = false
				why = "the withdrawal is flooded without the listener lock held: the advertiser (which reads the registry under that lock) can interleave"
			}
			// withdraws iff advertise
			for _, e := range advT {
				if reachFromEdge(pcc, e, nil, func(in ssa.Instruction) bool { return in == withdraw }, func(in ssa.Instruction) bool {
					ret, isR := in.(*ssa.Return)
					return isR && engine.IsNilConst(ret.Results[0])
				}) != nil {
					ok = false
					why = "an advertised socket can be closed successfully without withdrawing its advertisement"
				}
			}
		}
		r.Check("R4-withdraw-on-close", "PacketConn.Close: deregister, then withdraw, all under listenerLock", pcc.Pos(), ok,
			"the registry delete precedes RemoveLocalServiceAdvertisement on every path, both under the listener write lock; an advertised socket always withdraws", why)
		// the withdrawal record
		okRec := false
		for _, b := range rla.Blocks {
			for _, in := range b.Instrs {
				if st, isS := in.(*ssa.Store); isS {
					if fa, isF := st.Addr.(*ssa.FieldAddr); isF && engine.FieldAddrVar(fa).Name() == "Cancel" {
						if k, isC := st.Val.(*ssa.Const); isC && k.Value != nil && k.Value.String() == "true" {
							okRec = true
						}
					}
				}
			}
		}
		nowT := false
		for _, b := range rla.Blocks {
			for _, in := range b.Instrs {
				if st, isS := in.(*ssa.Store); isS {
					if fa, isF := st.Addr.(*ssa.FieldAddr); isF && engine.FieldAddrVar(fa).Name() == "Time" {
						if c, isC := st.Val.(*ssa.Call); isC && engine.IsCallTo(c.Common(), "time.Now") {
							nowT = true
						}
					}
				}
			}
		}
		fl := callsTo(rla, "(*netceptor.Netceptor).flood")
		r.Check("R4-withdraw-on-close", "RemoveLocalServiceAdvertisement: floods {Cancel: true, Time: time.Now()}", rla.Pos(), okRec && nowT && len(fl) == 1,
			"the withdrawal carries Cancel=true and the current time and is flooded to all neighbours", "the withdrawal record is no longer Cancel=true / stamped with time.Now() / flooded")
		// listen / ListenPacketAndAdvertise advertise iff asked
		for _, n := range []string{"(*netceptor.Netceptor).listen", "(*netceptor.Netceptor).ListenPacketAndAdvertise"} {
			fn := p.Func(n)
			if fn == nil {
				continue
			}
			calls := callsTo(fn, "(*netceptor.Netceptor).AddLocalServiceAdvertisement")
			r.Check("R4-withdraw-on-close", n+": announces the service it registers", fn.Pos(), len(calls) == 1, "AddLocalServiceAdvertisement is called", "the advertising open no longer announces the service")
		}
	}
	// R5 sendServiceAds: exactly the advertised registry entries
	{
		adv := p.Field("netceptor", "PacketConn", "advertise")
		advT, _ := engine.CondEdges(ssa_, func(c ssa.Value) (bool, bool) { f, _ := engine.FieldOfLoad(c); return f == adv && f != nil, true })
		var app ssa.Instruction
		for _, ci := range engine.CallsIn(ssa_) {
			if b, ok := ci.Common().Value.(*ssa.Builtin); ok && b.Name() == "append" {
				app = ci
			}
		}
		ok := app != nil && len(advT) > 0 && engine.Reach(ssa_, nil, engine.EdgeSet{}.Add(advT...), nil, func(in ssa.Instruction) bool { return in == app }) == nil
		// ConnType and Tags from the entry
		src := map[string]string{}
		for _, b := range ssa_.Blocks {
			for _, in := range b.Instrs {
				if st, isS := in.(*ssa.Store); isS {
					if fa, isF := st.Addr.(*ssa.FieldAddr); isF {
						if f, _ := engine.FieldOfLoad(st.Val); f != nil {
							src[engine.FieldAddrVar(fa).Name()] = f.Name()
						}
					}
				}
			}
		}
		ok = ok && src["ConnType"] == "connType" && src["Tags"] == "adTags" && src["NodeID"] == "nodeID"
		r.Check("R5-advertiser", "sendServiceAds: advertises exactly the registry entries flagged advertise, with their type and tags", ssa_.Pos(), ok,
			"an advertisement is built only on the advertise == true edge, from the entry's connType and adTags and the local node ID", fmt.Sprintf("the advertiser no longer filters on advertise or no longer copies the entry's own type/tags (%v)", src))
		guardedBy(r, p, "R5-guarded-by", ads, adsLock, nil)
	}
	// R6 one-sided comparison: the withdrawal arm forgets the withdrawal time
	{
		cancelF := p.Field("netceptor", "serviceAdvertisementFull", "Cancel")
		cT, _ := engine.CondEdges(hsa, func(c ssa.Value) (bool, bool) { f, _ := engine.FieldOfLoad(c); return f == cancelF && f != nil, true })
		retains := false
		for _, e := range cT {
			// anything stored on the cancel arm other than deletes?
			reachFromEdge(hsa, e, nil, func(in ssa.Instruction) bool { return in == ssa.Instruction(relay) }, func(in ssa.Instruction) bool {
				switch x := in.(type) {
				case *ssa.MapUpdate:
					_ = x
					retains = true
				case *ssa.Store:
					if _, isFA := x.Addr.(*ssa.FieldAddr); isFA {
						retains = true
					}
				}
				return false
			})
		}
		r.Check("R6-tombstone", "handleServiceAdvertisement: withdrawal arm retains the withdrawal time", hsa.Pos(), len(cT) > 0 && retains,
			"the withdrawal is remembered, so an older advertisement arriving later is still recognised as older", "the withdrawal arm only deletes the entry: the time of the withdrawal is forgotten, so an advertisement older than the withdrawal that arrives afterwards (relays are sent from independent goroutines) is accepted as new — the withdrawn service is listed again; for the same reason a withdrawal for which no entry is held is accepted and relayed every time it arrives, so it circulates on any cycle of the mesh")
	}
	_ = token.NoPos
}

func containsSuffix(s, suf string) bool {
	return len(s) >= len(suf) && s[len(s)-len(suf):] == suf
}
