package rules

import (
	"strings"
	"fmt"
	"go/token"
	"go/types"

	"golang.org/x/tools/go/ssa"

	"rcheck/engine"
)

func init() { register("C11", c11) }

// removalCalls: calls in fn that remove a connection: removeConnection itself or a wrapper that
// calls removeConnection with one of its own parameters. Returns the call and the ID argument.
type removal struct {
	call ssa.CallInstruction
	id   ssa.Value
	via  string
}

func removalWrappers(p *engine.Program) map[*ssa.Function]int {
	rc := p.Func("(*netceptor.Netceptor).removeConnection")
	out := map[*ssa.Function]int{}
	if rc == nil {
		return out
	}
	out[rc] = 1
	for _, fn := range p.Funcs() {
		if !inPkg(fn, "netceptor") || fn == rc || fn.Parent() != nil || engine.IsMock(fn) {
			continue
		}
		for _, ci := range callsTo(fn, "(*netceptor.Netceptor).removeConnection") {
			arg := ci.Common().Args[1]
			for i, prm := range fn.Params {
				if arg == ssa.Value(prm) {
					// wrapper only if the removal is unconditional-ish: reachable from entry
					out[fn] = i
				}
			}
		}
	}
	return out
}

func removalsIn(p *engine.Program, fn *ssa.Function, wr map[*ssa.Function]int) []removal {
	var out []removal
	for _, ci := range engine.CallsIn(fn) {
		callee := ci.Common().StaticCallee()
		if callee == nil {
			continue
		}
		if idx, ok := wr[callee]; ok && idx < len(ci.Common().Args) {
			out = append(out, removal{ci, ci.Common().Args[idx], engine.FuncName(callee)})
		}
	}
	return out
}

func c11(r *engine.Report, p *engine.Program) {
	r.Explanation = "Decides, in runProtocol (the only function that admits backend peers), that the single insertion into the connection table is control-dependent on each admission test (non-empty ID, not our own ID, allow-list hit when a list is set, not already connected) and is atomic with the 'already connected' scan under one write-lock section; that the announced ID is never removed from the table before this session inserted it; that every exit after the insertion removes the entry; that a routing update is handed on only if the forwarding ID is the established one and — for the peer's own update — it lists us with the agreed cost, every failing case disconnecting; that a reject message disconnects; and that self-shutdown happens only for a duplicate-ID notice naming our own epoch. It does not decide the outcome of real handshake races between two nodes or the epoch-granularity argument."
	r.NotDecided = []string{"outcomes of handshake races between two real sessions", "one-second epoch granularity", "that a rejected peer leaves no route behind at OTHER nodes"}
	r.Assumptions = []string{"json.Unmarshal fills routingUpdate fields from the peer's message", "sync.RWMutex provides mutual exclusion"}
	rp := p.Func("(*netceptor.Netceptor).runProtocol")
	rc := p.Func("(*netceptor.Netceptor).removeConnection")
	hru := p.Func("(*netceptor.Netceptor).handleRoutingUpdate")
	conns := p.Field("netceptor", "Netceptor", "connections")
	connLock := p.Field("netceptor", "Netceptor", "connLock")
	nodeID := p.Field("netceptor", "Netceptor", "nodeID")
	fwdNode := p.Field("netceptor", "routingUpdate", "ForwardingNode")
	if rp == nil || rc == nil || hru == nil || conns == nil || connLock == nil || nodeID == nil || fwdNode == nil {
		r.Broken("C11 anchors not found (runProtocol/removeConnection/handleRoutingUpdate/connections/connLock/nodeID/ForwardingNode)")
		return
	}
	r.Anchor("(*netceptor.Netceptor).runProtocol")
	r.Anchor("Netceptor.connections ↔ connLock")

	// R1 who-may write the connection table
	var inserts, deletes []engine.Access
	for _, a := range p.FieldAccesses(conns) {
		if engine.IsMock(a.Fn) {
			continue
		}
		switch a.Kind {
		case engine.AccMapUpdate:
			inserts = append(inserts, a)
		case engine.AccMapDelete:
			deletes = append(deletes, a)
		case engine.AccStore:
			if !engine.IsFreshAlloc(a.Base) {
				r.Add("R1-who-may", engine.FuncName(a.Fn)+": replaces connections map", a.Instr.Pos(), engine.Violated, "the connection table is replaced outside the constructor")
			}
		}
	}
	okIns := len(inserts) == 1 && inserts[0].Fn == rp
	r.Check("R1-who-may", "Netceptor.connections: insertion sites", rp.Pos(), okIns, "exactly one insertion, in runProtocol", fmt.Sprintf("%d insertion site(s): %v", len(inserts), accFns(inserts)))
	okDel := len(deletes) == 1 && deletes[0].Fn == rc
	r.Check("R1-who-may", "Netceptor.connections: deletion sites", rc.Pos(), okDel, "exactly one deletion, in removeConnection", fmt.Sprintf("%d deletion site(s): %v", len(deletes), accFns(deletes)))
	if !okIns {
		return
	}
	ins := inserts[0].Instr.(*ssa.MapUpdate)
	key := engine.Unwrap(ins.Key)
	isKey := sameVarAs(key)
	// the key is the announced ForwardingNode
	kf, _ := engine.FieldOfLoad(key)
	if kf != fwdNode {
		// the session ID variable lives in a cell: every store into it is "" or the announced ForwardingNode
		if u, isU := key.(*ssa.UnOp); isU {
			if al, isAl := u.X.(*ssa.Alloc); isAl {
				all, n := true, 0
				for _, rr := range *al.Referrers() {
					if st, isS := rr.(*ssa.Store); isS && st.Addr == ssa.Value(al) {
						n++
						f, _ := engine.FieldOfLoad(st.Val)
						if s0, isC := engine.ConstString(st.Val); !(f == fwdNode) && !(isC && s0 == "") {
							all = false
						}
					}
				}
				if all && n > 0 {
					kf = fwdNode
				}
			}
		}
	}
	r.Check("R2-admission", "runProtocol: table key is the announced ForwardingNode", ins.Pos(), kf == fwdNode,
		"the connection is stored under ri.ForwardingNode of the decoded handshake message", "the table key is not the announced ForwardingNode")
	isIns := func(in ssa.Instruction) bool { return in == ssa.Instruction(ins) }
	cutCheck := func(name string, edges []engine.Edge, okWhy, badWhy string) {
		cut := engine.EdgeSet{}.Add(edges...)
		hit := engine.Reach(rp, nil, cut, nil, isIns)
		r.Check("R2-admission", "runProtocol: insertion requires "+name, ins.Pos(), len(edges) > 0 && hit == nil, okWhy, badWhy)
	}
	// non-empty
	_, ne := strEqEdges(rp, isKey, "")
	lenPos, _ := engine.IntCmpEdges(rp, func(v ssa.Value) bool {
		c, ok := v.(*ssa.Call)
		if !ok {
			return false
		}
		b, ok := c.Common().Value.(*ssa.Builtin)
		return ok && b.Name() == "len" && isKey(c.Common().Args[0])
	}, 0, token.GTR, 0)
	cutCheck("a non-empty announced ID", append(ne, lenPos...), "the insertion is unreachable once the edges establishing ID != \"\" are removed",
		"a peer announcing an empty node ID can be inserted (removeConnection(\"\") is a no-op, so the entry would be permanent)")
	// not self
	_, neSelf := valEqEdges(rp, isKey, fieldLoadIs(nodeID))
	cutCheck("ID != own node ID", neSelf, "the insertion is unreachable once the edges establishing ID != s.nodeID are removed", "a peer announcing our own node ID can be inserted")
	// allow-list
	allowed := p.Field("netceptor", "BackendInfo", "allowedPeers")
	isNilE, _ := engine.NilCmpEdges(rp, fieldLoadIs(allowed))
	hitE, _ := valEqEdges(rp, isKey, func(v ssa.Value) bool {
		// element of bi.allowedPeers
		u, ok := v.(*ssa.UnOp)
		if !ok || u.Op != token.MUL {
			return false
		}
		ia, ok := u.X.(*ssa.IndexAddr)
		if !ok {
			return false
		}
		f, _ := engine.FieldOfLoad(ia.X)
		return f == allowed
	})
	rangeHit, _ := valEqEdges(rp, isKey, func(v ssa.Value) bool { return derivesFromField(v, allowed) })
	cutCheck("allow-list membership (when a list is set)", append(append(isNilE, hitE...), rangeHit...),
		"the insertion is unreachable once the edges 'no allow-list' and 'ID equals an allow-list entry' are removed",
		"a peer that is not on the backend's allow-list can be inserted")
	// already connected: scan or lookup of connections with the key
	var scanInstr ssa.Instruction
	var dupEdges, passEdges []engine.Edge
	for _, a := range engine.FieldAccessesIn(rp, conns) {
		switch a.Kind {
		case engine.AccRange:
			rg := a.Instr.(*ssa.Range)
			scanInstr = rg
			eq, _ := valEqEdges(rp, isKey, func(v ssa.Value) bool {
				e, ok := v.(*ssa.Extract)
				if !ok || e.Index != 1 {
					return false
				}
				nx, ok := e.Tuple.(*ssa.Next)
				return ok && nx.Iter == ssa.Value(rg)
			})
			dupEdges = append(dupEdges, eq...)
			// exhaustion edge: Next ok == false
			_, done := engine.CondEdges(rp, func(c ssa.Value) (bool, bool) {
				e, ok := c.(*ssa.Extract)
				if !ok || e.Index != 0 {
					return false, false
				}
				nx, ok := e.Tuple.(*ssa.Next)
				return ok && nx.Iter == ssa.Value(rg), true
			})
			passEdges = append(passEdges, done...)
		case engine.AccMapLookup:
			lk := a.Instr.(*ssa.Lookup)
			if lk.CommaOk && isKey(lk.Index) {
				scanInstr = lk
				present, absent := engine.CondEdges(rp, func(c ssa.Value) (bool, bool) {
					e, ok := c.(*ssa.Extract)
					return ok && e.Index == 1 && e.Tuple == ssa.Value(lk), true
				})
				dupEdges = append(dupEdges, present...)
				passEdges = append(passEdges, absent...)
			}
		}
	}
	if scanInstr == nil {
		r.Add("R2-admission", "runProtocol: insertion requires not-already-connected", ins.Pos(), engine.Violated, "no scan or lookup of the connection table with the announced ID was found before the insertion")
	} else {
		okDup := len(dupEdges) > 0
		for _, e := range dupEdges {
			if reachFromEdge(rp, e, nil, nil, isIns) != nil {
				okDup = false
			}
		}
		r.Check("R2-admission", "runProtocol: insertion requires not-already-connected", ins.Pos(), okDup,
			"from the edge on which the ID is found in the table the insertion is unreachable (flag merge threaded)", "a peer whose ID is already connected can be inserted")
		cutCheck("a completed presence scan", passEdges, "the insertion is unreachable once the 'ID not present' edge of the table scan is removed", "the insertion can be reached without completing the presence scan")
		// R2 atomicity: same write section, no unlock between
		lf := p.Locks(rp)
		h1, h2 := lf.HeldAt(scanInstr), lf.HeldAt(ins)
		var lockKey string
		for _, op := range lf.Ops() {
			if op.Path.Last() == connLock && op.Acquire {
				lockKey = op.Path.String()
			}
		}
		okAtomic := lockKey != "" && h1[lockKey] == engine.LockW && h2[lockKey] == engine.LockW
		why := ""
		if okAtomic {
			// no release between scan and insert
			for _, op := range lf.Ops() {
				if op.Acquire || op.Path.Last() != connLock {
					continue
				}
				u := op.Call.(ssa.Instruction)
				between := engine.Reach(rp, scanInstr, nil, isIns, func(in ssa.Instruction) bool { return in == u })
				if between != nil && engine.Reach(rp, u, nil, nil, isIns) != nil {
					okAtomic = false
					why = "connLock is released at " + p.Pos(u.Pos()) + " on a path between the presence scan and the insertion"
				}
			}
		} else {
			why = fmt.Sprintf("the presence scan holds %s and the insertion holds %s; both must hold the connLock write lock", h1, h2)
		}
		r.Check("R2-atomic", "runProtocol: presence scan + insertion in one connLock write section", ins.Pos(), okAtomic,
			"scan and insertion both run with the connLock write lock must-held and no path between them releases it", "test-and-insert is not atomic: "+why+" (two sessions announcing the same ID can both be admitted)")
	}

	// R4 removal discipline
	wr := removalWrappers(p)
	rems := removalsIn(p, rp, wr)
	isRemovalOfKey := func(in ssa.Instruction) bool {
		for _, rm := range rems {
			if rm.call == in {
				return true
			}
		}
		return false
	}
	// (a) every exit after the insertion removes the entry
	exit := engine.Reach(rp, ins, nil, isRemovalOfKey, func(in ssa.Instruction) bool { _, ok := in.(*ssa.Return); return ok })
	r.Check("R4-removal", "runProtocol: every exit after the insertion removes the connection", ins.Pos(), exit == nil && len(rems) >= 5,
		fmt.Sprintf("from the insertion every path to a return passes one of the %d removeConnection call sites", len(rems)),
		"after the peer was inserted a path reaches "+descInstr(p, exit)+" without removeConnection: the ID stays 'already connected' forever")
	// removal argument is the session's remote ID
	for _, rm := range rems {
		ok := removalArgIsSessionID(rm.id, key)
		r.Check("R4-removal", "runProtocol: removeConnection argument at "+constructPos(p, rm.call), rm.call.Pos(), ok,
			"the ID removed is this session's remoteNodeID", "removeConnection is called with a value other than this session's remote node ID")
	}
	// (b) the announced ID is not removed before this session inserted it
	noEarlyRemoval(r, p, "R4-removal", rp, ins, key, rems)
	// removeConnection itself: no-op for "", deletes under the write lock
	guardedBy(r, p, "R4-guarded-by", conns, connLock, nil)

	// R5 established-phase identity / neighbour / cost checks
	hruCalls := callsTo(rp, "(*netceptor.Netceptor).handleRoutingUpdate")
	var selectLoop ssa.Instruction
	for _, b := range rp.Blocks {
		for _, in := range b.Instrs {
			if sel, ok := in.(*ssa.Select); ok && sel.Blocking {
				for _, st := range sel.States {
					if f, _ := engine.FieldOfLoad(st.Chan); f != nil && f.Name() == "ReadChan" {
						selectLoop = in
					}
				}
			}
		}
	}
	if len(hruCalls) != 1 || selectLoop == nil {
		r.Add("R5-established", "runProtocol: handleRoutingUpdate call / receive loop", rp.Pos(), engine.Violated, "expected one handleRoutingUpdate call and the ReadChan select loop")
	} else {
		hc := hruCalls[0]
		isHC := func(in ssa.Instruction) bool { return in == ssa.Instruction(hc) }
		isRemoteID := func(v ssa.Value) bool { return removalArgIsSessionID(v, key) }
		isFwd := func(v ssa.Value) bool { f, _ := engine.FieldOfLoad(v); return f == fwdNode }
		eq, ne := valEqEdges(rp, isFwd, isRemoteID)
		// only comparisons in the established phase matter: those from which hc is reachable
		cut := engine.EdgeSet{}.Add(eq...)
		hit := engine.Reach(rp, nil, cut, nil, isHC)
		r.Check("R5-established", "runProtocol: routing updates handed on only from the established ID", hc.Pos(), len(eq) > 0 && hit == nil,
			"handleRoutingUpdate is unreachable once the edges ri.ForwardingNode == remoteNodeID are removed", "a routing update forwarded under a different node ID is processed")
		mustDisconnect := func(name string, edges []engine.Edge) {
			ok := len(edges) > 0
			for _, e := range edges {
				if reachFromEdge(rp, e, nil, nil, func(in ssa.Instruction) bool { return in == selectLoop || isHC(in) }) != nil {
					ok = false
				}
			}
			r.Check("R5-established", "runProtocol: "+name+" disconnects", hc.Pos(), ok,
				"from that edge neither the receive loop nor handleRoutingUpdate is reachable (the session returns; R4 shows it removes the connection first)",
				"after "+name+" the session keeps running")
		}
		mustDisconnect("peer speaking under a different ID", ne)
		// cost disagreement: remoteCost (lookup of ri.Connections[s.nodeID]) vs connectionCost
		connsF := p.Field("netceptor", "routingUpdate", "Connections")
		isRemoteCost := func(v ssa.Value) bool {
			e, ok := v.(*ssa.Extract)
			if !ok || e.Index != 0 {
				return false
			}
			lk, ok := e.Tuple.(*ssa.Lookup)
			if !ok {
				return false
			}
			f, _ := engine.FieldOfLoad(lk.X)
			return f == connsF
		}
		_, costNE := engine.CondEdges(rp, func(c ssa.Value) (bool, bool) {
			b, ok := c.(*ssa.BinOp)
			if !ok || (b.Op != token.EQL && b.Op != token.NEQ) {
				return false, false
			}
			if isRemoteCost(b.X) || isRemoteCost(b.Y) {
				return true, b.Op == token.EQL
			}
			return false, false
		})
		mustDisconnect("cost disagreement", costNE)
		// the peer's own update is handed on only if its cost for us equals ours — every time
		nodeF := p.Field("netceptor", "routingUpdate", "NodeID")
		ownEq, _ := valEqEdges(rp, func(v ssa.Value) bool { f, _ := engine.FieldOfLoad(v); return f == nodeF }, isRemoteID)
		costEq, _ := engine.CondEdges(rp, func(c ssa.Value) (bool, bool) {
			b, ok := c.(*ssa.BinOp)
			if !ok || (b.Op != token.EQL && b.Op != token.NEQ) {
				return false, false
			}
			if isRemoteCost(b.X) || isRemoteCost(b.Y) {
				return true, b.Op == token.EQL
			}
			return false, false
		})
		okOwn := len(ownEq) > 0 && len(costEq) > 0
		for _, e := range ownEq {
			if reachFromEdge(rp, e, engine.EdgeSet{}.Add(costEq...), func(in ssa.Instruction) bool { return in == selectLoop }, isHC) != nil {
				okOwn = false
			}
		}
		r.Check("R5-established", "runProtocol: the peer's own update is processed only when its cost for us equals ours (every update)", hc.Pos(), okOwn,
			"from the ri.NodeID == remoteNodeID edge, handleRoutingUpdate is unreachable once the remoteCost == connectionCost edges are removed", "an update of the direct peer can be processed although it lists a different cost for this link (e.g. the agreement is checked only once): the two ends keep asymmetric costs and a live route")
		// reject message
		cReject := p.Const("netceptor", "MsgTypeReject")
		rejE, _ := engine.IntCmpEdges(rp, func(v ssa.Value) bool { return v.Type().String() == "byte" || v.Type().String() == "uint8" }, 0, token.EQL, constIntVal(cReject))
		mustDisconnect("a reject message", rejE)
	}

	{
		okA, whyA := adjacencyAfterInsertion(p)
		r.Check("R2-admission", "runProtocol: a session writes the link's cost rows only after its admission (insertion into connections)", token.NoPos, okA,
			"no write of knownConnectionCosts in runProtocol is reachable before the insertion into connections: a refused session leaves no routing state behind", whyA)
	}
	// R3 cost selection: the per-node override looked up under the announced ID, else the backend default
	{
		nodeCost := p.Field("netceptor", "BackendInfo", "nodeCost")
		costF := p.Field("netceptor", "connInfo", "Cost")
		var lk *ssa.Lookup
		for _, b := range rp.Blocks {
			for _, in := range b.Instrs {
				if l, ok := in.(*ssa.Lookup); ok && l.CommaOk {
					if f, _ := engine.FieldOfLoad(l.X); f == nodeCost && nodeCost != nil {
						lk = l
					}
				}
			}
		}
		ok, why := lk != nil, "no comma-ok lookup of bi.nodeCost found"
		if ok && !isKey(lk.Index) {
			ok, why = false, "the per-node cost is not looked up under the announced node ID"
		}
		if ok {
			isVal := func(v ssa.Value) bool {
				e, isE := engine.Unwrap(v).(*ssa.Extract)
				return isE && e.Tuple == ssa.Value(lk) && e.Index == 0
			}
			hit, _ := engine.CondEdges(rp, func(c ssa.Value) (bool, bool) {
				e, isE := c.(*ssa.Extract)
				return isE && e.Tuple == ssa.Value(lk) && e.Index == 1, true
			})
			// every store to ci.Cost after the literal is the looked-up value, on the hit edge only
			n := 0
			for _, a := range engine.FieldAccessesIn(rp, costF) {
				st, isS := a.Instr.(*ssa.Store)
				if !isS || a.Kind != engine.AccStore {
					continue
				}
				if isVal(st.Val) {
					n++
					cut := engine.EdgeSet{}.Add(hit...)
					if len(hit) == 0 || engine.Reach(rp, lk, cut, nil, func(in ssa.Instruction) bool { return in == ssa.Instruction(st) }) != nil {
						ok, why = false, "the override is applied without the lookup having hit"
					}
				}
			}
			if ok && n == 0 {
				ok, why = false, "the looked-up per-node cost is never installed as the connection's cost"
			}
			// and the insertion comes after the override decision (the table never shows the default for an overridden peer)
			if ok && !lk.Block().Dominates(ins.Block()) {
				ok, why = false, "the connection can be inserted without the per-node cost having been looked up"
			}
		}
		r.Check("R3-cost-selection", "runProtocol: connection cost = nodeCost[announced ID] when configured, else the backend's cost", rp.Pos(), ok,
			"bi.nodeCost is looked up under the announced ID before the insertion; on the hit edge (only) the value becomes the connection's Cost", why+": the link is advertised and agreed with a cost the operator did not configure for this peer")
	}
	// R3b the backend's admission policy is shared by all of its sessions: a session never writes it
	{
		bi := p.NamedType("netceptor", "BackendInfo")
		var bad []string
		n := 0
		if bi != nil {
			st := bi.Underlying().(*types.Struct)
			for i := 0; i < st.NumFields(); i++ {
				for _, a := range p.FieldAccesses(st.Field(i)) {
					if engine.IsMock(a.Fn) {
						continue
					}
					switch a.Kind {
					case engine.AccStore, engine.AccMapUpdate, engine.AccMapDelete, engine.AccAppend:
						n++
						name := engine.FuncName(engine.Outermost(a.Fn))
						if name == "(*netceptor.Netceptor).runProtocol" || privateHelperOf(p, engine.Outermost(a.Fn), map[string]bool{"(*netceptor.Netceptor).runProtocol": true}) != "" {
							bad = append(bad, fmt.Sprintf("%s writes BackendInfo.%s at %s", name, st.Field(i).Name(), p.Pos(a.Instr.Pos())))
						}
					}
				}
			}
		}
		r.Check("R3-cost-selection", "BackendInfo (cost, per-node costs, allow-list): never written by a session", token.NoPos, bi != nil && len(bad) == 0,
			fmt.Sprintf("%d write(s) of BackendInfo fields, none in runProtocol or its helpers (only the option functions passed to AddBackend)", n),
			strings.Join(bad, "; ")+": the policy object is shared by every session of the backend, so one peer's override changes the cost (or admission) of all other peers")
	}
	// R7b the duplicate-ID answer is given for every copy: the own-ID test is not behind the
	// update-ID dedup (relays are repaired only by repeated notices)
	{
		seenF := p.Field("netceptor", "Netceptor", "seenUpdates")
		var lookups []ssa.Instruction
		for _, a := range engine.FieldAccessesIn(hru, seenF) {
			if a.Kind == engine.AccMapLookup {
				lookups = append(lookups, a.Instr)
			}
		}
		selfE, notSelf := valEqEdges(hru, fieldLoadIs(p.Field("netceptor", "routingUpdate", "NodeID")), fieldLoadIs(nodeID))
		ok := len(lookups) > 0 && len(selfE) > 0
		// with the 'not our ID' outcomes removed, the dedup lookup is unreachable: updates naming our ID never pass through it
		if ok {
			cut := engine.EdgeSet{}.Add(notSelf...)
			if engine.Reach(hru, nil, cut, nil, func(in ssa.Instruction) bool { return isOneOf(in, lookups) }) != nil {
				ok = false
			}
		}
		r.Check("R7-duplicate", "handleRoutingUpdate: updates naming our own ID are judged before (and independently of) the update-ID dedup", hru.Pos(), ok,
			"with the ri.NodeID != s.nodeID outcomes removed the seenUpdates lookup is unreachable: every copy of a duplicate's update is answered", "an update naming our own ID can be dropped as 'already seen' before the duplicate test: only the first copy is answered, and a relay that got the notice too early keeps the duplicate's epoch and discards this node's later updates as stale")
	}
	// R7 duplicate node: Shutdown only under SuspectedDuplicate == s.epoch
	sd := p.Field("netceptor", "routingUpdate", "SuspectedDuplicate")
	ep := p.Field("netceptor", "Netceptor", "epoch")
	shutFn := p.Func("(*netceptor.Netceptor).Shutdown")
	var shut []ssa.CallInstruction
	if shutFn != nil {
		if obj, _ := shutFn.Object().(*types.Func); obj != nil {
			for _, cs := range p.CallSitesOf(obj) {
				if inPkg(cs.Parent(), "netceptor") && !engine.IsMock(cs.Parent()) {
					shut = append(shut, cs)
				}
			}
		}
	}
	okShut := len(shut) == 1
	if okShut {
		findEq := func(f *ssa.Function) []engine.Edge { e, _ := valEqEdges(f, fieldLoadIs(sd), fieldLoadIs(ep)); return e }
		findSelf := func(f *ssa.Function) []engine.Edge {
			e, _ := valEqEdges(f, fieldLoadIs(p.Field("netceptor", "routingUpdate", "NodeID")), fieldLoadIs(nodeID))
			return e
		}
		okShut = mustPassEdges(p, shut[0].Parent(), shut[0], findEq, 0) && mustPassEdges(p, shut[0].Parent(), shut[0], findSelf, 0)
	}
	r.Check("R7-duplicate", "handleRoutingUpdate: self-shutdown condition", hru.Pos(), okShut,
		"Shutdown is reachable only for an update naming our own ID whose SuspectedDuplicate equals our own epoch", "the node can shut itself down without a duplicate notice naming its own epoch")
	checkCallers(r, p, "R7-duplicate", "(*netceptor.Netceptor).Shutdown", "(*netceptor.Netceptor).handleRoutingUpdate", "cmd.RunConfigV1 (as value)", "cmd.RunConfigV1")
}

func accFns(a []engine.Access) []string {
	var o []string
	for _, x := range a {
		o = append(o, engine.FuncName(x.Fn))
	}
	return o
}

func constructPos(p *engine.Program, ci ssa.CallInstruction) string {
	// stable-ish discriminator: the enclosing block's comment + callee name (no line numbers)
	name := "?"
	if o := engine.CalleeObj(ci.Common()); o != nil {
		name = o.Name()
	}
	return fmt.Sprintf("%s#%d", name, ordinalOfCall(ci))
}

// ordinalOfCall: index of this call among calls to the same callee in its function.
func ordinalOfCall(ci ssa.CallInstruction) int {
	n := 0
	o := engine.CalleeObj(ci.Common())
	for _, c := range engine.CallsIn(ci.Parent()) {
		if engine.CalleeObj(c.Common()) == o {
			if c == ci {
				return n
			}
			n++
		}
	}
	return n
}

// removalArgIsSessionID: v is the announced-ID value or a phi merging it with the initial "".
func removalArgIsSessionID(v ssa.Value, key ssa.Value) bool {
	v = engine.Unwrap(v)
	if v == key || sameVarAs(key)(v) {
		return true
	}
	if ph, ok := v.(*ssa.Phi); ok {
		seen := map[ssa.Value]bool{}
		var all func(x ssa.Value) bool
		all = func(x ssa.Value) bool {
			x = engine.Unwrap(x)
			if seen[x] {
				return true
			}
			seen[x] = true
			if x == key {
				return true
			}
			if s, ok := engine.ConstString(x); ok && s == "" {
				return true
			}
			if p2, ok := x.(*ssa.Phi); ok {
				for _, e := range p2.Edges {
					if !all(e) {
						return false
					}
				}
				return true
			}
			return false
		}
		return all(ph)
	}
	return false
}

var _ = types.Typ

// noEarlyRemoval: between reading the announced ID and inserting it, no path (deferred closures
// included) removes that ID from the connection table.
func noEarlyRemoval(r *engine.Report, p *engine.Program, rule string, rp *ssa.Function, ins ssa.Instruction, key ssa.Value, rems []removal) {
	def, ok := key.(ssa.Instruction)
	if !ok {
		return
	}
	// when the session ID variable lives in a cell (captured by a closure) the definition is the
	// store of the announced ForwardingNode into that cell, and "the same ID" is any load of the cell
	var cell ssa.Value
	if u, isU := key.(*ssa.UnOp); isU {
		if al, isAl := u.X.(*ssa.Alloc); isAl {
			cell = al
			if refs := al.Referrers(); refs != nil {
				for _, rr := range *refs {
					if st, isS := rr.(*ssa.Store); isS && st.Addr == ssa.Value(al) {
						if f, _ := engine.FieldOfLoad(st.Val); f != nil && f.Name() == "ForwardingNode" {
							def = st
						}
					}
				}
			}
		}
	}
	sameID := func(v ssa.Value) bool {
		v = engine.Unwrap(v)
		if v == key {
			return true
		}
		if u, isU := v.(*ssa.UnOp); isU && cell != nil && u.X == cell {
			return true
		}
		return false
	}
	isIns := func(in ssa.Instruction) bool { return in == ins }
	early := engine.Reach(rp, def, nil, isIns, func(in ssa.Instruction) bool {
		for _, rm := range rems {
			if rm.call == in && sameID(rm.id) {
				return true
			}
		}
		return false
	})
	// a deferred closure that removes the session's ID runs on every return, also on the
	// pre-insertion rejection returns
	wr := removalWrappers(p)
	deferredRemoval := ""
	for _, ci := range engine.CallsIn(rp) {
		d, isD := ci.(*ssa.Defer)
		if !isD {
			continue
		}
		if mc, isMC := d.Common().Value.(*ssa.MakeClosure); isMC {
			cl := mc.Fn.(*ssa.Function)
			if len(removalsIn(p, cl, wr)) > 0 {
				// is a return reachable from the announced-ID definition without passing the insertion?
				if engine.Reach(rp, def, nil, isIns, func(in ssa.Instruction) bool { _, isR := in.(*ssa.Return); return isR }) != nil {
					deferredRemoval = engine.FuncName(cl)
				}
			}
		}
	}
	r.Check(rule, "runProtocol: no removal of the announced ID before this session's insertion", ins.Pos(), early == nil && deferredRemoval == "",
		"between reading the announced ID and inserting it no path — deferred exit handlers included — removes that ID from the table (a rejected session cannot evict an established peer with the same ID)",
		"a path from the announced ID to "+descInstr(p, early)+deferredRemoval+" removes that ID before this session inserted it: rejecting a session evicts the healthy connection of the peer it impersonates")
}

// sameVarAs: predicate "v denotes the same variable as key": the same SSA value, or — when the
// variable lives in a memory cell because a closure captures it — another load of that cell.
func sameVarAs(key ssa.Value) func(ssa.Value) bool {
	var cell ssa.Value
	if u, ok := key.(*ssa.UnOp); ok {
		if al, ok := u.X.(*ssa.Alloc); ok {
			cell = al
		}
	}
	return func(v ssa.Value) bool {
		v = engine.Unwrap(v)
		if v == key {
			return true
		}
		if u, ok := v.(*ssa.UnOp); ok && cell != nil && u.X == cell {
			return true
		}
		return false
	}
}
