package rules

import (
	"fmt"
	"go/constant"
	"go/token"
	"go/types"

	"golang.org/x/tools/go/ssa"

	"rcheck/engine"
)

// reservedDispatchSites returns the instructions of hmd that hand the packet to a reserved
// service: the dynamic call of a handler looked up in the reservedServices table, or — when that
// call sits in a private helper of hmd (dispatchReservedService on the pinned tree) — the calls
// of the helper.
func reservedDispatchSites(p *engine.Program, hmd *ssa.Function) []ssa.Instruction {
	out := reservedHandlerCallsIn(p, hmd)
	for _, ci := range engine.CallsIn(hmd) {
		c := ci.Common().StaticCallee()
		if c == nil || len(c.Blocks) == 0 || c == hmd || privateHelperOf(p, c, map[string]bool{engine.FuncName(hmd): true}) == "" {
			continue
		}
		if len(reservedHandlerCallsIn(p, c)) > 0 {
			out = append(out, ci)
		}
	}
	return out
}

// reservedHandlerCallsIn lists the dynamic calls in fn whose callee was looked up in the
// reservedServices table.
func reservedHandlerCallsIn(p *engine.Program, fn *ssa.Function) []ssa.Instruction {
	rs := p.Field("netceptor", "Netceptor", "reservedServices")
	if rs == nil {
		return nil
	}
	fromTable := func(v ssa.Value) bool {
		for i := 0; i < 6 && v != nil; i++ {
			switch x := engine.Unwrap(v).(type) {
			case *ssa.Extract:
				v = x.Tuple
			case *ssa.Lookup:
				f, _ := engine.FieldOfLoad(x.X)
				return f == rs
			case *ssa.Phi:
				// `svc, ok := table[k]; if ok {svc(md)}` keeps the extract; anything else is not recognised
				return false
			default:
				return false
			}
		}
		return false
	}
	var out []ssa.Instruction
	for _, ci := range engine.CallsIn(fn) {
		if ci.Common().StaticCallee() == nil && !ci.Common().IsInvoke() && fromTable(ci.Common().Value) {
			out = append(out, ci)
		}
	}
	return out
}

// deliveryTargets returns the instructions in handleMessageData that hand a packet on:
// dispatch to a reserved service, send to a listener's receive channel, forward.
func deliveryTargets(p *engine.Program, hmd *ssa.Function) (targets []ssa.Instruction, notices []ssa.CallInstruction) {
	recvChan := p.Field("netceptor", "PacketConn", "recvChan")
	reserved := reservedDispatchSites(p, hmd)
	for _, b := range hmd.Blocks {
		for _, in := range b.Instrs {
			switch x := in.(type) {
			case ssa.CallInstruction:
				if engine.IsCallTo(x.Common(), "(*netceptor.Netceptor).forwardMessage") || isOneOf(in, reserved) {
					targets = append(targets, in)
				}
				if engine.IsCallTo(x.Common(), "(*netceptor.Netceptor).sendUnreachable") {
					notices = append(notices, x)
				}
			case *ssa.Send:
				if f, _ := engine.FieldOfLoad(x.Chan); f == recvChan {
					targets = append(targets, in)
				}
			case *ssa.Select:
				for _, st := range x.States {
					if f, _ := engine.FieldOfLoad(st.Chan); f == recvChan && st.Dir == types.SendOnly {
						targets = append(targets, in)
					}
				}
			}
		}
	}
	return
}

func isOneOf(in ssa.Instruction, set []ssa.Instruction) bool {
	for _, s := range set {
		if s == in {
			return true
		}
	}
	return false
}

func firewallPathRules(r *engine.Report, p *engine.Program, hmd *ssa.Function) {
	cAccept, cReject, cDrop, cCont := p.Const("netceptor", "FirewallResultAccept"), p.Const("netceptor", "FirewallResultReject"), p.Const("netceptor", "FirewallResultDrop"), p.Const("netceptor", "FirewallResultContinue")
	if cAccept == nil || cReject == nil || cDrop == nil || cCont == nil {
		r.Broken("FirewallResult constants not found")
		return
	}
	frType := cAccept.Type()
	isResult := func(v ssa.Value) bool { return types.Identical(v.Type(), frType) }
	// the decision value: the FirewallResult-typed value compared with Drop
	var decision ssa.Value
	for _, i := range engine.Ifs(hmd) {
		if cmp, ok := engine.AsCmp(i.Cond, isResult); ok {
			if k, isC := engine.ConstInt(cmp.Other); isC && k == constIntVal(cDrop) {
				decision = cmp.Subject
			}
		}
	}
	targets, notices := deliveryTargets(p, hmd)
	if decision == nil || len(targets) < 3 {
		r.Add("R4-order", "handleMessageData: decision value / delivery sites", hmd.Pos(), engine.Violated,
			fmt.Sprintf("expected a FirewallResult value compared with FirewallResultDrop and at least 3 delivery sites (dispatch, listener send, forward); found decision=%v, %d site(s)", decision != nil, len(targets)))
		return
	}
	isDecision := func(v ssa.Value) bool { return v == decision }
	// R4a the decision dominates every delivery / notice site
	db := decision.(ssa.Instruction).Block()
	for _, t := range append(append([]ssa.Instruction{}, targets...), func() []ssa.Instruction {
		var o []ssa.Instruction
		for _, n := range notices {
			o = append(o, n)
		}
		return o
	}()...) {
		ok := db.Dominates(t.Block())
		r.Check("R4-order", "handleMessageData: rule evaluation dominates "+shortInstr(t), t.Pos(), ok,
			"the merged rule result is computed on every path before this site", "this site can be reached without evaluating the firewall rules")
	}
	// R4b provenance of the decision: constants {Accept} and results of calls through firewallRules elements
	consts, calls, other := phiLeaves(decision, map[ssa.Value]bool{})
	fwRules := p.Field("netceptor", "Netceptor", "firewallRules")
	okConst := len(consts) == 1 && consts[0] == constIntVal(cAccept)
	r.Check("R4-initial-accept", "handleMessageData: initial result", hmd.Pos(), okConst && other == 0,
		"the only constant that can flow into the decision is FirewallResultAccept (packets are accepted when no rule matches)",
		fmt.Sprintf("constants flowing into the decision: %v (other sources: %d); expected exactly FirewallResultAccept", consts, other))
	okCalls := len(calls) >= 1
	for _, c := range calls {
		// callee value is an element of s.firewallRules
		if !derivesFromField(c.Common().Value, fwRules) {
			okCalls = false
		}
	}
	r.Check("R4-order", "handleMessageData: decision merges rule results", hmd.Pos(), okCalls,
		fmt.Sprintf("%d rule call(s) through elements of firewallRules feed the decision", len(calls)), "the decision is not fed by calls of the configured firewall rules")
	// R4c first non-Continue result ends the loop
	for _, c := range calls {
		cv := c.Value()
		if cv == nil {
			continue
		}
		holds, _ := engine.IntCmpEdges(hmd, func(v ssa.Value) bool { return v == ssa.Value(cv) }, 0, token.NEQ, constIntVal(cCont))
		ok := len(holds) > 0
		for _, e := range holds {
			if reachFromEdge(hmd, e, nil, nil, func(in ssa.Instruction) bool { return in == ssa.Instruction(c) }) != nil {
				ok = false
			}
		}
		r.Check("R4-first-match", "handleMessageData: loop leaves on first result != Continue", c.Pos(), ok,
			"once a rule returns a result other than Continue no further rule is evaluated", "after a rule has returned a non-Continue result another rule can still be evaluated (first match no longer decides)")
	}
	// R5 Drop: nothing; Reject: notice only
	dropE, _ := engine.IntCmpEdges(hmd, isDecision, 0, token.EQL, constIntVal(cDrop))
	rejE, _ := engine.IntCmpEdges(hmd, isDecision, 0, token.EQL, constIntVal(cReject))
	r.Check("R5-drop-reject", "handleMessageData: Drop/Reject arms exist", hmd.Pos(), len(dropE) > 0 && len(rejE) > 0, "both arms found", "Drop or Reject arm not found")
	allSites := append([]ssa.Instruction{}, targets...)
	for _, n := range notices {
		allSites = append(allSites, n)
	}
	for _, e := range dropE {
		hit := reachFromEdge(hmd, e, nil, nil, func(in ssa.Instruction) bool { return isOneOf(in, allSites) })
		r.Check("R5-drop-reject", "handleMessageData: Drop arm", hmd.Pos(), hit == nil, "from the Drop arm no dispatch, delivery, forward or notice is reachable",
			"from the Drop arm a path reaches "+descInstr(p, hit))
	}
	fromService := p.Field("netceptor", "MessageData", "FromService")
	for _, e := range rejE {
		hit := reachFromEdge(hmd, e, nil, nil, func(in ssa.Instruction) bool { return isOneOf(in, targets) })
		r.Check("R5-drop-reject", "handleMessageData: Reject arm never delivers", hmd.Pos(), hit == nil, "from the Reject arm no dispatch, delivery or forward is reachable",
			"from the Reject arm a path reaches "+descInstr(p, hit)+": a rejected packet is processed anyway")
		// every return reachable from the Reject arm without a notice is behind FromService == "unreach"
		unreachEq, _ := strEqEdges(hmd, fieldLoadIs(fromService), "unreach")
		cut := engine.EdgeSet{}.Add(unreachEq...)
		isNotice := func(in ssa.Instruction) bool {
			for _, n := range notices {
				if in == ssa.Instruction(n) {
					return true
				}
			}
			return false
		}
		silent := reachFromEdge(hmd, e, cut, isNotice, func(in ssa.Instruction) bool { _, ok := in.(*ssa.Return); return ok })
		r.Check("R5-drop-reject", "handleMessageData: Reject arm notifies", hmd.Pos(), silent == nil,
			"from the Reject arm every path to a return passes through sendUnreachable unless the packet itself is an unreach notice",
			"from the Reject arm a return is reachable without sending the 'blocked by firewall' notice")
		// the notice reached first carries ProblemRejected
		var first ssa.CallInstruction
		reachFromEdge(hmd, e, nil, nil, func(in ssa.Instruction) bool {
			if isNotice(in) {
				first = in.(ssa.CallInstruction)
				return true
			}
			return false
		})
		if first != nil {
			prob := noticeProblem(p, first)
			want, _ := constStringOf(p.Const("netceptor", "ProblemRejected"))
			r.Check("R5-drop-reject", "handleMessageData: Reject notice problem", first.Pos(), prob == want && want != "",
				fmt.Sprintf("the notice carries ProblemRejected (%q)", want), fmt.Sprintf("the notice carries %q, expected ProblemRejected %q", prob, want))
		}
	}
	// sanity: with Drop/Reject arms cut, delivery is reachable (the switch has no swallowing default)
	cut := engine.EdgeSet{}.Add(dropE...).Add(rejE...)
	for _, t := range targets {
		hit := engine.Reach(hmd, nil, cut, nil, func(in ssa.Instruction) bool { return in == t })
		r.Check("R4-accept-default", "handleMessageData: accepted/unmatched packets reach "+shortInstr(t), t.Pos(), hit != nil,
			"a packet that is neither dropped nor rejected reaches this site", "this site became unreachable for accepted packets")
	}
}

func shortInstr(in ssa.Instruction) string {
	switch x := in.(type) {
	case ssa.CallInstruction:
		if o := engine.CalleeObj(x.Common()); o != nil {
			return "call " + o.Name()
		}
	case *ssa.Send, *ssa.Select:
		return "send recvChan"
	}
	return in.String()
}

func descInstr(p *engine.Program, in ssa.Instruction) string {
	if in == nil {
		return "-"
	}
	return shortInstr(in) + " at " + p.Pos(in.Pos())
}

// phiLeaves collects the non-phi sources of v: integer constants, calls, others.
func phiLeaves(v ssa.Value, seen map[ssa.Value]bool) (consts []int64, calls []*ssa.Call, other int) {
	if seen[v] {
		return
	}
	seen[v] = true
	switch x := v.(type) {
	case *ssa.Phi:
		for _, e := range x.Edges {
			c, cl, o := phiLeaves(e, seen)
			for _, k := range c {
				dup := false
				for _, kk := range consts {
					if kk == k {
						dup = true
					}
				}
				if !dup {
					consts = append(consts, k)
				}
			}
			calls = append(calls, cl...)
			other += o
		}
	case *ssa.Const:
		if k, ok := engine.ConstInt(x); ok {
			consts = append(consts, k)
		} else {
			other++
		}
	case *ssa.Call:
		calls = append(calls, x)
	default:
		other++
	}
	return
}

// derivesFromField: v is an element (index/range) of a load of field f.
func derivesFromField(v ssa.Value, f *types.Var) bool {
	for i := 0; i < 8 && v != nil; i++ {
		v = engine.Unwrap(v)
		if ff, _ := engine.FieldOfLoad(v); ff == f {
			return true
		}
		switch x := v.(type) {
		case *ssa.UnOp:
			v = x.X
		case *ssa.IndexAddr:
			v = x.X
		case *ssa.Index:
			v = x.X
		case *ssa.Extract:
			v = x.Tuple
		case *ssa.Next:
			v = x.Iter
		case *ssa.Range:
			v = x.X
		case *ssa.Lookup:
			v = x.X
		default:
			return false
		}
	}
	return false
}

// noticeProblem returns the constant stored into UnreachableMessage.Problem of the literal passed
// as the message argument of a sendUnreachable call.
func noticeProblem(p *engine.Program, call ssa.CallInstruction) string {
	args := call.Common().Args
	msg := args[len(args)-1]
	prob := p.Field("netceptor", "UnreachableMessage", "Problem")
	base := engine.Unwrap(msg)
	fn := call.Parent()
	for _, acc := range engine.FieldAccessesIn(fn, prob) {
		if acc.Kind == engine.AccStore && acc.Base == base {
			if s, ok := engine.ConstString(acc.Instr.(*ssa.Store).Val); ok {
				return s
			}
		}
	}
	return ""
}

func constStringOf(c *types.Const) (string, bool) {
	if c == nil {
		return "", false
	}
	if c.Val().Kind() != constant.String {
		return "", false
	}
	return constant.StringVal(c.Val()), true
}
