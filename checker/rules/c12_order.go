package rules

import (
	"go/token"
	"strings"

	"golang.org/x/tools/go/ssa"

	"rcheck/engine"
)

// ruleOrderRules (C12 R4-order, list side): "first matching rule decides" needs the evaluated list
// to be the configured list in the configured order. Decided: ParseFirewallRules appends rule i's
// function after those of rules 0..i-1; AddFirewallRules appends the new list after the existing
// one; the evaluation loop indexes firewallRules with an increasing index.
func ruleOrderRules(r *engine.Report, p *engine.Program) {
	pfr := p.Func("netceptor.ParseFirewallRules")
	afr := p.Func("(*netceptor.Netceptor).AddFirewallRules")
	hmd := p.Func("(*netceptor.Netceptor).handleMessageData")
	fwRules := p.Field("netceptor", "Netceptor", "firewallRules")
	if pfr == nil || afr == nil || hmd == nil || fwRules == nil {
		r.Broken("C12 order anchors not found")
		return
	}
	isAppend := func(in ssa.Instruction) (*ssa.Call, bool) {
		c, ok := in.(*ssa.Call)
		if !ok {
			return nil, false
		}
		b, ok := c.Common().Value.(*ssa.Builtin)
		return c, ok && b.Name() == "append"
	}
	increasing := func(idx ssa.Value) bool {
		// rangeindex form: idx = phi + 1, or a phi whose back edge is idx + 1
		idx = engine.Unwrap(idx)
		if bo, ok := idx.(*ssa.BinOp); ok && bo.Op == token.ADD {
			if k, isC := engine.ConstInt(bo.Y); isC && k == 1 {
				_, isPhi := bo.X.(*ssa.Phi)
				return isPhi
			}
		}
		if ph, ok := idx.(*ssa.Phi); ok {
			for _, e := range ph.Edges {
				if bo, ok := e.(*ssa.BinOp); ok && bo.Op == token.ADD && bo.X == ssa.Value(ph) {
					if k, isC := engine.ConstInt(bo.Y); isC && k == 1 {
						return true
					}
				}
			}
		}
		return false
	}
	// (a) ParseFirewallRules
	{
		ok, why := false, "no append of the parsed rule to the accumulated list found"
		var elemIdx ssa.Value
		for _, ci := range engine.CallsIn(pfr) {
			if o := engine.CalleeObj(ci.Common()); o != nil && o.Name() == "ParseFirewallRule" {
				// receiver: rules[i] (copy of the element)
				recv := ci.Common().Args[0]
				for i := 0; i < 6; i++ {
					switch x := engine.Unwrap(recv).(type) {
					case *ssa.UnOp:
						recv = x.X
						continue
					case *ssa.IndexAddr:
						if pv, isP := engine.Unwrap(x.X).(*ssa.Parameter); isP && pv == pfr.Params[0] {
							elemIdx = x.Index
						}
					case *ssa.Alloc:
						// local copy of the element: its single store
						if refs := x.Referrers(); refs != nil {
							for _, rr := range *refs {
								if st, isS := rr.(*ssa.Store); isS && st.Addr == ssa.Value(x) {
									recv = st.Val
								}
							}
						}
						continue
					}
					break
				}
			}
		}
		for _, b := range pfr.Blocks {
			for _, in := range b.Instrs {
				c, isA := isAppend(in)
				if !isA {
					continue
				}
				acc, isPhi := engine.Unwrap(c.Common().Args[0]).(*ssa.Phi)
				if !isPhi {
					why = "the list is not built by appending to the accumulated list (e.g. prepending reverses the configured order)"
					continue
				}
				// the accumulator's back edge is this append
				back := false
				for _, e := range acc.Edges {
					if engine.Unwrap(e) == ssa.Value(c) {
						back = true
					}
				}
				if back {
					ok = true
				}
			}
		}
		if ok && (elemIdx == nil || !increasing(elemIdx)) {
			ok, why = false, "the configured rules are not visited in increasing index order"
		}
		r.Check("R4-order", "ParseFirewallRules: rule functions are appended in the configured order", pfr.Pos(), ok,
			"rules[i].ParseFirewallRule() for increasing i, each result appended after the previous ones", why)
	}
	// (b) AddFirewallRules: append(s.firewallRules, rules...)
	{
		ok := false
		for _, b := range afr.Blocks {
			for _, in := range b.Instrs {
				c, isA := isAppend(in)
				if !isA {
					continue
				}
				a := c.Common().Args
				first := engine.Unwrap(a[0])
				f, _ := engine.FieldOfLoad(first)
				okFirst := f == fwRules
				if ph, isPhi := first.(*ssa.Phi); isPhi {
					okFirst = true
					for _, e := range ph.Edges {
						ff, _ := engine.FieldOfLoad(e)
						if ff != fwRules && !engine.IsNilConst(e) {
							okFirst = false
						}
					}
				}
				if okFirst && isParamValue(a[1], afr.Params[1]) {
					// stored back
					for _, rr := range *c.Referrers() {
						if st, isS := rr.(*ssa.Store); isS {
							if fa, isF := st.Addr.(*ssa.FieldAddr); isF && engine.FieldAddrVar(fa) == fwRules {
								ok = true
							}
						}
					}
				}
			}
		}
		r.Check("R4-order", "AddFirewallRules: new rules go after the existing ones, in the given order", afr.Pos(), ok,
			"s.firewallRules = append(s.firewallRules (or nil after clearExisting), rules...)", "the rule list is not extended by appending the given rules after the existing ones")
	}
	// (b') replacing the list is atomic: every write of firewallRules that AddFirewallRules performs
	// (directly or through a helper) happens in one firewallLock write section
	{
		fwLock := p.Field("netceptor", "Netceptor", "firewallLock")
		var writes []ssa.Instruction
		writesField := func(fn *ssa.Function) bool {
			for _, a := range engine.FieldAccessesIn(fn, fwRules) {
				if a.Kind == engine.AccStore || a.Kind == engine.AccAppend {
					return true
				}
			}
			return false
		}
		for _, a := range engine.FieldAccessesIn(afr, fwRules) {
			if a.Kind == engine.AccStore {
				writes = append(writes, a.Instr)
			}
		}
		for _, ci := range engine.CallsIn(afr) {
			if c := ci.Common().StaticCallee(); c != nil && inPkg(c, "netceptor") && len(c.Blocks) > 0 && writesField(c) {
				writes = append(writes, ci)
			}
		}
		ok, why := len(writes) > 0 && fwLock != nil, "no write of firewallRules found in AddFirewallRules"
		if ok {
			ok, why = atomicSection(p, afr, fwLock, writes, writes)
		}
		r.Check("R4-order", "AddFirewallRules: clearing and extending the list is one firewallLock write section", afr.Pos(), ok,
			"every write of the list in AddFirewallRules (and helpers it calls) runs under one continuously held write lock: no packet is evaluated against a half-replaced (empty) list",
			why+" — while rules are being replaced, packets are evaluated against an empty list and accepted although both the old and the new list would drop them")
	}
	// (d) the node the rules compare is the node the dispatch uses: local delivery is decided by
	// md.ToNode == s.nodeID exactly (aliases are resolved before the packet is built) — C02's rule
	{
		sub := engine.NewReport("C02", r.Tier, p)
		c02(sub, p)
		n := 0
		for _, o := range sub.Obls {
			if o.Rule == "R3-delivery" && strings.Contains(o.Construct, "md.ToNode == s.nodeID") {
				c := *o
				c.Rule = "R4-order"
				c.Construct = "C02 R3-delivery: " + o.Construct
				r.Obls = append(r.Obls, &c)
				n++
			}
		}
		if n == 0 {
			r.Broken("C02 local-delivery obligations not generated")
		}
	}
	// (c) evaluation index increases
	{
		ok, n := true, 0
		for _, a := range engine.FieldAccessesIn(hmd, fwRules) {
			if a.Kind == engine.AccIndex {
				n++
				var idx ssa.Value
				switch x := a.Instr.(type) {
				case *ssa.IndexAddr:
					idx = x.Index
				case *ssa.Index:
					idx = x.Index
				}
				if idx == nil || !increasing(idx) {
					ok = false
				}
			}
		}
		r.Check("R4-order", "handleMessageData: rules are evaluated by increasing index", hmd.Pos(), ok && n > 0,
			"firewallRules[i] with i = previous i + 1 starting at 0", "the rule list is not walked front to back: a later rule can decide before an earlier one")
	}
}
