package rules

import (
	"sort"
	"fmt"
	"go/token"
	"go/types"
	"strings"

	"golang.org/x/tools/go/ssa"

	"rcheck/engine"
)

func init() { register("C15", c15) }

const jwtPkg = "github.com/golang-jwt/jwt/v4"

func c15(r *engine.Report, p *engine.Program) {
	r.Explanation = "Decides that every effectful work command (allocate local/remote unit, cancel, release, force-release, results) in the work ControlFunc is control-dependent on a successful signature decision made in the same command arm, with the work type and sign flag of the unit concerned; that the decision can skip verification only for Unix-socket peers or non-verifying types and refuses an unexpected token; that the verifier succeeds only after non-empty token, key load, parse with claims validation, token.Valid and audience = this node; that the key handed to the JWT library is a typed *rsa.PublicKey. It does not decide the JWT/RSA cryptography or clock behaviour."
	r.NotDecided = []string{"JWT/RSA cryptography (golang-jwt)", "expiry clock behaviour", "that a refusal leaves no partial state at run time"}
	r.Assumptions = []string{"jwt/v4 ParseWithClaims with default parser options validates exp/nbf of RegisteredClaims and rejects a token whose signing method cannot use an *rsa.PublicKey", "(*RegisteredClaims).VerifyAudience(x, true) is true only if x is in the aud claim"}
	var missing []string
	get := func(n string) *ssa.Function {
		fs := p.MustFuncs(&missing, n)
		if len(fs) == 1 {
			r.Anchor(n)
			return fs[0]
		}
		return nil
	}
	cf := get("(*workceptor.workceptorCommand).ControlFunc")
	ps := get("(*workceptor.workceptorCommand).processSignature")
	vs := get("(*workceptor.Workceptor).VerifySignature")
	svs := get("(*workceptor.Workceptor).ShouldVerifySignature")
	cs := get("(*workceptor.Workceptor).createSignature")
	gsw := get("workceptor.getSignWorkFromStatus")
	for _, m := range missing {
		r.Broken("anchor function %s not found", m)
	}
	if len(missing) > 0 {
		return
	}
	_ = gsw

	// R1 effect sites in ControlFunc
	effects := []string{
		"(*workceptor.Workceptor).AllocateUnit", "(*workceptor.Workceptor).AllocateRemoteUnit",
		"(workceptor.WorkUnit).Cancel", "(workceptor.WorkUnit).Release", "(*workceptor.Workceptor).GetResults",
		"(*workceptor.Workceptor).CancelUnit", "(*workceptor.Workceptor).ReleaseUnit", "(*workceptor.Workceptor).StartUnit",
		"(workceptor.WorkUnit).Start", "(workceptor.WorkUnit).Restart",
	}
	psCalls := callsTo(cf, "(*workceptor.workceptorCommand).processSignature")
	nEff := 0
	for _, e := range callsTo(cf, effects...) {
		name := engine.CalleeObj(e.Common()).Name()
		// WorkUnit.Start on the unit just allocated is downstream of AllocateUnit (already guarded): still checked
		nEff++
		var guard *ssa.Call
		for _, c := range psCalls {
			call, ok := c.(*ssa.Call)
			if !ok {
				continue
			}
			if !call.Block().Dominates(e.Block()) {
				continue
			}
			nilE, _ := engine.NilCmpEdges(cf, engine.ResultOfCall(call, -1))
			cut := engine.EdgeSet{}.Add(nilE...)
			if len(nilE) > 0 && engine.Reach(cf, call, cut, nil, func(in ssa.Instruction) bool { return in == ssa.Instruction(e) }) == nil {
				guard = call
			}
		}
		construct := fmt.Sprintf("ControlFunc: %s", name)
		if guard == nil {
			r.Add("R1-effect-guarded", construct, e.Pos(), engine.Violated,
				"this effect is reachable without passing the success edge of a processSignature call that dominates it: a command without a valid token can take effect")
			continue
		}
		o := r.Add("R1-effect-guarded", construct, e.Pos(), engine.Discharged,
			fmt.Sprintf("dominated by processSignature at %s and unreachable when its err == nil edge is removed", p.Pos(guard.Pos())))
		_ = o
		// argument identity (P10)
		why, ok := signatureArgsMatch(p, cf, guard, e)
		r.Check("R1-args", construct+": arguments of the guarding processSignature", guard.Pos(), ok, why, why)
	}
	if nEff < 6 {
		r.Add("R1-effect-guarded", "ControlFunc: effect sites", cf.Pos(), engine.Violated, fmt.Sprintf("expected at least 6 effect call sites (AllocateUnit, AllocateRemoteUnit, Cancel, Release, GetResults, Start), found %d", nEff))
	}
	r.Min("R1-effect-guarded", 6)
	// connIsUnix: true only under addr.Network() == "unix"
	unixTruthRule(r, p, cf, psCalls)

	// R2 who-may: the effect functions are not reachable from any other control command
	checkCallers(r, p, "R2-who-may", "(*workceptor.Workceptor).AllocateUnit", "(*workceptor.workceptorCommand).ControlFunc", "(*workceptor.Workceptor).AllocateRemoteUnit")
	checkCallers(r, p, "R2-who-may", "(*workceptor.Workceptor).AllocateRemoteUnit", "(*workceptor.workceptorCommand).ControlFunc")
	checkCallers(r, p, "R2-who-may", "(*workceptor.Workceptor).GetResults", "(*workceptor.workceptorCommand).ControlFunc")
	checkCallers(r, p, "R2-who-may", "(*workceptor.Workceptor).CancelUnit")
	checkCallers(r, p, "R2-who-may", "(*workceptor.Workceptor).ReleaseUnit")
	checkCallers(r, p, "R2-who-may", "(*workceptor.Workceptor).StartUnit")
	// invocations of WorkUnit.Cancel / Release anywhere in the control cone outside ControlFunc and the units' own methods
	cone := controlCone(r, p)
	for _, fn := range cone.Sorted() {
		if fn == cf || !inPkg(fn, "workceptor", "controlsvc") {
			continue
		}
		for _, ci := range callsTo(fn, "(workceptor.WorkUnit).Cancel", "(workceptor.WorkUnit).Release") {
			top := engine.FuncName(engine.Outermost(fn))
			allowed := strings.HasSuffix(top, ").Release") || strings.HasSuffix(top, ").Cancel") ||
				top == "(*workceptor.Workceptor).CancelUnit" || top == "(*workceptor.Workceptor).ReleaseUnit"
			r.Check("R2-who-may", fmt.Sprintf("%s: invokes WorkUnit.%s", engine.FuncName(fn), engine.CalleeObj(ci.Common()).Name()), ci.Pos(), allowed,
				"inside a unit's own Release/Cancel (already behind the guarded command)", "a unit is cancelled/released from control-reachable code outside the guarded work command")
		}
	}

	// R3 processSignature
	{
		isNilRet := func(in ssa.Instruction) bool {
			ret, ok := in.(*ssa.Return)
			return ok && len(ret.Results) == 1 && engine.IsNilConst(ret.Results[0])
		}
		var should, verify *ssa.Call
		for _, ci := range callsTo(ps, "(*workceptor.Workceptor).ShouldVerifySignature") {
			should, _ = ci.(*ssa.Call)
		}
		for _, ci := range callsTo(ps, "(*workceptor.Workceptor).VerifySignature") {
			verify, _ = ci.(*ssa.Call)
		}
		if should == nil || verify == nil || len(ps.Params) != 5 {
			r.Add("R3-decision", "processSignature: structure", ps.Pos(), engine.Violated, "processSignature no longer calls ShouldVerifySignature and VerifySignature (or changed its parameters)")
		} else {
			pWorkType, pSig, pUnix, pSign := ps.Params[1], ps.Params[2], ps.Params[3], ps.Params[4]
			sT, sF := engine.CondEdges(ps, func(c ssa.Value) (bool, bool) { return c == ssa.Value(should), true })
			uT, _ := engine.CondEdges(ps, func(c ssa.Value) (bool, bool) { return c == ssa.Value(pUnix), true })
			vNil, _ := engine.NilCmpEdges(ps, engine.ResultOfCall(verify, -1))
			gEq, _ := strEqEdges(ps, func(v ssa.Value) bool { return v == ssa.Value(pSig) }, "")
			cut1 := engine.EdgeSet{}.Add(sF...).Add(uT...).Add(vNil...)
			hit := engine.Reach(ps, nil, cut1, nil, isNilRet)
			r.Check("R3-decision", "processSignature: success needs (not verifying | unix peer | verified)", ps.Pos(), hit == nil && len(sF) > 0 && len(uT) > 0 && len(vNil) > 0,
				"return nil is unreachable once the edges 'type does not verify', 'peer is the Unix socket' and 'VerifySignature succeeded' are removed",
				"processSignature can return nil for a verifying work type on a non-Unix connection without a successful VerifySignature")
			cut2 := engine.EdgeSet{}.Add(sT...).Add(gEq...)
			hit2 := engine.Reach(ps, nil, cut2, nil, isNilRet)
			r.Check("R3-decision", "processSignature: unexpected token refused", ps.Pos(), hit2 == nil && len(gEq) > 0,
				"for a non-verifying type, return nil is reachable only with an empty signature",
				"a token sent to a work type that does not expect one is accepted")
			okArgs := verify.Common().Args[1] == ssa.Value(pSig) && should.Common().Args[1] == ssa.Value(pWorkType) && should.Common().Args[2] == ssa.Value(pSign)
			r.Check("R3-decision", "processSignature: arguments forwarded", ps.Pos(), okArgs,
				"VerifySignature(signature) and ShouldVerifySignature(workType, signWork) receive the function's own parameters", "processSignature does not forward its own workType/signature/signWork parameters")
		}
	}

	// R4 VerifySignature
	verifierRules(r, p, vs)

	// R5 createSignature: same method family and claims the verifier reads
	{
		usesRS512 := false
		for _, b := range cs.Blocks {
			for _, in := range b.Instrs {
				for _, op := range in.Operands(nil) {
					if g, ok := (*op).(*ssa.Global); ok && g.Pkg.Pkg.Path() == jwtPkg && g.Name() == "SigningMethodRS512" {
						usesRS512 = true
					}
				}
			}
		}
		setsExp, setsAud := false, false
		for _, b := range cs.Blocks {
			for _, in := range b.Instrs {
				if fa, ok := in.(*ssa.FieldAddr); ok {
					if v := engine.FieldAddrVar(fa); v != nil && v.Pkg() != nil && v.Pkg().Path() == jwtPkg {
						if v.Name() == "ExpiresAt" {
							setsExp = true
						}
						if v.Name() == "Audience" {
							setsAud = true
						}
					}
				}
			}
		}
		r.Check("R5-signer", "createSignature: RS512 + exp + aud", cs.Pos(), usesRS512 && setsExp && setsAud,
			"tokens are signed with RS512 (an RSA method, matching the *rsa.PublicKey the verifier supplies) and carry ExpiresAt and Audience", "createSignature no longer uses RS512 or no longer sets ExpiresAt/Audience")
	}

	// R6 ShouldVerifySignature
	{
		vsField := p.Field("workceptor", "workType", "verifySignature")
		pSign := svs.Params[2]
		pType := svs.Params[1]
		remoteEq, _ := strEqEdges(svs, func(v ssa.Value) bool { return v == ssa.Value(pType) }, "remote")
		vT, _ := engine.CondEdges(svs, func(c ssa.Value) (bool, bool) { f, _ := engine.FieldOfLoad(c); return f == vsField && f != nil, true })
		ok := true
		why := ""
		var acceptable func(v ssa.Value, ret *ssa.Return, seen map[ssa.Value]bool) (bool, string)
		acceptable = func(v ssa.Value, ret *ssa.Return, seen map[ssa.Value]bool) (bool, string) {
			if seen[v] {
				return true, ""
			}
			seen[v] = true
			switch x := v.(type) {
			case *ssa.Parameter:
				if x != pSign {
					return false, "a parameter other than signWork is returned"
				}
				cut := engine.EdgeSet{}.Add(remoteEq...)
				if engine.Reach(svs, nil, cut, nil, func(in ssa.Instruction) bool { return in == ssa.Instruction(ret) }) != nil {
					// a phi may merge the parameter on the remote path only: check the phi edge instead
					return false, "the caller-supplied sign flag is returned for a work type other than remote"
				}
				return true, ""
			case *ssa.Const:
				if x.Value != nil && x.Value.String() == "true" {
					cut := engine.EdgeSet{}.Add(vT...)
					if len(vT) == 0 || engine.Reach(svs, nil, cut, nil, func(in ssa.Instruction) bool { return in == ssa.Instruction(ret) }) != nil {
						return false, "true is returned without the registered type's verifySignature being true"
					}
				}
				return true, ""
			case *ssa.Phi:
				for _, e := range x.Edges {
					if okE, w := acceptable(e, ret, seen); !okE {
						// a parameter merged by a phi: acceptable only if it enters from the remote edge; keep strict
						return false, w
					}
				}
				return true, ""
			case *ssa.UnOp:
				if f, _ := engine.FieldOfLoad(x); f == vsField && f != nil {
					return true, ""
				}
			}
			return false, "unexpected return value " + v.String()
		}
		for _, ret := range engine.Returns(svs) {
			if okR, w := acceptable(ret.Results[0], ret, map[ssa.Value]bool{}); !okR {
				ok, why = false, w
			}
		}
		// negative: for a registered verifying type, false must not be returned: every 'return false' is cut by verifySignature == false or unknown type
		r.Check("R6-should-verify", "ShouldVerifySignature: result provenance", svs.Pos(), ok,
			"returns the sign flag only for \"remote\", true only when the registered type's verifySignature is set, false otherwise", why)
		// a verifying registered type must yield true: 'return false' unreachable when the verifySignature-true edge... (checked by cutting the false edges)
		_, vF := engine.CondEdges(svs, func(c ssa.Value) (bool, bool) { f, _ := engine.FieldOfLoad(c); return f == vsField && f != nil, true })
		okLk, _ := engine.CondEdges(svs, func(c ssa.Value) (bool, bool) {
			e, isE := c.(*ssa.Extract)
			if !isE || e.Index != 1 {
				return false, false
			}
			_, isLk := e.Tuple.(*ssa.Lookup)
			return isLk, true
		})
		_ = okLk
		_, notFound := engine.CondEdges(svs, func(c ssa.Value) (bool, bool) {
			e, isE := c.(*ssa.Extract)
			if !isE || e.Index != 1 {
				return false, false
			}
			_, isLk := e.Tuple.(*ssa.Lookup)
			return isLk, true
		})
		cut := engine.EdgeSet{}.Add(vF...).Add(notFound...).Add(remoteEq...)
		falseRet := engine.Reach(svs, nil, cut, nil, func(in ssa.Instruction) bool {
			ret, isR := in.(*ssa.Return)
			if !isR {
				return false
			}
			c, isC := ret.Results[0].(*ssa.Const)
			return isC && c.Value != nil && c.Value.String() == "false"
		})
		r.Check("R6-should-verify", "ShouldVerifySignature: verifying type yields true", svs.Pos(), falseRet == nil,
			"false is returned only for an unregistered type or one whose verifySignature is false", "a registered verifying work type can be reported as not verifying")
	}
	// the policy lookup and the worker lookup resolve a name to the same registry entry: every
	// access to Workceptor.workTypes uses its key through the same normalisation (today: none)
	if wt := p.Field("workceptor", "Workceptor", "workTypes"); wt != nil {
		norm := map[string][]string{}
		for _, a := range p.FieldAccesses(wt) {
			if engine.IsMock(a.Fn) {
				continue
			}
			var key ssa.Value
			switch x := a.Instr.(type) {
			case *ssa.Lookup:
				if _, isMap := x.X.Type().Underlying().(*types.Map); isMap {
					key = x.Index
				}
			case *ssa.MapUpdate:
				key = x.Key
			case ssa.CallInstruction:
				if b, isB := x.Common().Value.(*ssa.Builtin); isB && b.Name() == "delete" {
					key = x.Common().Args[1]
				}
			}
			if key == nil {
				continue
			}
			n := "as given"
			if c, isC := engine.Unwrap(key).(*ssa.Call); isC {
				if o := engine.CalleeObj(c.Common()); o != nil {
					n = "through " + o.Name()
				}
			}
			norm[n] = append(norm[n], engine.FuncName(a.Fn))
		}
		var kinds []string
		for k := range norm {
			kinds = append(kinds, k)
		}
		sort.Strings(kinds)
		r.Check("R6-should-verify", "Workceptor.workTypes: one key normalisation at every access", token.NoPos, len(kinds) == 1,
			fmt.Sprintf("every lookup/insert uses the work type name %s: the type ShouldVerifySignature judges is the type AllocateUnit instantiates", strings.Join(kinds, ", ")),
			fmt.Sprintf("the registry is keyed inconsistently %v: a name that differs from the configured verifying type only in spelling is judged 'no verification needed' by one lookup and resolved to the verifying worker by the other", norm))
	}
}

// signatureArgsMatch checks that the processSignature call guarding effect e decides about the
// same work type / sign flag / unit that the effect acts on.
func signatureArgsMatch(p *engine.Program, cf *ssa.Function, guard *ssa.Call, e ssa.CallInstruction) (string, bool) {
	args := guard.Common().Args // recv, workType, signature, connIsUnix, signWork
	if len(args) != 5 {
		return "processSignature call has an unexpected number of arguments", false
	}
	wt, sw := args[1], args[4]
	name := engine.CalleeObj(e.Common()).Name()
	fromMap := func(v ssa.Value, helper, key string) bool {
		// v is Extract#0 of helper(c.params, key), possibly merged by a phi with a constant default
		check := func(x ssa.Value) bool {
			ex, ok := x.(*ssa.Extract)
			if !ok || ex.Index != 0 {
				return false
			}
			c, ok := ex.Tuple.(*ssa.Call)
			if !ok || !engine.IsCallTo(c.Common(), "workceptor."+helper) {
				return false
			}
			k, _ := engine.ConstString(c.Common().Args[1])
			return k == key
		}
		if check(v) {
			return true
		}
		if ph, ok := v.(*ssa.Phi); ok {
			found := false
			for _, ed := range ph.Edges {
				if check(ed) {
					found = true
				} else if _, isC := ed.(*ssa.Const); !isC {
					return false
				}
			}
			return found
		}
		return false
	}
	switch name {
	case "AllocateUnit", "AllocateRemoteUnit":
		eargs := e.Common().Args
		var ewt ssa.Value
		if name == "AllocateUnit" {
			ewt = eargs[1]
		} else {
			ewt = eargs[2]
		}
		if ewt != wt || !fromMap(wt, "strFromMap", "worktype") {
			return "the work type checked by processSignature is not the submitted 'worktype' that is allocated", false
		}
		if !fromMap(sw, "boolFromMap", "signwork") {
			return "the sign flag checked is not the submitted 'signwork'", false
		}
		if name == "AllocateRemoteUnit" && eargs[5] != sw {
			return "the sign flag stored in the remote unit differs from the one checked", false
		}
		if !fromMap(args[2], "strFromMap", "signature") {
			return "the signature checked is not the submitted 'signature'", false
		}
		return "processSignature decides about the submitted worktype/signwork/signature, the same values that are allocated", true
	case "Start":
		return "Start acts on the unit just allocated under the same guard", true
	case "Cancel", "Release", "GetResults":
		// wt = status.WorkType, status = unit.Status(); sw = getSignWorkFromStatus(status)
		f, base := engine.FieldOfLoad(wt)
		if f == nil || f.Name() != "WorkType" {
			return "the work type checked is not the stored unit's WorkType", false
		}
		stCall, ok := engine.Unwrap(base).(*ssa.Call)
		if !ok || !engine.IsCallTo(stCall.Common(), "(workceptor.WorkUnit).Status") {
			return "the status checked does not come from unit.Status()", false
		}
		unit := stCall.Common().Value
		swCall, ok := engine.Unwrap(sw).(*ssa.Call)
		if !ok || !engine.IsCallTo(swCall.Common(), "workceptor.getSignWorkFromStatus") || swCall.Common().Args[0] != ssa.Value(stCall) {
			return "the sign flag checked is not getSignWorkFromStatus of the same status", false
		}
		if !fromMap(args[2], "strFromMap", "signature") {
			return "the signature checked is not the command's 'signature' parameter", false
		}
		// the unit acted on
		if name == "GetResults" {
			// unit = findUnit(unitid) with the same unitid passed to GetResults
			ex, ok := unit.(*ssa.Extract)
			if !ok {
				return "unit provenance not recognised", false
			}
			fu, ok := ex.Tuple.(*ssa.Call)
			if !ok || !engine.IsCallTo(fu.Common(), "(*workceptor.Workceptor).findUnit") {
				return "the checked unit does not come from findUnit", false
			}
			if fu.Common().Args[1] != e.Common().Args[2] {
				return "GetResults reads a different unit ID than the one whose work type was checked", false
			}
			return "the unit whose WorkType/SignWork is checked is findUnit(unitid) for the same unitid passed to GetResults", true
		}
		if e.Common().Value != unit {
			return "Cancel/Release is invoked on a different unit value than the one whose status was checked", false
		}
		return "Cancel/Release acts on the same unit whose stored WorkType and SignWork were checked", true
	}
	return "effect " + name + " has no argument rule", false
}

// unixTruthRule: the connIsUnix argument of every processSignature call is true only on paths
// through addr.Network() == "unix" where addr = cfo.RemoteAddr().
func unixTruthRule(r *engine.Report, p *engine.Program, cf *ssa.Function, psCalls []ssa.CallInstruction) {
	isNetworkCall := func(v ssa.Value) bool {
		c, ok := v.(*ssa.Call)
		if !ok || !c.Common().IsInvoke() || c.Common().Method.Name() != "Network" {
			return false
		}
		ra, ok := c.Common().Value.(*ssa.Call)
		return ok && ra.Common().IsInvoke() && ra.Common().Method.Name() == "RemoteAddr" && ra.Common().Value == ssa.Value(cf.Params[3])
	}
	eq, _ := strEqEdges(cf, isNetworkCall, "unix")
	for _, c := range psCalls {
		v := c.Common().Args[3]
		ok := false
		why := "connIsUnix is not a merge of false and a true set under addr.Network() == \"unix\""
		if ph, isPhi := v.(*ssa.Phi); isPhi && len(eq) > 0 {
			ok = true
			for i, ed := range ph.Edges {
				k, isC := ed.(*ssa.Const)
				if !isC || k.Value == nil {
					ok = false
					break
				}
				if k.Value.String() == "true" {
					pred := ph.Block().Preds[i]
					cut := engine.EdgeSet{}.Add(eq...)
					if len(pred.Instrs) == 0 || engine.Reach(cf, nil, cut, nil, func(in ssa.Instruction) bool { return in.Block() == pred }) != nil {
						ok = false
						why = "connIsUnix can be true on a path that does not pass addr.Network() == \"unix\""
					}
				}
			}
		} else if k, isC := v.(*ssa.Const); isC && k.Value != nil && k.Value.String() == "false" {
			ok = true
		} else if bo, isB := v.(*ssa.BinOp); isB && bo.Op == token.EQL {
			// connIsUnix := addr.Network() == "unix"
			if s, isS := engine.ConstString(bo.Y); isS && s == "unix" && isNetworkCall(bo.X) {
				ok = true
			}
			if s, isS := engine.ConstString(bo.X); isS && s == "unix" && isNetworkCall(bo.Y) {
				ok = true
			}
		}
		r.Check("R3-unix-only", "ControlFunc: connIsUnix passed to processSignature", c.Pos(), ok,
			"connIsUnix is true only when cfo.RemoteAddr().Network() == \"unix\"", why)
	}
}

func verifierRules(r *engine.Report, p *engine.Program, vs *ssa.Function) {
	isNilRet := func(in ssa.Instruction) bool {
		ret, ok := in.(*ssa.Return)
		return ok && len(ret.Results) == 1 && engine.IsNilConst(ret.Results[0])
	}
	nSucc := 0
	for _, ret := range engine.Returns(vs) {
		if isNilRet(ret) {
			nSucc++
		}
	}
	type cond struct {
		name  string
		edges []engine.Edge
	}
	var conds []cond
	pSig := vs.Params[1]
	_, sigNE := strEqEdges(vs, func(v ssa.Value) bool { return v == ssa.Value(pSig) }, "")
	conds = append(conds, cond{"signature is non-empty", sigNE})
	vk := p.Field("workceptor", "Workceptor", "VerifyingKey")
	_, keyNE := strEqEdges(vs, fieldLoadIs(vk), "")
	conds = append(conds, cond{"a verifying key is configured", keyNE})
	var load, parse *ssa.Call
	for _, ci := range callsTo(vs, "certificates.LoadPublicKey") {
		load, _ = ci.(*ssa.Call)
	}
	for _, ci := range engine.CallsIn(vs) {
		if o := engine.CalleeObj(ci.Common()); o != nil && o.Pkg() != nil && o.Pkg().Path() == jwtPkg && o.Name() == "ParseWithClaims" {
			parse, _ = ci.(*ssa.Call)
		}
	}
	if load != nil {
		nilE, _ := engine.NilCmpEdges(vs, engine.ResultOfCall(load, -1))
		conds = append(conds, cond{"LoadPublicKey succeeded", nilE})
	} else {
		conds = append(conds, cond{"LoadPublicKey succeeded", nil})
	}
	var token ssa.Value
	if parse != nil {
		nilE, _ := engine.NilCmpEdges(vs, engine.ResultOfCall(parse, -1))
		conds = append(conds, cond{"ParseWithClaims succeeded", nilE})
		for _, v := range callResult(parse, 0) {
			token = v
		}
	} else {
		conds = append(conds, cond{"ParseWithClaims succeeded", nil})
	}
	// token.Valid
	validT, _ := engine.CondEdges(vs, func(c ssa.Value) (bool, bool) {
		f, base := engine.FieldOfLoad(c)
		return f != nil && f.Name() == "Valid" && f.Pkg() != nil && f.Pkg().Path() == jwtPkg && (token == nil || engine.Unwrap(base) == token), true
	})
	conds = append(conds, cond{"token.Valid", validT})
	// VerifyAudience(nodeID, true)
	var aud *ssa.Call
	for _, ci := range engine.CallsIn(vs) {
		if o := engine.CalleeObj(ci.Common()); o != nil && o.Name() == "VerifyAudience" && o.Pkg() != nil && o.Pkg().Path() == jwtPkg {
			aud, _ = ci.(*ssa.Call)
		}
	}
	var audT []engine.Edge
	if aud != nil {
		audT, _ = engine.CondEdges(vs, func(c ssa.Value) (bool, bool) { return c == ssa.Value(aud), true })
	}
	conds = append(conds, cond{"VerifyAudience(this node) is true", audT})
	for _, c := range conds {
		ok := len(c.edges) > 0 && nSucc > 0
		if ok {
			cut := engine.EdgeSet{}.Add(c.edges...)
			ok = engine.Reach(vs, nil, cut, nil, isNilRet) == nil
		}
		r.Check("R4-verifier", "VerifySignature: success requires "+c.name, vs.Pos(), ok,
			"return nil is unreachable once the edges on which this condition holds are removed",
			"VerifySignature can return nil although the condition '"+c.name+"' was not established")
	}
	r.Min("R4-verifier", 6)
	// audience argument: this node's ID and required = true
	if aud != nil {
		a := aud.Common().Args
		idCall, isCall := a[1].(*ssa.Call)
		okID := isCall && idCall.Common().IsInvoke() && idCall.Common().Method.Name() == "NodeID"
		req, isC := a[2].(*ssa.Const)
		okReq := isC && req.Value != nil && req.Value.String() == "true"
		r.Check("R4-verifier", "VerifySignature: audience argument", aud.Pos(), okID && okReq,
			"VerifyAudience is asked for w.nc.NodeID() with required=true", "the audience check no longer compares with this node's ID or is not mandatory (required=false accepts a token without audience)")
	}
	// claims validation must not be disabled, parse must use RegisteredClaims and the package-level or default parser
	disabled := []string{}
	p.AllInstrs(func(fn *ssa.Function, in ssa.Instruction) {
		if !inPkg(fn, "workceptor") {
			return
		}
		if ci, ok := in.(ssa.CallInstruction); ok {
			if o := engine.CalleeObj(ci.Common()); o != nil && o.Pkg() != nil && o.Pkg().Path() == jwtPkg {
				switch o.Name() {
				case "WithoutClaimsValidation", "ParseUnverified":
					disabled = append(disabled, engine.FuncName(fn)+" calls jwt."+o.Name()+" at "+p.Pos(in.Pos()))
				}
			}
		}
		if fa, ok := in.(*ssa.FieldAddr); ok {
			if v := engine.FieldAddrVar(fa); v != nil && v.Pkg() != nil && v.Pkg().Path() == jwtPkg && (v.Name() == "SkipClaimsValidation") {
				disabled = append(disabled, engine.FuncName(fn)+" touches Parser.SkipClaimsValidation at "+p.Pos(in.Pos()))
			}
		}
	})
	r.Check("R4-verifier", "VerifySignature: claims validation enabled", vs.Pos(), len(disabled) == 0 && parse != nil,
		"the token is parsed with claims validation (expiry) enabled: no WithoutClaimsValidation / ParseUnverified / SkipClaimsValidation in package workceptor",
		fmt.Sprintf("claims validation (expiry check) is disabled or bypassed: %v", disabled))
	if parse != nil {
		// claims argument type
		var claims ssa.Value
		args := parse.Common().Args
		if parse.Common().Signature().Recv() != nil {
			claims = args[2]
		} else {
			claims = args[1]
		}
		ct := engine.Unwrap(claims).Type().String()
		r.Check("R4-verifier", "VerifySignature: claims type", parse.Pos(), ct == "*"+jwtPkg+".RegisteredClaims",
			"claims are parsed into *jwt.RegisteredClaims, whose Valid() checks exp/nbf/iat", "claims are parsed into "+ct+", whose validation the rule does not know")
		// key func returns a typed *rsa.PublicKey
		var kf *ssa.Function
		for _, a := range args {
			switch x := engine.Unwrap(a).(type) {
			case *ssa.MakeClosure:
				kf = x.Fn.(*ssa.Function)
			case *ssa.Function:
				kf = x
			}
		}
		ok := kf != nil
		if kf != nil {
			for _, ret := range engine.Returns(kf) {
				mi, isMI := ret.Results[0].(*ssa.MakeInterface)
				if !isMI || mi.X.Type().String() != "*crypto/rsa.PublicKey" {
					ok = false
				}
			}
		}
		r.Check("R4-verifier", "VerifySignature: key func returns *rsa.PublicKey", parse.Pos(), ok,
			"the key handed to the JWT library has static type *rsa.PublicKey, so only RSA methods can verify (no HMAC/none confusion)",
			"the key func can return something other than a typed *rsa.PublicKey")
	}
	_ = types.Typ
	_ = token
}

var _ = token.NoPos
