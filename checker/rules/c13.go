package rules

import (
	"go/types"
	"fmt"
	"go/token"
	"sort"
	"strings"

	"golang.org/x/tools/go/ssa"

	"rcheck/engine"
)

func init() { register("C13", c13) }

// nonConstStateSites: functions allowed to pass a non-constant state to UpdateBasicStatus / store
// a non-constant State.
var nonConstStateSites = map[string]string{
	"(*workceptor.remoteUnit).monitorRemoteStatus":         "mirrors the remote record's state (the remote node enforces its own monotonicity)",
	"(*workceptor.StatusFileData).UpdateBasicStatus":       "wrapper: forwards its state parameter",
	"(*workceptor.StatusFileData).UpdateBasicStatus$1":     "wrapper callback: stores the wrapper's state parameter",
	"(*workceptor.BaseWorkUnit).UpdateBasicStatus":         "wrapper: forwards its state parameter",
	"(*workceptor.KubeUnit).kubeLoggingWithReconnect":      "kubernetes worker: forwards a computed terminal state (outside the decided clause)",
	"(*workceptor.KubeUnit).runWorkUsingLogger":            "kubernetes worker (outside the decided clause)",
	"(*workceptor.KubeUnit).runWorkUsingTCP":               "kubernetes worker (outside the decided clause)",
}

func c13(r *engine.Report, p *engine.Program) {
	r.Explanation = "Decides (R1) unit-ID uniqueness within a daemon: generateUnitID is called only from AllocateUnit, without its own locking, inside AllocateUnit's activeUnitsLock write section that also contains the index insertion, with no release in between; (R2) release removes: every WorkUnit.Release implementation can reach BaseWorkUnit.Release, inside which the directory removal precedes the index delete on every path and a successful return passes the delete; (R3) per-writer monotonicity: along every CFG path of every function of package workceptor (kubernetes worker excluded) the constant states written do not decrease in stage (pending < running < finished) and a terminal constant is never followed by a different one; (R4) the set of sites writing a non-constant state is frozen; (R5) Cancel signals the recorded process and writes Canceled only after waiting for it; Release cancels first. It does not decide cross-writer races (daemon vs runner vs remote mirror) or output-size monotonicity at run time."
	r.NotDecided = []string{"cross-writer races between daemon Cancel and the runner's final write", "remote state fidelity", "StdoutSize monotonicity at run time", "uniqueness across two daemons sharing a data directory"}
	r.Assumptions = []string{"sync.RWMutex mutual exclusion", "os.Stat/MkdirAll reflect the directory state under the lock"}
	au := p.Func("(*workceptor.Workceptor).AllocateUnit")
	gen := p.Func("(*workceptor.Workceptor).generateUnitID")
	rel := p.Func("(*workceptor.BaseWorkUnit).Release")
	active := p.Field("workceptor", "Workceptor", "activeUnits")
	aLock := p.Field("workceptor", "Workceptor", "activeUnitsLock")
	if au == nil || gen == nil || rel == nil || active == nil || aLock == nil {
		r.Broken("C13 anchors not found")
		return
	}
	// R1
	checkCallers(r, p, "R1-unique-id", "(*workceptor.Workceptor).generateUnitID", "(*workceptor.Workceptor).AllocateUnit")
	var genCall ssa.CallInstruction
	for _, ci := range callsTo(au, "(*workceptor.Workceptor).generateUnitID") {
		genCall = ci
	}
	var insert ssa.Instruction
	for _, a := range engine.FieldAccessesIn(au, active) {
		if a.Kind == engine.AccMapUpdate {
			insert = a.Instr
		}
	}
	if genCall == nil || insert == nil {
		r.Add("R1-unique-id", "AllocateUnit: generateUnitID call and index insertion", au.Pos(), engine.Violated, "AllocateUnit no longer calls generateUnitID or no longer inserts into activeUnits")
	} else {
		lf := p.Locks(au)
		var lockKey string
		for _, op := range lf.Ops() {
			if op.Path.Last() == aLock && op.Acquire {
				lockKey = op.Path.String()
			}
		}
		h1, h2 := lf.HeldAt(genCall), lf.HeldAt(insert)
		ok := lockKey != "" && h1[lockKey] == engine.LockW && h2[lockKey] == engine.LockW
		why := fmt.Sprintf("ID generation holds %s, insertion holds %s; both must hold the activeUnitsLock write lock", h1, h2)
		if ok {
			isIns := func(in ssa.Instruction) bool { return in == insert }
			for _, op := range lf.Ops() {
				if op.Acquire || op.Path.Last() != aLock || op.Deferred {
					continue
				}
				u := op.Call.(ssa.Instruction)
				if engine.Reach(au, genCall, nil, isIns, func(in ssa.Instruction) bool { return in == u }) != nil && engine.Reach(au, u, nil, nil, isIns) != nil {
					ok = false
					why = "activeUnitsLock is released between generating the ID and indexing the unit"
				}
			}
		}
		r.Check("R1-unique-id", "AllocateUnit: ID generation + indexing in one activeUnitsLock write section", insert.Pos(), ok,
			"the freshness test/MkdirAll (generateUnitID) and activeUnits[ident] = worker run under one write-lock section", "ID generation and indexing are not atomic: "+why+" (two concurrent submissions can obtain the same ID/directory, or a rescan can index a second object for it)")
		// the callee must not lock itself (argument false) — otherwise it would self-deadlock, and with
		// argument true + no outer lock the test is only read-locked
		k, isC := genCall.Common().Args[1].(*ssa.Const)
		r.Check("R1-unique-id", "AllocateUnit: generateUnitID(lock=false) under the caller's lock", genCall.Pos(), isC && k.Value != nil && k.Value.String() == "false",
			"generateUnitID is told not to lock because AllocateUnit already holds the write lock", "generateUnitID is asked to take its own (read) lock: the freshness test is not exclusive")
	}
	// inside generateUnitID: freshness = activeUnits miss ∧ Stat miss, then MkdirAll
	{
		var lk *ssa.Lookup
		for _, a := range engine.FieldAccessesIn(gen, active) {
			if l, ok := a.Instr.(*ssa.Lookup); ok && l.CommaOk {
				lk = l
			}
		}
		mk := callsTo(gen, "os.MkdirAll")
		st := callsTo(gen, "os.Stat")
		ok := lk != nil && len(mk) == 1 && len(st) == 1
		if ok {
			_, miss := engine.CondEdges(gen, func(c ssa.Value) (bool, bool) {
				e, isE := c.(*ssa.Extract)
				return isE && e.Index == 1 && e.Tuple == ssa.Value(lk), true
			})
			statErr := engine.ResultOfCall(st[0].(*ssa.Call), -1)
			_, nonNil := engine.NilCmpEdges(gen, statErr)
			isMk := func(in ssa.Instruction) bool { return in == ssa.Instruction(mk[0]) }
			c1 := engine.EdgeSet{}.Add(miss...)
			c2 := engine.EdgeSet{}.Add(nonNil...)
			ok = len(miss) > 0 && len(nonNil) > 0 && engine.Reach(gen, nil, c1, nil, isMk) == nil && engine.Reach(gen, nil, c2, nil, isMk) == nil
		}
		r.Check("R1-unique-id", "generateUnitID: directory created only for an ID that is neither indexed nor on disk", gen.Pos(), ok,
			"MkdirAll is unreachable unless the activeUnits lookup missed and os.Stat reported an error", "an ID that is already indexed or whose directory exists can be handed out again")
	}

	// R2 release
	for _, impl := range p.Implementations("workceptor", "WorkUnit", "Release") {
		if engine.IsMock(impl) {
			continue
		}
		if impl == rel {
			continue
		}
		cone := p.Cone([]*ssa.Function{impl})
		r.Check("R2-release-removes", engine.FuncName(impl)+": reaches BaseWorkUnit.Release", impl.Pos(), cone.Fns[rel],
			"the base release (directory removal + index delete) is reachable: "+cone.PathTo(rel), "this Release implementation can no longer reach BaseWorkUnit.Release: the unit is never forgotten")
	}
	{
		var del ssa.Instruction
		for _, a := range engine.FieldAccessesIn(rel, active) {
			if a.Kind == engine.AccMapDelete {
				del = a.Instr
			}
		}
		var rm []ssa.Instruction
		for _, ci := range engine.CallsIn(rel) {
			if ci.Common().IsInvoke() && ci.Common().Method.Name() == "RemoveAll" {
				rm = append(rm, ci)
			}
			if engine.IsCallTo(ci.Common(), "os.RemoveAll") {
				rm = append(rm, ci)
			}
		}
		ok := del != nil && len(rm) > 0
		why := "BaseWorkUnit.Release no longer deletes from activeUnits or no longer removes the unit directory"
		if ok {
			isDel := func(in ssa.Instruction) bool { return in == del }
			if engine.Reach(rel, nil, nil, func(in ssa.Instruction) bool { return isOneOf(in, rm) }, isDel) != nil {
				ok = false
				why = "the unit is deleted from the index before its directory is removed: a lookup in between finds the directory, rebuilds the unit from disk and re-indexes it, so a released unit stays known"
			}
			if bad := engine.Reach(rel, nil, nil, isDel, func(in ssa.Instruction) bool {
				ret, isR := in.(*ssa.Return)
				return isR && engine.IsNilConst(ret.Results[0])
			}); bad != nil {
				ok = false
				why = "Release can report success without deleting the unit from the index"
			}
			// a non-forced removal error returns before the delete
			force := rel.Params[1]
			fT, _ := engine.CondEdges(rel, func(c ssa.Value) (bool, bool) { return c == ssa.Value(force), true })
			for _, rmc := range rm {
				call, isCall := rmc.(*ssa.Call)
				if !isCall {
					continue
				}
				cut, tested := assumeFails(rel, call)
				if !tested {
					ok = false
					why = "the error of RemoveAll is never tested"
					continue
				}
				cut.Add(fT...)
				// assume the removal keeps failing and force is false: the delete must be unreachable
				if engine.Reach(rel, call, cut, nil, isDel) != nil {
					ok = false
					why = "a non-forced release whose directory removal fails still forgets the unit"
				}
			}
		}
		r.Check("R2-release-removes", "BaseWorkUnit.Release: RemoveAll before delete(activeUnits), success implies delete", rel.Pos(), ok,
			"on every path the directory removal precedes the index delete; a nil return passes the delete; a non-forced removal failure never reaches it", why)
	}

	// R3 per-writer monotonicity over constant states
	nFn, nPairs := 0, 0
	for _, fn := range p.Funcs() {
		if !inPkg(fn, "workceptor") || engine.IsMock(fn) || strings.Contains(engine.FuncName(fn), "Kube") || strings.Contains(fileOf(p, fn), "kubernetes") {
			continue
		}
		ws := stateWrites(p, fn)
		if len(ws) == 0 {
			continue
		}
		nFn++
		for _, w := range ws {
			if w.state < 0 {
				name := engine.FuncName(fn)
				why, ok := nonConstStateSites[name]
				r.Check("R4-nonconst-state-sites", name+": non-constant state write", w.in.Pos(), ok, "frozen table: "+why,
					"a new site writes a state that is not a compile-time constant: monotonicity cannot be decided for it")
			}
		}
		for _, w1 := range ws {
			if w1.state < 0 {
				continue
			}
			for _, w2 := range ws {
				if w2.state < 0 {
					continue
				}
				if w1.in == w2.in {
					// self-loop: the same write can repeat (e.g. Running in the runner loop): fine
					continue
				}
				if engine.Reach(fn, w1.in, nil, nil, func(in ssa.Instruction) bool { return in == w2.in }) == nil {
					continue
				}
				nPairs++
				s1, s2 := stageOf(w1.state), stageOf(w2.state)
				ok := s2 >= s1 && !(s1 == 2 && w2.state != w1.state)
				construct := fmt.Sprintf("%s: %s then %s", engine.FuncName(fn), stateName(w1.state), stateName(w2.state))
				r.Check("R3-monotone-writer", construct, w2.in.Pos(), ok,
					"along this path the stage does not decrease", fmt.Sprintf("this function can write %s after %s: the reported state moves backwards or a final state is replaced", stateName(w2.state), stateName(w1.state)))
			}
		}
	}
	r.Extra["state_writing_functions"] = nFn
	r.Extra["ordered_write_pairs"] = nPairs
	r.Min("R3-monotone-writer", 8)

	// R3b the whole-record overwrite (Save, which does not re-read the stored record) is used only
	// before a unit is published; afterwards it would write a stale in-memory state back
	{
		var callers []string
		p.AllInstrs(func(fn *ssa.Function, in ssa.Instruction) {
			if engine.IsMock(fn) || !inPkg(fn, "workceptor") {
				return
			}
			if ci, ok := in.(ssa.CallInstruction); ok && isMethodCall(ci, "Save", "workceptor") {
				if o := engine.CalleeObj(ci.Common()); o != nil && o.FullName() != "(*"+engine.ModPath+"/pkg/workceptor.StatusFileData).Save" {
					callers = append(callers, engine.FuncName(engine.Outermost(fn)))
				}
			}
		})
		sort.Strings(callers)
		r.Check("R3-monotone-writer", "WorkUnit.Save (overwrite without re-read): callers", token.NoPos, len(callers) == 1 && callers[0] == "(*workceptor.Workceptor).AllocateUnit",
			"only AllocateUnit, before the unit is published", fmt.Sprintf("Save is called from %v: the daemon's stale in-memory record (e.g. Pending, size 0) overwrites progress the runner already reported — the state moves backwards and the output size shrinks", callers))
	}

	// R5 cancel / release of command units
	cc := p.Func("(*workceptor.commandUnit).Cancel")
	cr := p.Func("(*workceptor.commandUnit).Release")
	if cc == nil || cr == nil {
		r.Broken("commandUnit.Cancel/Release not found")
		return
	}
	{
		sig := callsTo(cc, "(*os.Process).Signal")
		wait := callsTo(cc, "(*os.Process).Wait")
		var canc ssa.Instruction
		for _, w := range stateWrites(p, cc) {
			if w.state == 4 {
				canc = w.in
			}
		}
		ok := len(sig) == 1 && len(wait) == 1 && canc != nil
		if ok {
			isWait := func(in ssa.Instruction) bool { return in == ssa.Instruction(wait[0]) }
			isSig := func(in ssa.Instruction) bool { return in == ssa.Instruction(sig[0]) }
			ok = engine.Reach(cc, nil, nil, isWait, func(in ssa.Instruction) bool { return in == canc }) == nil &&
				engine.Reach(cc, nil, nil, isSig, isWait) == nil
		}
		r.Check("R5-cancel", "commandUnit.Cancel: signal, wait, then Canceled", cc.Pos(), ok,
			"Canceled is written only after proc.Wait(), which is reached only after proc.Signal()", "Cancel can report Canceled without having signalled and waited for the process")
		// Release calls Cancel first
		var cancelCall, baseRel ssa.Instruction
		for _, ci := range engine.CallsIn(cr) {
			if o := engine.CalleeObj(ci.Common()); o != nil {
				if o.Name() == "Cancel" {
					cancelCall = ci
				}
				if o.Name() == "Release" {
					baseRel = ci
				}
			}
		}
		ok2 := cancelCall != nil && baseRel != nil && engine.Reach(cr, nil, nil, func(in ssa.Instruction) bool { return in == cancelCall }, func(in ssa.Instruction) bool { return in == baseRel }) == nil
		r.Check("R5-cancel", "commandUnit.Release: cancels before releasing", cr.Pos(), ok2, "the base release is reached only after Cancel()", "a command unit can be released without cancelling its process")
	}
	// R5c a remote unit cancelled before its remote work started: the background connect-and-start
	// job is stopped (topJC.Cancel, Wait) before the unit is declared cancelled or released
	if cor := p.Func("(*workceptor.remoteUnit).cancelOrRelease"); cor != nil {
		var stops, waits []ssa.Instruction
		for _, ci := range engine.CallsIn(cor) {
			c := ci.Common()
			if f, _ := engine.FieldOfLoad(c.Value); c.IsInvoke() && f != nil && f.Name() == "topJC" {
				switch c.Method.Name() {
				case "Cancel":
					stops = append(stops, ci)
				case "Wait":
					waits = append(waits, ci)
				}
			}
			if !c.IsInvoke() && len(c.Args) > 0 {
				if f, _ := engine.FieldOfLoad(c.Args[0]); f != nil && f.Name() == "topJC" {
					if o := engine.CalleeObj(c); o != nil {
						switch o.Name() {
						case "Cancel":
							stops = append(stops, ci)
						case "Wait":
							waits = append(waits, ci)
						}
					}
				}
			}
		}
		// edges on which remoteStarted is false
		_, notStarted := engine.CondEdges(cor, func(c ssa.Value) (bool, bool) {
			u, ok := c.(*ssa.UnOp)
			if !ok || u.Op != token.MUL {
				return false, false
			}
			al, isAl := u.X.(*ssa.Alloc)
			return isAl && al.Comment == "remoteStarted", true
		})
		ok, why := len(stops) > 0 && len(waits) > 0 && len(notStarted) > 0, "topJC.Cancel()/Wait() or the remoteStarted test not found in cancelOrRelease"
		if ok {
			isStop := func(in ssa.Instruction) bool { return isOneOf(in, stops) }
			for _, e := range notStarted {
				if hit := reachFromEdge(cor, e, nil, isStop, func(in ssa.Instruction) bool { _, isR := in.(*ssa.Return); return isR }); hit != nil {
					ok = false
					why = "with the remote work not yet started, cancelOrRelease can return at " + descInstr(p, hit) + " without stopping the unit's background job: after a plain cancel the job still submits the work once the node is reachable, and the remote state then overwrites the local Failed/cancelled record"
				}
			}
		}
		r.Check("R5-cancel", "remoteUnit.cancelOrRelease: a not-yet-started remote unit's background job is stopped on cancel and on release", cor.Pos(), ok,
			"from the remoteStarted == false edge every return passes topJC.Cancel()", why)
	} else {
		r.Broken("remoteUnit.cancelOrRelease not found")
	}
	// R5d a command that ignores the interrupt is killed when the grace period ends
	if ttk := p.Func("workceptor.termThenKill"); ttk != nil {
		var sel *ssa.Select
		timerIdx := -1
		for _, b := range ttk.Blocks {
			for _, in := range b.Instrs {
				if s0, ok := in.(*ssa.Select); ok {
					for i, st := range s0.States {
						// the grace-period arm: a receive from a timer channel (time.After, Timer.C, ...)
						if ch, isCh := st.Chan.Type().Underlying().(*types.Chan); isCh && st.Dir == types.RecvOnly && ch.Elem().String() == "time.Time" {
							sel, timerIdx = s0, i
						}
					}
				}
			}
		}
		var kills []ssa.Instruction
		for _, ci := range engine.CallsIn(ttk) {
			if engine.IsCallTo(ci.Common(), "(*os.Process).Kill") {
				kills = append(kills, ci)
			}
		}
		ok, why := sel != nil && len(kills) > 0, "the grace-period select or the Kill call was not found in termThenKill"
		if ok {
			isIdx := func(v ssa.Value) bool {
				e, isE := v.(*ssa.Extract)
				return isE && e.Tuple == ssa.Value(sel) && e.Index == 0
			}
			timer, _ := engine.IntCmpEdges(ttk, isIdx, 0, token.EQL, int64(timerIdx))
			// assume the process was started: remove the Process == nil outcomes
			procNil, _ := engine.NilCmpEdges(ttk, func(v ssa.Value) bool { f, _ := engine.FieldOfLoad(v); return f != nil && f.Name() == "Process" })
			cut := engine.EdgeSet{}.Add(procNil...)
			if len(timer) == 0 {
				ok, why = false, "the timer arm of the select was not identified"
			}
			for _, e := range timer {
				if hit := reachFromEdge(ttk, e, cut, func(in ssa.Instruction) bool { return isOneOf(in, kills) }, func(in ssa.Instruction) bool { _, isR := in.(*ssa.Return); return isR }); hit != nil {
					ok = false
					why = "after the grace period a started process can be left alive: a return is reachable from the timer arm without Process.Kill() (the guard is not on cmd.Process): a payload that ignores SIGINT keeps running after the unit was cancelled or released"
				}
			}
		}
		r.Check("R5-cancel", "termThenKill: when the grace period ends a started process is killed", ttk.Pos(), ok,
			"from the timer arm of the select, with cmd.Process != nil, every return passes Process.Kill()", why)
	} else {
		r.Broken("termThenKill not found")
	}
	// R1b a rescanned unit is indexed under the canonical name of its directory entry (not under
	// whatever spelling of the ID the caller used): one directory, one index entry
	if sfu := p.Func("(*workceptor.Workceptor).scanForUnit"); sfu != nil {
		au := p.Field("workceptor", "Workceptor", "activeUnits")
		isEntryName := func(v ssa.Value) bool {
			c, ok := engine.Unwrap(v).(*ssa.Call)
			if !ok || !c.Common().IsInvoke() || c.Common().Method.Name() != "Name" {
				return false
			}
			// receiver: the FileInfo returned by os.Stat
			if e, isE := engine.Unwrap(c.Common().Value).(*ssa.Extract); isE {
				if sc, isC := e.Tuple.(*ssa.Call); isC && (engine.IsCallTo(sc.Common(), "os.Stat") || engine.IsCallTo(sc.Common(), "os.Lstat")) {
					return true
				}
			}
			return false
		}
		ok, n := true, 0
		for _, a := range engine.FieldAccessesIn(sfu, au) {
			var key ssa.Value
			switch x := a.Instr.(type) {
			case *ssa.MapUpdate:
				key = x.Key
			case *ssa.Lookup:
				key = x.Index
			}
			if key == nil {
				continue
			}
			n++
			if !isEntryName(key) {
				ok = false
			}
		}
		for _, ci := range engine.CallsIn(sfu) {
			// the worker is constructed for the same canonical name
			if f, _ := engine.FieldOfLoad(ci.Common().Value); f != nil && f.Name() == "newWorkerFunc" {
				if len(ci.Common().Args) >= 3 && !isEntryName(ci.Common().Args[2]) {
					ok = false
				}
			}
		}
		r.Check("R1-unique-id", "scanForUnit: a unit found on disk is looked up, constructed and indexed under its directory entry's own name", sfu.Pos(), ok && n >= 2,
			fmt.Sprintf("%d index accesses, all keyed by os.Stat(...).Name() of the unit directory", n),
			"the index key (or the constructed unit's ID) is not the directory entry's name: a path-like alias of an existing unit (./ID, ID/) creates a second known unit on the same directory — its restart rewrites the real unit's record and its release deletes the real unit's files")
	}
	// R3b the expiry timer judges the unit by a status read AFTER the timer fired
	if se := p.Func("(*workceptor.remoteUnit).setExpiration"); se != nil {
		rsF := p.Field("workceptor", "RemoteExtraData", "RemoteStarted")
		var sel *ssa.Select
		for _, b := range se.Blocks {
			for _, in := range b.Instrs {
				if x, isS := in.(*ssa.Select); isS {
					sel = x
				}
			}
		}
		ok, n := sel != nil, 0
		if ok {
			// the decision may sit in a private helper of setExpiration: then the Status() call must
			// be in the helper and every call of the helper must come after the timer select
			type loadAt struct {
				a      engine.Access
				helper *ssa.Function
			}
			var loads []loadAt
			for _, a := range engine.FieldAccessesIn(se, rsF) {
				loads = append(loads, loadAt{a, nil})
			}
			for _, ci := range engine.CallsIn(se) {
				c := ci.Common().StaticCallee()
				if c == nil || len(c.Blocks) == 0 || c == se || privateHelperOf(p, c, map[string]bool{engine.FuncName(se): true}) == "" {
					continue
				}
				for _, a := range engine.FieldAccessesIn(c, rsF) {
					loads = append(loads, loadAt{a, c})
				}
			}
			for _, la := range loads {
				a := la.a
				if a.Kind != engine.AccLoad {
					continue
				}
				n++
				// base: typeassert(load ExtraData(Status() call)) — find the Status call
				v := a.Base
				var call *ssa.Call
				for i := 0; i < 12 && v != nil; i++ {
					switch x := engine.Unwrap(v).(type) {
					case *ssa.TypeAssert:
						v = x.X
					case *ssa.Extract:
						v = x.Tuple
					case *ssa.UnOp:
						v = x.X
					case *ssa.FieldAddr:
						v = x.X
					case *ssa.Call:
						call = x
						v = nil
					case *ssa.Alloc:
						// a variable captured by a closure: follow its single store
						var sv ssa.Value
						ns := 0
						if refs := x.Referrers(); refs != nil {
							for _, rr := range *refs {
								if st, isS := rr.(*ssa.Store); isS && st.Addr == ssa.Value(x) {
									sv = st.Val
									ns++
								}
							}
						}
						if ns == 1 {
							v = sv
						} else {
							v = nil
						}
					default:
						v = nil
					}
				}
				afterSel := func(in ssa.Instruction) bool {
					return sel.Block().Dominates(in.Block()) && (in.Block() != sel.Block() || after(sel, in))
				}
				switch {
				case call == nil:
					ok = false
				case la.helper == nil:
					if !afterSel(call) {
						ok = false
					}
				default:
					if call.Parent() != la.helper {
						ok = false
					}
					for _, ci := range engine.CallsIn(se) {
						if ci.Common().StaticCallee() == la.helper && !afterSel(ci) {
							ok = false
						}
					}
				}
			}
		}
		r.Check("R3-monotone-writer", "setExpiration: 'remote work started' is read from the status after the timer fired", se.Pos(), ok && n > 0,
			"the RemoteStarted value that decides the Failed/'expired' write comes from a Status() call dominated by the timer select",
			"the expiry decision uses a status snapshot taken when the timer was armed: a unit whose remote work started (or even succeeded) before the ttl is rewritten to Failed when the ttl fires")
	}
	// R6 the "finished" predicate every other rule and every poller relies on
	if ic := p.Func("workceptor.IsComplete"); ic != nil {
		want := map[string]bool{"WorkStatePending": false, "WorkStateRunning": false, "WorkStateSucceeded": true, "WorkStateFailed": true, "WorkStateCanceled": false}
		okAll := true
		got := map[string]string{}
		for name, w := range want {
			c := p.Const("workceptor", name)
			if c == nil {
				r.Broken("constant %s not found", name)
				return
			}
			v, ok := evalPureIntPredicate(ic, constIntVal(c))
			if !ok {
				got[name] = "?"
				okAll = false
				continue
			}
			got[name] = fmt.Sprint(v)
			if v != w {
				okAll = false
			}
		}
		r.Check("R6-final-states", "IsComplete: true exactly for Succeeded and Failed", ic.Pos(), okAll,
			fmt.Sprintf("evaluated for all five states: %v", got), fmt.Sprintf("evaluated for all five states: %v — pollers (results stream, status mirror, restart) stop too early or never", got))
	} else {
		r.Broken("IsComplete not found")
	}
	_ = sort.Strings
	_ = token.NoPos
}

// after: instruction b comes after a in the same block.
func after(a, b ssa.Instruction) bool {
	seen := false
	for _, in := range a.Block().Instrs {
		if in == a {
			seen = true
		}
		if in == b {
			return seen
		}
	}
	return false
}
