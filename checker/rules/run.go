// Package rules holds one file per property: rule tables over the engine's primitives.
package rules

import (
	"fmt"
	"os"
	"sort"

	"rcheck/engine"
)

type ruleFunc func(r *engine.Report, p *engine.Program)

var registry = map[string]ruleFunc{}

func register(id string, f ruleFunc) { registry[id] = f }

// Run executes one property check; returns the process exit code.
func Run(prop, tier, repo, verif string, lo engine.LoadOpts) int {
	f, ok := registry[prop]
	if !ok {
		ids := []string{}
		for k := range registry {
			ids = append(ids, k)
		}
		sort.Strings(ids)
		fmt.Printf("unknown property %q; have %v\n", prop, ids)
		return 2
	}
	lo.RepoDir = repo
	// thorough tier: dependencies are loaded with bodies, so the VTA call graph (cones, who-may
	// tables, lock summaries) also sees callbacks that third-party code makes into receptor
	lo.Whole = tier == "thorough" || os.Getenv("RCHECK_WHOLE") == "1"
	p, err := engine.Load(lo)
	if err != nil {
		fmt.Println("CHECKER-BROKEN:", err)
		return 2
	}
	r := engine.NewReport(prop, tier, p)
	defer func() {
		if x := recover(); x != nil {
			fmt.Printf("CHECKER-BROKEN: panic in rule code: %v\n", x)
			panic(x)
		}
	}()
	f(r, p)
	if tier == "thorough" && lo.Overlay == nil {
		runMutants(r, prop, verif, repo)
	}
	return r.Finish(verif)
}


// RunMany loads the program once and runs several property checks on it (used by the
// development helper -try-patch; registered commands always run one property per process).
// Prints "== Cnn exit=N" before each property's output; returns the highest exit code.
func RunMany(props []string, tier, repo, verif string, lo engine.LoadOpts) int {
	lo.RepoDir = repo
	p, err := engine.Load(lo)
	if err != nil {
		fmt.Println("CHECKER-BROKEN:", err)
		return 2
	}
	worst := 0
	for _, prop := range props {
		if prop == "" {
			continue
		}
		f, ok := registry[prop]
		if !ok {
			continue
		}
		r := engine.NewReport(prop, tier, p)
		code := func() (code int) {
			defer func() {
				if x := recover(); x != nil {
					fmt.Printf("CHECKER-BROKEN: panic in rule code of %s: %v\n", prop, x)
					code = 2
				}
			}()
			f(r, p)
			return r.Finish(verif)
		}()
		fmt.Printf("== %s exit=%d\n", prop, code)
		if code > worst {
			worst = code
		}
	}
	return worst
}
