// Package rules holds one file per property: rule tables over the engine's primitives.
package rules

import (
	"fmt"
	"sort"

	"rcheck/engine"
)

type ruleFunc func(r *engine.Report, p *engine.Program)

var registry = map[string]ruleFunc{}

func register(id string, f ruleFunc) { registry[id] = f }

// Run executes one property check; returns the process exit code.
func Run(prop, tier, repo, verif string, lo engine.LoadOpts) int {
	f, ok := registry[prop]
	if !ok {
		ids := []string{}
		for k := range registry {
			ids = append(ids, k)
		}
		sort.Strings(ids)
		fmt.Printf("unknown property %q; have %v\n", prop, ids)
		return 2
	}
	lo.RepoDir = repo
	lo.Whole = tier == "thorough" && wholeProgram[prop]
	p, err := engine.Load(lo)
	if err != nil {
		fmt.Println("CHECKER-BROKEN:", err)
		return 2
	}
	r := engine.NewReport(prop, tier, p)
	defer func() {
		if x := recover(); x != nil {
			fmt.Printf("CHECKER-BROKEN: panic in rule code: %v\n", x)
			panic(x)
		}
	}()
	f(r, p)
	if tier == "thorough" && lo.Overlay == nil {
		runMutants(r, prop, verif, repo)
	}
	return r.Finish(verif)
}

// properties whose thorough tier needs bodies of dependencies
var wholeProgram = map[string]bool{}
