package rules

import (
	"fmt"
	"go/types"
	"sort"
	"strings"

	"golang.org/x/tools/go/ssa"

	"rcheck/engine"
)

// reentrancyObligations (P6a): at every call in fns made with a lock must-held, the callee must
// not (transitively, same goroutine) acquire the same lock instance again. Both W-after-any and
// R-after-R are reported (Go's RWMutex forbids recursive read locking: a queued writer blocks
// the second RLock forever).
func reentrancyObligations(r *engine.Report, p *engine.Program, rule string, fns []*ssa.Function, lockFields map[*types.Var]bool) int {
	n := 0
	reported := map[string]bool{}
	for _, fn := range fns {
		lf := p.Locks(fn)
		for _, ci := range engine.CallsIn(fn) {
			if _, isGo := ci.(*ssa.Go); isGo {
				continue
			}
			if _, isLockOp := p.LockOpOf(ci); isLockOp {
				// direct re-acquire of a held lock
				op, _ := p.LockOpOf(ci)
				if op.Acquire && !op.Deferred {
					h := lf.MayHeldAt(ci)
					if _, held := h[op.Path.String()]; held && !op.Path.Opaque() && (lockFields == nil || lockFields[op.Path.Last()]) {
						n++
						r.Add(rule, fmt.Sprintf("%s: re-acquires %s", engine.FuncName(fn), op.Path), ci.Pos(), engine.Violated,
							fmt.Sprintf("%s is acquired while it may already be held on a path through the same function", op.Path))
					}
				}
				continue
			}
			h := lf.MayHeldAt(ci)
			if len(h) == 0 {
				continue
			}
			for _, callee := range p.Callees(ci) {
				if !p.IsReceptorFn(callee) || engine.IsMock(callee) {
					continue
				}
				ca := map[int]bool{}
				args := ci.Common().Args
				if ci.Common().IsInvoke() {
					args = append([]ssa.Value{ci.Common().Value}, args...)
				}
				for i, a := range args {
					if c, ok := a.(*ssa.Const); ok && c.Value != nil && c.Value.Kind() == 1 {
						ca[i] = c.Value.String() == "true"
					}
				}
				acqs := p.MayAcquire(callee, ca, 0, map[*ssa.Function]bool{})
				for _, a := range acqs {
					tp, ok := translateAcq(p, a.Path, callee, ci)
					if !ok {
						continue
					}
					if lockFields != nil && !lockFields[tp.Last()] {
						continue
					}
					if _, held := h[tp.String()]; held {
						construct := fmt.Sprintf("%s → %s: %s", engine.FuncName(fn), engine.FuncName(callee), tp.Last().Name())
						if reported[construct] {
							continue
						}
						reported[construct] = true
						n++
						r.Add(rule, construct, ci.Pos(), engine.Violated,
							fmt.Sprintf("%s holds %s and calls %s, which acquires it again via %s (at %s): self-deadlock", engine.FuncName(fn), tp, engine.FuncName(callee), a.Via, p.Pos(a.Pos))).Path = a.Via
					}
				}
			}
		}
	}
	return n
}

func translateAcq(p *engine.Program, path engine.Path, callee *ssa.Function, ci ssa.CallInstruction) (engine.Path, bool) {
	return p.Translate(path, callee, ci)
}

// lockOrderEdges computes the class-level (by lock field) lock-order graph over fns: an edge
// A → B when some function acquires B (directly or through a same-goroutine callee) while A is
// must-held.
type orderEdge struct {
	From, To *types.Var
	Where    string
	Pos      string
}

func lockOrderGraph(p *engine.Program, fns []*ssa.Function, lockFields map[*types.Var]bool) []orderEdge {
	var edges []orderEdge
	seen := map[string]bool{}
	add := func(a, b *types.Var, where, pos string) {
		if a == nil || b == nil || a == b {
			return
		}
		if lockFields != nil && (!lockFields[a] || !lockFields[b]) {
			return
		}
		k := a.Name() + ">" + b.Name()
		if seen[k] {
			return
		}
		seen[k] = true
		edges = append(edges, orderEdge{a, b, where, pos})
	}
	heldFields := func(h engine.Held, lf *engine.LockFacts) []*types.Var {
		var out []*types.Var
		for _, op := range lf.Ops() {
			if _, ok := h[op.Path.String()]; ok && op.Acquire {
				out = append(out, op.Path.Last())
			}
		}
		return out
	}
	for _, fn := range fns {
		lf := p.Locks(fn)
		for _, ci := range engine.CallsIn(fn) {
			if _, isGo := ci.(*ssa.Go); isGo {
				continue
			}
			h := lf.HeldAt(ci)
			if len(h) == 0 {
				continue
			}
			hf := heldFields(h, lf)
			if op, ok := p.LockOpOf(ci); ok {
				if op.Acquire {
					for _, a := range hf {
						add(a, op.Path.Last(), engine.FuncName(fn), p.Pos(ci.Pos()))
					}
				}
				continue
			}
			for _, callee := range p.Callees(ci) {
				if !p.IsReceptorFn(callee) || engine.IsMock(callee) {
					continue
				}
				for _, acq := range p.MayAcquire(callee, nil, 0, map[*ssa.Function]bool{}) {
					for _, a := range hf {
						add(a, acq.Path.Last(), engine.FuncName(fn)+" → "+acq.Via, p.Pos(ci.Pos()))
					}
				}
			}
		}
	}
	sort.Slice(edges, func(i, j int) bool {
		if edges[i].From.Name() != edges[j].From.Name() {
			return edges[i].From.Name() < edges[j].From.Name()
		}
		return edges[i].To.Name() < edges[j].To.Name()
	})
	return edges
}

// cyclesIn returns the elementary cycles (as field-name chains) of the order graph.
func cyclesIn(edges []orderEdge) [][]orderEdge {
	adj := map[*types.Var][]orderEdge{}
	for _, e := range edges {
		adj[e.From] = append(adj[e.From], e)
	}
	var cycles [][]orderEdge
	seenCycle := map[string]bool{}
	var stack []orderEdge
	onStack := map[*types.Var]bool{}
	var dfs func(start, cur *types.Var)
	dfs = func(start, cur *types.Var) {
		onStack[cur] = true
		for _, e := range adj[cur] {
			if e.To == start {
				cyc := append(append([]orderEdge{}, stack...), e)
				names := []string{}
				for _, x := range cyc {
					names = append(names, x.From.Name())
				}
				// canonical rotation
				min := 0
				for i := range names {
					if names[i] < names[min] {
						min = i
					}
				}
				rot := append(append([]string{}, names[min:]...), names[:min]...)
				k := strings.Join(rot, ">")
				if !seenCycle[k] {
					seenCycle[k] = true
					cycles = append(cycles, cyc)
				}
			} else if !onStack[e.To] && len(stack) < 6 {
				stack = append(stack, e)
				dfs(start, e.To)
				stack = stack[:len(stack)-1]
			}
		}
		onStack[cur] = false
	}
	var nodes []*types.Var
	for v := range adj {
		nodes = append(nodes, v)
	}
	sort.Slice(nodes, func(i, j int) bool { return nodes[i].Name() < nodes[j].Name() })
	for _, v := range nodes {
		dfs(v, v)
	}
	return cycles
}

// lockBalance: at every return of every function in fns no lock acquired in that function may
// still be held (locks released by a deferred Unlock are fine). Uses the may-hold analysis: a
// single path that returns with the lock held is a leak.
func lockBalance(r *engine.Report, p *engine.Program, rule string, fns []*ssa.Function, lockFields map[*types.Var]bool) {
	nFn, nRet := 0, 0
	for _, fn := range fns {
		lf := p.Locks(fn)
		ops := lf.Ops()
		if len(ops) == 0 {
			continue
		}
		nFn++
		deferred := map[string]bool{}
		for _, op := range ops {
			if !op.Acquire && op.Deferred {
				deferred[op.Path.String()] = true
			}
		}
		// deferred closures that unlock
		for _, ci := range engine.CallsIn(fn) {
			if d, ok := ci.(*ssa.Defer); ok {
				if mc, ok := d.Common().Value.(*ssa.MakeClosure); ok {
					for _, op := range p.Locks(mc.Fn.(*ssa.Function)).Ops() {
						if !op.Acquire {
							deferred[op.Path.String()] = true
						}
					}
				}
			}
		}
		for _, ret := range engine.Returns(fn) {
			nRet++
			h := lf.MayHeldAt(ret)
			for k := range h {
				if deferred[k] {
					continue
				}
				// only locks of the given classes
				var fld *types.Var
				for _, op := range ops {
					if op.Path.String() == k {
						fld = op.Path.Last()
					}
				}
				if lockFields != nil && (fld == nil || !lockFields[fld]) {
					continue
				}
				r.Add(rule, fmt.Sprintf("%s: returns with %s held", engine.FuncName(fn), k), ret.Pos(), engine.Violated,
					"a path reaches this return with the lock still held and no deferred unlock: every later acquisition blocks forever")
			}
		}
	}
	r.Add(rule, "functions with lock operations", 0, engine.Discharged, fmt.Sprintf("%d functions with lock operations, %d returns examined: none can return with a lock held", nFn, nRet))
}

// atomicSection decides a check-then-act clause: every instruction of `reads` (the test) and of
// `writes` (the act) executes with the write lock lockField must-held, and no path from a read to
// a write passes a release of that lock (so another goroutine cannot change the tested state in
// between). Returns ok and, when not, the offending construct.
func atomicSection(p *engine.Program, fn *ssa.Function, lockField *types.Var, reads, writes []ssa.Instruction) (bool, string) {
	if len(reads) == 0 || len(writes) == 0 {
		return false, fmt.Sprintf("found %d test site(s) and %d update site(s)", len(reads), len(writes))
	}
	lf := p.Locks(fn)
	key := ""
	for _, op := range lf.Ops() {
		if op.Path.Last() == lockField && op.Acquire && op.Mode == engine.LockW {
			key = op.Path.String()
		}
	}
	if key == "" {
		return false, "the function never takes the " + lockField.Name() + " write lock"
	}
	for _, in := range append(append([]ssa.Instruction{}, reads...), writes...) {
		if lf.HeldAt(in)[key] != engine.LockW {
			return false, fmt.Sprintf("%s at %s runs with %s held as %s, not as the write lock", in.String(), p.Pos(in.Pos()), lockField.Name(), modeName(lf.HeldAt(in)[key]))
		}
	}
	isWrite := func(in ssa.Instruction) bool {
		for _, w := range writes {
			if w == in {
				return true
			}
		}
		return false
	}
	for _, op := range lf.Ops() {
		if op.Acquire || op.Deferred || op.Path.Last() != lockField {
			continue
		}
		u := op.Call.(ssa.Instruction)
		for _, rd := range reads {
			if engine.Reach(fn, rd, nil, isWrite, func(in ssa.Instruction) bool { return in == u }) != nil &&
				engine.Reach(fn, u, nil, nil, isWrite) != nil {
				return false, fmt.Sprintf("%s is released at %s on a path between the test at %s and the update", lockField.Name(), p.Pos(u.Pos()), p.Pos(rd.Pos()))
			}
		}
	}
	return true, ""
}

// blockingSendsUnderLock: every blocking channel send (plain send, or send arm of a blocking
// select) executed with a lock must-held must be in the reasoned table of safe receivers.
func blockingSendsUnderLock(r *engine.Report, p *engine.Program, rule string, fns []*ssa.Function) {
	for _, fn := range fns {
		lf := p.Locks(fn)
		for _, b := range fn.Blocks {
			for _, in := range b.Instrs {
				var chans []ssa.Value
				switch x := in.(type) {
				case *ssa.Send:
					chans = append(chans, x.Chan)
				case *ssa.Select:
					if !x.Blocking {
						continue
					}
					for _, st := range x.States {
						if st.Dir == types.SendOnly {
							chans = append(chans, st.Chan)
						}
					}
				default:
					continue
				}
				if len(chans) == 0 {
					continue
				}
				h := lf.HeldAt(in)
				if len(h) == 0 {
					continue
				}
				for _, ch := range chans {
					cf, _ := engine.FieldOfLoad(ch)
					cname := "?"
					if cf != nil {
						cname = cf.Name()
					}
					for _, op := range lf.Ops() {
						if _, held := h[op.Path.String()]; !held || !op.Acquire {
							continue
						}
						key := engine.FuncName(fn) + "|" + cname + "|" + op.Path.Last().Name()
						construct := fmt.Sprintf("%s: send on %s with %s held", engine.FuncName(fn), cname, op.Path.Last().Name())
						if why, ok := blockingUnderLockOK[key]; ok {
							r.Add(rule, construct, in.Pos(), engine.Discharged, "table: "+why)
						} else {
							r.Add(rule, construct, in.Pos(), engine.Violated, "a blocking channel send is performed with a Netceptor lock held and is not in the reasoned table of safe receivers")
						}
						break
					}
				}
			}
		}
	}
}

// channelHandoffs: blocking sends that are allowed under a lock because a dedicated goroutine
// receives them (table blockingUnderLockOK). The sender then waits — with its lock held — for
// that goroutine, so whatever locks the receiver's handler takes are ordered AFTER the held lock.
var channelHandoffs = map[string]string{
	"sendRouteFloodChan":     "(*netceptor.Netceptor).sendRoutingUpdate",
	"updateRoutingTableChan": "(*netceptor.Netceptor).updateRoutingTable",
}

// lockOrderRule builds the class-level lock-order graph (lock A held while lock B is acquired,
// directly or in a callee, plus the edges implied by blocking channel hand-offs made under a lock)
// and requires it to be acyclic.
func lockOrderRule(r *engine.Report, p *engine.Program, rule string, scope []*ssa.Function, lockFields map[*types.Var]bool) {
	edges := lockOrderGraph(p, scope, lockFields)
	// hand-off edges
	for _, fn := range scope {
		lf := p.Locks(fn)
		for _, b := range fn.Blocks {
			for _, in := range b.Instrs {
				var chans []ssa.Value
				switch x := in.(type) {
				case *ssa.Send:
					chans = append(chans, x.Chan)
				case *ssa.Select:
					if !x.Blocking {
						continue
					}
					for _, st := range x.States {
						if st.Dir == types.SendOnly {
							chans = append(chans, st.Chan)
						}
					}
				default:
					continue
				}
				h := lf.HeldAt(in)
				if len(h) == 0 {
					continue
				}
				for _, ch := range chans {
					cf, _ := engine.FieldOfLoad(ch)
					if cf == nil {
						continue
					}
					hname, ok := channelHandoffs[cf.Name()]
					if !ok {
						continue
					}
					handler := p.Func(hname)
					if handler == nil {
						continue
					}
					for _, op := range lf.Ops() {
						if _, held := h[op.Path.String()]; !held || !op.Acquire {
							continue
						}
						from := op.Path.Last()
						for _, acq := range p.MayAcquire(handler, nil, 0, map[*ssa.Function]bool{}) {
							to := acq.Path.Last()
							if from == nil || to == nil || from == to || (lockFields != nil && (!lockFields[from] || !lockFields[to])) {
								continue
							}
							dup := false
							for _, e := range edges {
								if e.From == from && e.To == to {
									dup = true
								}
							}
							if !dup {
								edges = append(edges, orderEdge{from, to, engine.FuncName(fn) + " waits on " + cf.Name() + " for " + hname, p.Pos(in.Pos())})
							}
						}
					}
				}
			}
		}
	}
	es := []string{}
	for _, e := range edges {
		es = append(es, fmt.Sprintf("%s → %s (%s at %s)", e.From.Name(), e.To.Name(), e.Where, e.Pos))
	}
	r.Extra["lock_order_edges"] = es
	cycles := cyclesIn(edges)
	if len(cycles) == 0 {
		r.Add(rule, "netceptor lock-order graph", 0, engine.Discharged, fmt.Sprintf("%d class-level lock-order edges among %d Netceptor lock fields (including the edges implied by channel hand-offs made under a lock), acyclic", len(edges), len(lockFields)))
	}
	for _, cyc := range cycles {
		s := ""
		for _, e := range cyc {
			s += e.From.Name() + " → "
		}
		s += cyc[0].From.Name()
		var o []string
		for _, e := range cyc {
			o = append(o, fmt.Sprintf("%s→%s in %s at %s", e.From.Name(), e.To.Name(), e.Where, e.Pos))
		}
		r.Add(rule, "cycle "+s, 0, engine.Violated, "lock-order cycle: "+strings.Join(o, "; ")+" — the goroutines involved can wait for each other forever (no update is processed, no table rebuilt, Status() hangs)")
	}
}
