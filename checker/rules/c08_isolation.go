package rules

import (
	"fmt"
	"go/token"
	"go/types"
	"strings"

	"golang.org/x/tools/go/ssa"

	"rcheck/engine"
)

// requestIsolationRule (C08 R6): "sessions are isolated" includes requests of one session: what a
// request line is parsed into must not survive into the next line. Decided for RunControlSession:
// the request loop carries no request data from one iteration to the next — its header has only
// flag/counter phis (or a byte buffer that is re-sliced to [:0]), and no variable declared outside
// the loop is written inside it (e.g. handed to json.Unmarshal, which merges into an existing map).
func requestIsolationRule(r *engine.Report, p *engine.Program, rule string) {
	fn := p.Func("(*controlsvc.Server).RunControlSession")
	if fn == nil {
		r.Broken("RunControlSession not found")
		return
	}
	// the request loop: outermost natural loop containing the command-type dispatch (InitFromJSON / InitFromString)
	var dispatch ssa.Instruction
	for _, ci := range engine.CallsIn(fn) {
		if ci.Common().IsInvoke() && (ci.Common().Method.Name() == "InitFromJSON" || ci.Common().Method.Name() == "InitFromString") {
			dispatch = ci
		}
	}
	if dispatch == nil {
		r.Add(rule, "RunControlSession: request loop", fn.Pos(), engine.Violated, "command dispatch (InitFromJSON/InitFromString) not found")
		return
	}
	inLoop := func(header, b *ssa.BasicBlock) bool {
		if !header.Dominates(b) {
			return false
		}
		// b reaches header without leaving the dominated region
		seen := map[*ssa.BasicBlock]bool{}
		var dfs func(x *ssa.BasicBlock) bool
		dfs = func(x *ssa.BasicBlock) bool {
			if x == header {
				return true
			}
			if seen[x] || !header.Dominates(x) {
				return false
			}
			seen[x] = true
			for _, s := range x.Succs {
				if dfs(s) {
					return true
				}
			}
			return false
		}
		for _, s := range b.Succs {
			if dfs(s) {
				return true
			}
		}
		return false
	}
	var header *ssa.BasicBlock
	for _, b := range fn.Blocks {
		isHeader := false
		for _, pr := range b.Preds {
			if b.Dominates(pr) {
				isHeader = true
			}
		}
		if isHeader && inLoop(b, dispatch.Block()) {
			if header == nil || b.Dominates(header) {
				header = b
			}
		}
	}
	if header == nil {
		r.Add(rule, "RunControlSession: request loop", fn.Pos(), engine.Violated, "the loop around the command dispatch was not found")
		return
	}
	var bad []string
	nPhi := 0
	for _, in := range header.Instrs {
		ph, ok := in.(*ssa.Phi)
		if !ok {
			break
		}
		nPhi++
		switch t := ph.Type().Underlying().(type) {
		case *types.Basic:
			if t.Info()&(types.IsBoolean|types.IsInteger) != 0 {
				continue
			}
		case *types.Slice:
			// a reused byte buffer, provided every value coming round the loop is buf[:0]
			if bt, ok := t.Elem().Underlying().(*types.Basic); ok && bt.Kind() == types.Uint8 {
				reset := true
				for i, e := range ph.Edges {
					if !header.Dominates(header.Preds[i]) {
						continue // entry edge
					}
					sl, isS := e.(*ssa.Slice)
					hi, isC := int64(-1), false
					if isS && sl.High != nil {
						hi, isC = engine.ConstInt(sl.High)
					}
					if !isS || !isC || hi != 0 {
						reset = false
					}
				}
				if reset {
					continue
				}
				// or: the value carried round the loop is only ever re-sliced to [:0] before use
				onlyReset := true
				if refs := ph.Referrers(); refs != nil {
					for _, rr := range *refs {
						switch x := rr.(type) {
						case *ssa.DebugRef:
						case *ssa.Slice:
							hi, isC := int64(-1), false
							if x.High != nil {
								hi, isC = engine.ConstInt(x.High)
							}
							if !isC || hi != 0 {
								onlyReset = false
							}
						default:
							onlyReset = false
						}
					}
				}
				if onlyReset {
					continue
				}
			}
		}
		bad = append(bad, fmt.Sprintf("variable %s (%s) keeps its value from one request to the next", strings.TrimPrefix(ph.Comment, "#"), ph.Type()))
	}
	// variables declared outside the loop and written inside it
	nCells := 0
	for _, b := range fn.Blocks {
		if inLoop(header, b) || b == header {
			continue
		}
		for _, in := range b.Instrs {
			al, ok := in.(*ssa.Alloc)
			if !ok || al.Comment == "varargs" || al.Comment == "makeslice" || al.Comment == "slicelit" || al.Comment == "complit" {
				continue
			}
			refs := al.Referrers()
			if refs == nil {
				continue
			}
			nCells++
			for _, rr := range *refs {
				rb := rr.Block()
				if rb == nil || !(inLoop(header, rb) || rb == header) {
					continue
				}
				switch x := rr.(type) {
				case *ssa.Store:
					if x.Addr == ssa.Value(al) {
						bad = append(bad, fmt.Sprintf("variable %s declared before the request loop is assigned inside it at %s", al.Comment, p.Pos(x.Pos())))
					}
				case *ssa.UnOp:
					// plain load: reading session-wide state is fine
				case *ssa.DebugRef:
				default:
					if _, isLoad := rr.(*ssa.UnOp); !isLoad {
						if x, ok := rr.(ssa.Instruction); ok {
							if _, isFA := rr.(*ssa.FieldAddr); isFA {
								continue
							}
							bad = append(bad, fmt.Sprintf("the address of variable %s, declared before the request loop, is used inside it at %s (e.g. json.Unmarshal merges the next request into the previous one)", al.Comment, p.Pos(x.Pos())))
						}
					}
				}
			}
		}
	}
	_ = token.NoPos
	r.Check(rule, "RunControlSession: no request data survives from one request line to the next", header.Instrs[0].Pos(), len(bad) == 0,
		fmt.Sprintf("the request loop header carries %d variable(s), all flags/counters or a buffer re-sliced to [:0]; none of the %d variable(s) declared before the loop is written inside it", nPhi, nCells),
		strings.Join(bad, "; ")+" — a malformed or earlier request changes how later, well-formed requests of the session are answered")
}
