package rules

import (
	"fmt"
	"go/token"
	"go/types"
	"strings"
	"syscall"

	"golang.org/x/tools/go/ssa"

	"rcheck/engine"
)

func init() { register("C04", c04) }

// restartExceptions: WorkUnit.Restart implementations that are not required to turn a pending
// record into a failed one, with the reason.
var restartExceptions = map[string]string{
	"(*workceptor.unknownUnit).Restart": "a unit whose work type is not (yet) registered cannot be judged; it is listed with 'Unknown WorkType' and re-scanned when the type is registered (RegisterWorker)",
}

func c04(r *engine.Report, p *engine.Program) {
	r.Explanation = "Decides structural clauses of crash/restart survival: (R1) which functions may open the unit status file, and that none rewrites it destructively in place (O_TRUNC / Truncate: a kill between truncate and write leaves an empty record from which work type and remote binding cannot be recovered) — today's two truncating writers are a known finding; (R2) a unit ID is published (indexed, returned, echoed to the client) only after its record was saved without error; (R3) at restart a load error or a non-pending restart error is turned into a Failed record before the unit is indexed, and every worker type's Restart fails a record that is still Pending (or returns an error); (R4) no status/list/results/cancel path can self-deadlock on the unit-index, work-type or status locks; (R5) the remote unit ID is persisted before the next step of the remote submission. It does not decide the outcome at each individual crash point, fsync/power loss, or runner pickup timing."
	r.NotDecided = []string{"behaviour at each individual crash point", "fsync / power loss", "runner-process pickup timing", "output-size equality after restart"}
	r.Assumptions = []string{"rename(2) over the target is atomic; open(O_TRUNC)/ftruncate are not", "lockedfile provides inter-process mutual exclusion"}

	// R1 who may open the status file, and how
	allowed := map[string]bool{"(*workceptor.StatusFileData).Save": true, "(*workceptor.StatusFileData).Load": true, "(*workceptor.StatusFileData).UpdateFullStatus": true}
	ops := statusFileOps(p)
	nOps := 0
	for _, op := range ops {
		nOps++
		fname := engine.FuncName(engine.Outermost(op.fn))
		short := strings.TrimPrefix(op.name, "os.")
		r.Check("R1-who-may-open", fmt.Sprintf("%s: %s(status path)", engine.FuncName(op.fn), short), op.call.Pos(), allowed[fname],
			"within the frozen set {Save, Load, UpdateFullStatus} of StatusFileData", "the status file is opened/renamed/removed outside StatusFileData.{Save,Load,UpdateFullStatus}: it bypasses the lock-file protocol")
		if op.name == "os.OpenFile" {
			if !op.hasFl {
				r.Add("R1-no-destructive-rewrite", fmt.Sprintf("%s: OpenFile flags", engine.FuncName(op.fn)), op.call.Pos(), engine.Undecided, "the open flags are not a compile-time constant")
			} else if op.flags&int64(syscall.O_TRUNC) != 0 {
				r.Add("R1-no-destructive-rewrite", fmt.Sprintf("%s: OpenFile with O_TRUNC", engine.FuncName(op.fn)), op.call.Pos(), engine.Violated,
					"the status record is truncated in place before the new content is written: a crash in between leaves an empty record (after restart the unit is listed with an empty work type and its remote binding is gone)")
			} else {
				r.Add("R1-no-destructive-rewrite", fmt.Sprintf("%s: OpenFile flags", engine.FuncName(op.fn)), op.call.Pos(), engine.Discharged, fmt.Sprintf("flags %#x do not include O_TRUNC", op.flags))
			}
		}
		if op.name == "os.Create" || op.name == "os.WriteFile" || op.name == "os.Truncate" {
			r.Add("R1-no-destructive-rewrite", fmt.Sprintf("%s: %s", engine.FuncName(op.fn), short), op.call.Pos(), engine.Violated, "destructive in-place rewrite of the status record")
		}
	}
	// Truncate on a file opened from the status path
	for name := range allowed {
		fn := p.Func(name)
		if fn == nil {
			r.Broken("anchor %s not found", name)
			return
		}
		for _, ci := range callsTo(fn, "(*os.File).Truncate") {
			r.Add("R1-no-destructive-rewrite", fmt.Sprintf("%s: Truncate", name), ci.Pos(), engine.Violated,
				"the status record is truncated in place before the new content is written: a crash between Truncate(0) and the write leaves an empty record")
		}
	}
	r.Min("R1-who-may-open", 3)

	// R2 publish only after a successful save
	au := p.Func("(*workceptor.Workceptor).AllocateUnit")
	aru := p.Func("(*workceptor.Workceptor).AllocateRemoteUnit")
	cf := p.Func("(*workceptor.workceptorCommand).ControlFunc")
	sfu := p.Func("(*workceptor.Workceptor).scanForUnit")
	active := p.Field("workceptor", "Workceptor", "activeUnits")
	if au == nil || aru == nil || cf == nil || sfu == nil || active == nil {
		r.Broken("C04 anchors not found")
		return
	}
	var insert ssa.Instruction
	for _, a := range engine.FieldAccessesIn(au, active) {
		if a.Kind == engine.AccMapUpdate {
			insert = a.Instr
		}
	}
	nSave := 0
	for _, ci := range engine.CallsIn(au) {
		call, ok := ci.(*ssa.Call)
		if !ok || !(isMethodCall(ci, "Save", "workceptor") || isMethodCall(ci, "SetFromParams", "workceptor")) {
			continue
		}
		nSave++
		cut, tested := assumeFails(au, call)
		name := engine.CalleeObj(ci.Common()).Name()
		bad := engine.Reach(au, call, cut, nil, func(in ssa.Instruction) bool {
			if in == insert {
				return true
			}
			if ret, ok := in.(*ssa.Return); ok {
				return engine.IsNilConst(ret.Results[1])
			}
			return false
		})
		r.Check("R2-publish-after-save", "AllocateUnit: failure of "+name, call.Pos(), tested && bad == nil && insert != nil,
			"assuming this call fails, the unit is neither indexed in activeUnits nor returned with a nil error",
			"a unit whose record could not be saved is indexed or returned as allocated: "+descInstr(p, bad))
	}
	r.Check("R2-publish-after-save", "AllocateUnit: Save and SetFromParams are called", au.Pos(), nSave == 2, "both calls found", fmt.Sprintf("found %d of the 2 expected calls", nSave))
	// Save precedes the insert on every path on which SetFromParams succeeded
	if insert != nil {
		var save, sfp *ssa.Call
		for _, ci := range engine.CallsIn(au) {
			if isMethodCall(ci, "Save", "workceptor") {
				save, _ = ci.(*ssa.Call)
			}
			if isMethodCall(ci, "SetFromParams", "workceptor") {
				sfp, _ = ci.(*ssa.Call)
			}
		}
		ok := false
		if save != nil && sfp != nil {
			// assume SetFromParams succeeded: remove the non-nil edges of the tests of its error
			idx := errIndex(sfp.Common().Signature())
			direct := map[ssa.Value]bool{}
			for _, v := range callResult(sfp, idx) {
				direct[v] = true
			}
			_, nonNil := engine.NilCmpEdges(au, func(v ssa.Value) bool { return direct[v] })
			cut := engine.EdgeSet{}.Add(nonNil...)
			ok = engine.Reach(au, nil, cut, func(in ssa.Instruction) bool { return in == ssa.Instruction(save) }, func(in ssa.Instruction) bool { return in == insert }) == nil
		}
		r.Check("R2-publish-after-save", "AllocateUnit: record saved before the ID is indexed", insert.Pos(), ok,
			"when SetFromParams succeeds, every path to activeUnits[ident] = worker passes worker.Save()", "the unit can be indexed without its record having been saved first")
	}
	// AllocateRemoteUnit: LastUpdateError checked before returning the unit
	{
		var lue *ssa.Call
		for _, ci := range engine.CallsIn(aru) {
			if isMethodCall(ci, "LastUpdateError", "workceptor") {
				if c, ok := ci.(*ssa.Call); ok && lue == nil {
					lue = c
				}
			}
		}
		ok := false
		if lue != nil {
			isNilE, _ := engine.NilCmpEdges(aru, func(v ssa.Value) bool { return v == ssa.Value(lue) })
			cut := engine.EdgeSet{}.Add(isNilE...)
			// success return after the binding update is unreachable once the nil edge is removed
			var upd ssa.Instruction
			for _, ci := range engine.CallsIn(aru) {
				if isMethodCall(ci, "UpdateFullStatus", "workceptor") {
					upd = ci
				}
			}
			if upd != nil && len(isNilE) > 0 {
				ok = engine.Reach(aru, upd, cut, nil, func(in ssa.Instruction) bool {
					ret, isR := in.(*ssa.Return)
					return isR && engine.IsNilConst(ret.Results[1])
				}) == nil
			}
		}
		r.Check("R2-publish-after-save", "AllocateRemoteUnit: remote binding saved before the unit is returned", aru.Pos(), ok,
			"after writing the remote binding, a successful return is unreachable unless LastUpdateError() == nil", "the unit can be returned although writing its remote binding (node, type, TLS, expiry) failed")
	}
	// ControlFunc submit: the ID is echoed only after a successful allocation
	for _, ci := range callsTo(cf, "(*workceptor.Workceptor).AllocateUnit", "(*workceptor.Workceptor).AllocateRemoteUnit") {
		call := ci.(*ssa.Call)
		cut, tested := assumeFails(cf, call)
		bad := engine.Reach(cf, call, cut, nil, func(in ssa.Instruction) bool {
			c, ok := in.(ssa.CallInstruction)
			return ok && c.Common().IsInvoke() && c.Common().Method.Name() == "ID"
		})
		r.Check("R2-publish-after-save", "ControlFunc submit: unit ID echoed only after "+engine.CalleeObj(ci.Common()).Name()+" succeeded", call.Pos(), tested && bad == nil,
			"assuming the allocation fails, worker.ID() is never evaluated (nothing is acknowledged to the client)", "a unit ID can be acknowledged although allocation failed")
	}

	// R3 restart-time errors become Failed records
	var sfuInsert ssa.Instruction
	for _, a := range engine.FieldAccessesIn(sfu, active) {
		if a.Kind == engine.AccMapUpdate {
			sfuInsert = a.Instr
		}
	}
	isFailWrite := func(in ssa.Instruction) bool {
		for _, sw := range stateWrites(p, sfu) {
			if sw.in == in && sw.state == 3 {
				return true
			}
		}
		return false
	}
	for _, ci := range engine.CallsIn(sfu) {
		call, ok := ci.(*ssa.Call)
		if !ok || !ci.Common().IsInvoke() {
			continue
		}
		m := ci.Common().Method.Name()
		if m != "Load" && m != "Restart" {
			continue
		}
		if ci.Common().Value.Type().String() != engine.ModPath+"/pkg/workceptor.WorkUnit" {
			continue
		}
		cut, tested := assumeFails(sfu, call)
		// for Restart, the pending error is excluded: cut the edges where IsPending(err) is true
		if m == "Restart" {
			for _, pc := range callsTo(sfu, "workceptor.IsPending") {
				pend, _ := engine.CondEdges(sfu, func(c ssa.Value) (bool, bool) { return c == pc.(ssa.Value), true })
				cut.Add(pend...)
			}
		}
		bad := engine.Reach(sfu, call, cut, isFailWrite, func(in ssa.Instruction) bool { return in == sfuInsert })
		r.Check("R3-restart-fails-record", "scanForUnit: failure of worker."+m, call.Pos(), tested && bad == nil && sfuInsert != nil,
			"assuming this call fails (other than 'pending'), every path to indexing the unit passes UpdateBasicStatus(WorkStateFailed, …)",
			"a unit whose "+m+" failed at restart is indexed without being marked Failed (it would stay Pending/Running forever)")
	}
	r.Min("R3-restart-fails-record", 2)
	pendingC := p.Const("workceptor", "WorkStatePending")
	for _, impl := range p.Implementations("workceptor", "WorkUnit", "Restart") {
		if engine.IsMock(impl) {
			continue
		}
		name := engine.FuncName(impl)
		if why, ok := restartExceptions[name]; ok {
			// the placeholder must leave the record exactly as it found it: the real worker type is
			// registered later and has to find a running/pending unit still running/pending
			neutral := true
			whyNot := ""
			for _, ret := range engine.Returns(impl) {
				if len(ret.Results) != 1 || !engine.IsNilConst(ret.Results[0]) {
					neutral = false
					whyNot = "it can return an error (scanForUnit then rewrites the record as Failed before the real work type is registered, and the real worker never follows the still-running job)"
				}
			}
			for _, ci := range engine.CallsIn(impl) {
				if o := engine.CalleeObj(ci.Common()); o != nil {
					switch o.Name() {
					case "UpdateBasicStatus", "UpdateFullStatus", "Save":
						neutral = false
						whyNot = "it writes the status record"
					}
				}
			}
			r.Check("R3-restart-pending", name, impl.Pos(), neutral, "table: "+why+"; verified: returns nil on every path and writes nothing", "the placeholder for not-yet-registered work types does not leave the record alone: "+whyNot)
			continue
		}
		ok, why := restartFailsPending(p, impl, constIntVal(pendingC))
		r.Check("R3-restart-pending", name, impl.Pos(), ok, why, why)
	}
	r.Min("R3-restart-pending", 3)
	// R7 the runner process outlives the daemon: it is started in its own session and nothing ties
	// its life to its parent (no parent-death signal)
	{
		setsid, pdeath := false, []string{}
		p.AllInstrs(func(fn *ssa.Function, in ssa.Instruction) {
			if engine.IsMock(fn) || !inPkg(fn, "workceptor") {
				return
			}
			st, isS := in.(*ssa.Store)
			if !isS {
				return
			}
			fa, isF := st.Addr.(*ssa.FieldAddr)
			if !isF {
				return
			}
			fv := engine.FieldAddrVar(fa)
			if fv == nil || fv.Pkg() == nil || fv.Pkg().Path() != "syscall" {
				return
			}
			switch fv.Name() {
			case "Setsid":
				if c, isC := st.Val.(*ssa.Const); isC && c.Value != nil && c.Value.String() == "true" {
					setsid = true
				}
			case "Pdeathsig":
				if k, isK := engine.ConstInt(st.Val); !isK || k != 0 {
					pdeath = append(pdeath, engine.FuncName(fn)+" at "+p.Pos(st.Pos()))
				}
			}
		})
		r.Check("R7-runner-detached", "command runner: own session, no parent-death signal", token.NoPos, setsid && len(pdeath) == 0,
			"SysProcAttr{Setsid: true} and no Pdeathsig: a running command survives the death of the daemon and is followed to completion after restart",
			fmt.Sprintf("Setsid=%v, Pdeathsig set in %v: when the daemon dies the kernel signals every runner, the job is interrupted and recorded as Failed/Killed instead of being picked up after restart", setsid, pdeath))
	}
	// R8 only the runner process (and the kubernetes worker) reports a unit as Running: the daemon
	// leaves a freshly started command unit Pending, which is what Restart treats as "never started"
	{
		runningC := p.Const("workceptor", "WorkStateRunning")
		allowedRun := map[string]bool{"workceptor.commandRunner": true}
		var bad, sites []string
		for _, fn := range p.Funcs() {
			if engine.IsMock(fn) || !inPkg(fn, "workceptor") {
				continue
			}
			for _, sw := range stateWrites(p, fn) {
				if runningC == nil || sw.state != constIntVal(runningC) {
					continue
				}
				name := engine.FuncName(engine.Outermost(fn))
				sites = append(sites, name)
				if !allowedRun[name] && !strings.HasPrefix(name, "(*workceptor.KubeUnit)") {
					bad = append(bad, name+" at "+p.Pos(sw.in.Pos()))
				}
			}
		}
		r.Check("R8-running-writer", "WorkStateRunning: written only by the runner process and the kubernetes worker", token.NoPos, len(bad) == 0 && len(sites) >= 2,
			fmt.Sprintf("%d constant writes of Running, all in commandRunner / KubeUnit", len(sites)),
			"Running is written by "+strings.Join(bad, ", ")+": if the runner dies before its own first status write the record says Running with nobody behind it; after a restart the unit is reported Running forever and its results never end")
	}
	// R6 the output of a remote unit is resumed from what is on disk (nothing kept only in memory)
	if mrs := p.Func("(*workceptor.remoteUnit).monitorRemoteStdout"); mrs != nil {
		r.Check("R6-output-resume", "monitorRemoteStdout: the mirror resumes from the size of the local copy on disk", mrs.Pos(), mirrorOffsetOK(mrs),
			"the requested offset is stdoutSize(rw.UnitDir()), re-read from disk in every round: a restarted daemon continues exactly where the killed one stopped",
			"the mirror's offset is not re-derived from the local file: after a restart it asks for the wrong offset and the stored output has a repeated or missing stretch")
	} else {
		r.Broken("monitorRemoteStdout not found")
	}

	// R3c a started remote unit is always re-attached at restart: success only through startOrRestart
	if rr := p.Func("(*workceptor.remoteUnit).Restart"); rr != nil {
		var sor []ssa.Instruction
		for _, ci := range callsTo(rr, "(*workceptor.remoteUnit).startOrRestart") {
			sor = append(sor, ci)
		}
		bad := engine.Reach(rr, nil, nil, func(in ssa.Instruction) bool { return isOneOf(in, sor) }, func(in ssa.Instruction) bool {
			ret, isR := in.(*ssa.Return)
			return isR && engine.IsNilConst(ret.Results[0])
		})
		r.Check("R3-restart-pending", "(*workceptor.remoteUnit).Restart: success only by re-attaching to the remote unit", rr.Pos(), len(sor) == 1 && bad == nil,
			"Restart returns nil only as the result of startOrRestart(false): monitoring of status and output always resumes", "Restart can report success without resuming the monitors: the final state may already be mirrored while the output copy is still short, and nothing ever fetches the missing tail")
	}

	// R4 re-entrancy (same rule as C08-R3)
	lockFields := map[*types.Var]bool{}
	for _, lf := range [][3]string{{"workceptor", "Workceptor", "activeUnitsLock"}, {"workceptor", "Workceptor", "workTypesLock"}, {"workceptor", "BaseWorkUnit", "statusLock"}, {"workceptor", "BaseWorkUnit", "lastUpdateErrorLock"}} {
		lockFields[p.Field(lf[0], lf[1], lf[2])] = true
	}
	var scope []*ssa.Function
	for _, fn := range p.Funcs() {
		if inPkg(fn, "workceptor") && !engine.IsMock(fn) {
			scope = append(scope, fn)
		}
	}
	nre := reentrancyObligations(r, p, "R4-reentrancy", scope, lockFields)
	r.Check("R4-reentrancy", "workceptor: calls made with a lock possibly held", token.NoPos, nre == 0,
		"no call made while activeUnitsLock/workTypesLock/statusLock may be held reaches a same-goroutine re-acquisition of that lock", fmt.Sprintf("%d re-entrant acquisition(s)", nre))

	// R5 the remote unit ID is persisted before the submission proceeds
	sru := p.Func("(*workceptor.remoteUnit).startRemoteUnit")
	if sru == nil {
		r.Broken("anchor startRemoteUnit not found")
		return
	}
	ruid := p.Field("workceptor", "RemoteExtraData", "RemoteUnitID")
	var learn ssa.Instruction
	for _, a := range engine.FieldAccessesIn(sru, ruid) {
		if a.Kind == engine.AccStore {
			learn = a.Instr
		}
	}
	var persists []ssa.Instruction
	for _, ci := range engine.CallsIn(sru) {
		if !isMethodCall(ci, "UpdateFullStatus", "workceptor") {
			continue
		}
		for _, a := range ci.Common().Args {
			if mc, ok := a.(*ssa.MakeClosure); ok {
				cl := mc.Fn.(*ssa.Function)
				for _, acc := range engine.FieldAccessesIn(cl, ruid) {
					if acc.Kind == engine.AccStore {
						persists = append(persists, ci)
					}
				}
			}
		}
	}
	okP := learn != nil && len(persists) > 0
	var next ssa.Instruction
	if okP {
		next = engine.Reach(sru, learn, nil, func(in ssa.Instruction) bool { return isOneOf(in, persists) }, func(in ssa.Instruction) bool {
			ci, ok := in.(ssa.CallInstruction)
			if !ok {
				return false
			}
			if engine.IsCallTo(ci.Common(), "io.Copy", "os.Open") {
				return true
			}
			if ci.Common().IsInvoke() && ci.Common().Value.Type().String() == "net.Conn" {
				return true
			}
			_, isRet := in.(*ssa.Return)
			return isRet && false
		})
		okP = next == nil
	}
	r.Check("R5-binding-persisted", "startRemoteUnit: RemoteUnitID saved before the submission continues", sru.Pos(), okP,
		"between learning the remote unit ID and the next step of the exchange (stdin upload) every path persists it with UpdateFullStatus",
		"the remote unit ID is kept only in memory while the submission continues ("+descInstr(p, next)+"): a crash in that window loses the binding to the already-created remote unit")
}

// restartFailsPending: in a Restart implementation, from the edge on which the loaded state is
// Pending (or the remote was never started), every path to a return either passes a Failed
// write or returns a non-nil error.
func restartFailsPending(p *engine.Program, fn *ssa.Function, pending int64) (bool, string) {
	stateF := p.Field("workceptor", "StatusFileData", "State")
	started := p.Field("workceptor", "RemoteExtraData", "RemoteStarted")
	fails := func(in ssa.Instruction) bool {
		for _, sw := range stateWrites(p, fn) {
			if sw.in == in && sw.state == 3 {
				return true
			}
		}
		return false
	}
	okReturn := func(in ssa.Instruction) bool {
		ret, ok := in.(*ssa.Return)
		return ok && engine.IsNilConst(ret.Results[0])
	}
	// (a) explicit Pending test
	eq, _ := engine.IntCmpEdges(fn, fieldLoadIs(stateF), 0, token.EQL, pending)
	if len(eq) > 0 {
		for _, e := range eq {
			if bad := reachFromEdge(fn, e, nil, fails, okReturn); bad != nil {
				return false, "a record that is still Pending at restart can be left Pending: from the state == Pending edge a successful return is reachable without writing Failed"
			}
		}
		return true, "from the state == WorkStatePending edge every path to a successful return passes UpdateBasicStatus(WorkStateFailed, …)"
	}
	// (b) remote: not started ⇒ error
	stT, stF := engine.CondEdges(fn, func(c ssa.Value) (bool, bool) { f, _ := engine.FieldOfLoad(c); return f == started && f != nil, true })
	_ = stT
	if len(stF) > 0 {
		for _, e := range stF {
			if bad := reachFromEdge(fn, e, nil, fails, okReturn); bad != nil {
				return false, "a remote unit that was never started can be restarted successfully (stays Pending)"
			}
		}
		return true, "from the !RemoteStarted edge every return carries an error (scanForUnit then marks the unit Failed)"
	}
	// (c) generic: all paths not passing IsComplete/Running tests return an error: accept if every
	// successful return is guarded by a state test for Running or complete
	runE, _ := engine.IntCmpEdges(fn, fieldLoadIs(stateF), 0, token.EQL, 1)
	var compl []engine.Edge
	for _, ci := range callsTo(fn, "workceptor.IsComplete") {
		t, _ := engine.CondEdges(fn, func(c ssa.Value) (bool, bool) { return c == ci.(ssa.Value), true })
		compl = append(compl, t...)
	}
	if len(runE)+len(compl) > 0 {
		cut := engine.EdgeSet{}.Add(runE...).Add(compl...)
		if bad := engine.Reach(fn, nil, cut, fails, okReturn); bad == nil {
			return true, "a successful return is reachable only through 'state is Running' or 'state is complete'; every other (pending) path returns an error or writes Failed"
		}
		return false, "a pending record can be restarted successfully without being failed"
	}
	return false, "the Restart implementation neither tests for a pending state nor for a started remote; the rule cannot see how a never-started unit is failed"
}
