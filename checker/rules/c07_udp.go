package rules

import (
	"fmt"
	"go/types"

	"golang.org/x/tools/go/ssa"

	"rcheck/engine"
)

// sharedDemuxRule (C07 O11): the UDP listener demultiplexes every peer's datagrams in ONE
// goroutine and hands each to its session over an unbuffered channel. If that hand-off can block
// on a session nobody reads any more (its protocol goroutine has returned and closed it), one
// peer wedges UDP reception for all peers. Decided: every send to a session's channel in the
// listener goroutine sits in a select that also receives from a channel of the same session
// object which that session's Close() closes.
func sharedDemuxRule(r *engine.Report, p *engine.Program, rule string) {
	start := p.Func("(*backends.UDPListener).Start")
	closeFn := p.Func("(*backends.UDPListenerSession).Close")
	if start == nil || closeFn == nil || len(start.AnonFuncs) == 0 {
		r.Broken("UDP listener anchors not found")
		return
	}
	// channels closed by Close (directly or in a sync.Once body)
	closed := map[*types.Var]bool{}
	var scan func(fn *ssa.Function)
	scan = func(fn *ssa.Function) {
		for _, ci := range engine.CallsIn(fn) {
			if b, ok := ci.Common().Value.(*ssa.Builtin); ok && b.Name() == "close" {
				if f, _ := engine.FieldOfLoad(ci.Common().Args[0]); f != nil {
					closed[f] = true
				}
			}
		}
		for _, an := range fn.AnonFuncs {
			scan(an)
		}
	}
	scan(closeFn)
	n := 0
	for _, fn := range start.AnonFuncs {
		for _, b := range fn.Blocks {
			for _, in := range b.Instrs {
				sel, ok := in.(*ssa.Select)
				if !ok {
					continue
				}
				for _, st := range sel.States {
					if st.Dir != types.SendOnly {
						continue
					}
					f, base := engine.FieldOfLoad(st.Chan)
					if f == nil {
						continue // the session hand-off channel of the backend itself
					}
					named := ""
					if pt, ok := base.Type().Underlying().(*types.Pointer); ok {
						named = pt.Elem().String()
					}
					if named != engine.ModPath+"/pkg/backends.UDPListenerSession" {
						continue
					}
					n++
					ok2 := false
					for _, o := range sel.States {
						if o.Dir != types.RecvOnly {
							continue
						}
						if g, b2 := engine.FieldOfLoad(o.Chan); g != nil && closed[g] && engine.Unwrap(b2) == engine.Unwrap(base) {
							ok2 = true
						}
					}
					r.Check(rule, fmt.Sprintf("%s: hand-off of a datagram to its session (send on %s)", engine.FuncName(fn), f.Name()), sel.Pos(), ok2,
						"the select also receives from a channel of the same session that the session's Close() closes: a session whose protocol goroutine has ended cannot block the shared listener",
						"the shared listener goroutine can block forever sending to a session that nobody reads any more (its protocol goroutine returned after the lookup): one peer sending a reject message followed by more datagrams stops UDP reception for every peer")
				}
			}
		}
	}
	if n == 0 {
		r.Add(rule, "UDPListener.Start: per-session hand-off", start.Pos(), engine.Violated, "no send on a session channel inside a select was found in the listener goroutine (a bare send cannot be interrupted at all)")
	}
}
