package rules

import (
	"fmt"
	"go/token"
	"go/types"
	"reflect"
	"strings"

	"golang.org/x/tools/go/ssa"

	"rcheck/engine"
)

func init() { register("C20", c20) }

// derivesFromCall: v is (an extract / slice / conversion of) the result of a call to one of names.
func derivesFromCall(v ssa.Value, depth int, names ...string) bool {
	if depth > 6 {
		return false
	}
	v = engine.Unwrap(v)
	switch x := v.(type) {
	case *ssa.Extract:
		return derivesFromCall(x.Tuple, depth+1, names...)
	case *ssa.Call:
		return engine.IsCallTo(x.Common(), names...)
	case *ssa.Slice:
		return derivesFromCall(x.X, depth+1, names...)
	case *ssa.Phi:
		for _, e := range x.Edges {
			if derivesFromCall(e, depth+1, names...) {
				return true
			}
		}
	case *ssa.UnOp:
		if x.Op == token.MUL {
			if a, ok := x.X.(*ssa.Alloc); ok {
				if val := storedVal(a); val != nil {
					return derivesFromCall(val, depth+1, names...)
				}
				// several stores: any
				if refs := a.Referrers(); refs != nil {
					for _, rr := range *refs {
						if st, ok := rr.(*ssa.Store); ok && st.Addr == ssa.Value(a) && derivesFromCall(st.Val, depth+1, names...) {
							return true
						}
					}
				}
			}
		}
	}
	return false
}

func c20(r *engine.Report, p *engine.Program) {
	r.Explanation = "Decides that the name-extension tooling never cuts a DER value by hand (no index/slice on the output of encoding/asn1.Marshal: a TLV header is 2, 3, 4… bytes depending on the content length); that every ASN.1 decode error of ReceptorNames reaches its caller and no name is collected after an error or from anything but a context-tag-0 otherName with the receptor OID; that encoder and decoder use the same OID object, tag and UTF-8 string type; that the signer copies the request's subjectAltName extension value unchanged (else the DNS/IP lists), issues a non-CA certificate with both client and server key usage; that requests are built from all three name lists; that name matching is exact. It does not decide DER correctness beyond that, x509 parsing, or serial-number uniqueness."
	r.NotDecided = []string{"DER correctness for all lengths/charsets beyond the no-manual-cut rule", "crypto/x509 parsing", "serial number uniqueness", "chain validation (C09)"}
	r.Assumptions = []string{"encoding/asn1 Marshal/Unmarshal are inverse for the struct tags used", "x509.CreateCertificate copies ExtraExtensions verbatim"}
	mk := p.Func("utils.MakeReceptorSAN")
	rn := p.Func("utils.ReceptorNames")
	sign := p.Func("certificates.SignCertReq")
	creq := p.Func("certificates.CreateCertReq")
	greq := p.Func("certificates.GetReqNames")
	prn := p.Func("utils.ParseReceptorNamesFromCert")
	if mk == nil || rn == nil || sign == nil || creq == nil || greq == nil || prn == nil {
		r.Broken("C20 anchors not found")
		return
	}
	// R1 no manual cutting of DER, anywhere in utils/certificates
	nM := 0
	for _, fn := range p.Funcs() {
		if !inPkg(fn, "utils", "certificates") || engine.IsMock(fn) {
			continue
		}
		usesMarshal := len(callsTo(fn, "encoding/asn1.Marshal", "encoding/asn1.MarshalWithParams")) > 0
		if !usesMarshal {
			continue
		}
		nM++
		bad := []string{}
		for _, b := range fn.Blocks {
			for _, in := range b.Instrs {
				var x ssa.Value
				what := ""
				switch y := in.(type) {
				case *ssa.Slice:
					if y.Low != nil || y.High != nil {
						x, what = y.X, "slice"
					}
				case *ssa.IndexAddr:
					x, what = y.X, "index"
				case *ssa.Index:
					x, what = y.X, "index"
				}
				if x != nil && derivesFromCall(x, 0, "encoding/asn1.Marshal", "encoding/asn1.MarshalWithParams") {
					bad = append(bad, what+" at "+p.Pos(in.Pos()))
				}
			}
		}
		r.Check("R1-no-manual-der-cut", engine.FuncName(fn)+": output of asn1.Marshal is not indexed or sliced", fn.Pos(), len(bad) == 0,
			"the marshalled bytes are used whole or re-parsed with encoding/asn1 (RawValue.Bytes)", fmt.Sprintf("the output of asn1.Marshal is cut by hand (%v): the TLV header length depends on the content length, so long node IDs yield a corrupt subjectAltName", bad))
	}
	r.Min("R1-no-manual-der-cut", 1)
	// the otherName content comes from an asn1 re-parse (in MakeReceptorSAN or a helper it calls)
	encCone := []*ssa.Function{mk}
	for d := 0; d < 2; d++ {
		for _, f := range append([]*ssa.Function{}, encCone...) {
			for _, ci := range engine.CallsIn(f) {
				if c := ci.Common().StaticCallee(); c != nil && inPkg(c, "utils") && len(c.Blocks) > 0 {
					dup := false
					for _, x := range encCone {
						if x == c {
							dup = true
						}
					}
					if !dup {
						encCone = append(encCone, c)
					}
				}
			}
		}
	}
	{
		var reparsed func(fn *ssa.Function, v ssa.Value, depth int) bool
		reparsed = func(fn *ssa.Function, v ssa.Value, depth int) bool {
			if depth > 3 {
				return false
			}
			if f, base := engine.FieldOfLoad(v); f != nil && f.Name() == "Bytes" {
				if al, isA := base.(*ssa.Alloc); isA {
					for _, ci := range callsTo(fn, "encoding/asn1.Unmarshal") {
						for _, a := range ci.Common().Args {
							if mi, isMI := a.(*ssa.MakeInterface); isMI && mi.X == ssa.Value(al) {
								return true
							}
						}
					}
				}
				return false
			}
			idx := 0
			var call *ssa.Call
			switch x := v.(type) {
			case *ssa.Extract:
				call, _ = x.Tuple.(*ssa.Call)
				idx = x.Index
			case *ssa.Call:
				call = x
			}
			if call == nil {
				return false
			}
			callee := call.Common().StaticCallee()
			if callee == nil || !inPkg(callee, "utils") || len(callee.Blocks) == 0 {
				return false
			}
			n := 0
			for _, ret := range engine.Returns(callee) {
				if idx >= len(ret.Results) || engine.IsNilConst(ret.Results[idx]) {
					continue
				}
				n++
				if !reparsed(callee, ret.Results[idx], depth+1) {
					return false
				}
			}
			return n > 0
		}
		ok := false
		for _, ef := range encCone {
			for _, b := range ef.Blocks {
				for _, in := range b.Instrs {
					st, isS := in.(*ssa.Store)
					if !isS {
						continue
					}
					fa, isF := st.Addr.(*ssa.FieldAddr)
					if !isF || engine.FieldAddrVar(fa).Name() != "Bytes" {
						continue
					}
					if reparsed(ef, st.Val, 0) {
						ok = true
					}
				}
			}
		}
		nOther := 0
		for _, f := range encCone {
			nOther += len(callsTo(f, "encoding/asn1.Marshal"))
		}
		r.Check("R1-no-manual-der-cut", "MakeReceptorSAN: otherName content obtained by re-parsing", mk.Pos(), ok && nOther == 2,
			"the context-tagged otherName is built from asn1.RawValue.Bytes of the re-parsed SEQUENCE", "the otherName content is not taken from an encoding/asn1 re-parse")
	}
	// R2 decoder error flow
	nDec := 0
	for _, ci := range callsTo(rn, "encoding/asn1.Unmarshal", "encoding/asn1.UnmarshalWithParams") {
		nDec++
		call := ci.(*ssa.Call)
		cut, tested := assumeFails(rn, call)
		bad := engine.Reach(rn, call, cut, nil, func(in ssa.Instruction) bool {
			if ret, ok := in.(*ssa.Return); ok {
				return engine.IsNilConst(ret.Results[1])
			}
			if c, ok := in.(ssa.CallInstruction); ok {
				if b, isB := c.Common().Value.(*ssa.Builtin); isB && b.Name() == "append" {
					return true
				}
			}
			return false
		})
		r.Check("R2-decode-errors", fmt.Sprintf("ReceptorNames: failure of %s#%d", engine.CalleeObj(ci.Common()).Name(), ordinalOfCall(ci)), call.Pos(), tested && bad == nil,
			"assuming this decode fails, no name is appended and no successful return is reachable", "a decode error can be swallowed: a name list is returned although part of the extension could not be decoded")
	}
	r.Check("R2-decode-errors", "ReceptorNames: three decode steps", rn.Pos(), nDec == 3, "SAN sequence, otherName, UTF8 string", fmt.Sprintf("found %d decode calls, expected 3", nDec))
	// names are appended only for tag 0 + receptor OID
	{
		var app ssa.Instruction
		for _, ci := range engine.CallsIn(rn) {
			if b, isB := ci.Common().Value.(*ssa.Builtin); isB && b.Name() == "append" {
				app = ci
			}
		}
		tag0, _ := engine.IntCmpEdges(rn, func(v ssa.Value) bool { f, _ := engine.FieldOfLoad(v); return f != nil && f.Name() == "Tag" }, 0, token.EQL, 0)
		var oidT []engine.Edge
		usesOID := false
		for _, ci := range callsTo(rn, "(encoding/asn1.ObjectIdentifier).Equal") {
			t, _ := engine.CondEdges(rn, func(c ssa.Value) (bool, bool) { return c == ci.(ssa.Value), true })
			for _, a := range ci.Common().Args {
				if u, isU := a.(*ssa.UnOp); isU {
					if g, isG := u.X.(*ssa.Global); isG && g.Name() == "OIDReceptorName" {
						usesOID = true
						oidT = append(oidT, t...)
					}
				}
			}
		}
		ok := app != nil && len(tag0) > 0 && len(oidT) > 0 && usesOID
		if ok {
			isApp := func(in ssa.Instruction) bool { return in == app }
			ok = engine.Reach(rn, nil, engine.EdgeSet{}.Add(tag0...), nil, isApp) == nil && engine.Reach(rn, nil, engine.EdgeSet{}.Add(oidT...), nil, isApp) == nil
		}
		r.Check("R2-decode-errors", "ReceptorNames: only tag-0 otherNames with the receptor OID are collected", rn.Pos(), ok,
			"the append is unreachable unless value.Tag == 0 and on.ID.Equal(OIDReceptorName)", "names can be collected from other GeneralName kinds or other OIDs")
	}
	// R2b what is returned as a name is what encoding/asn1 decoded into a Go string (UTF8String,
	// validated) — never raw content octets reinterpreted as a string
	{
		var bad []string
		n := 0
		for _, b := range rn.Blocks {
			for _, in := range b.Instrs {
				c, isC := in.(*ssa.Call)
				if !isC {
					continue
				}
				bi, isB := c.Common().Value.(*ssa.Builtin)
				if !isB || bi.Name() != "append" || c.Type().String() != "[]string" {
					continue
				}
				// the appended element(s): stores into the varargs array
				va := c.Common().Args[1]
				if sl, isS := va.(*ssa.Slice); isS {
					if al, isAl := sl.X.(*ssa.Alloc); isAl {
						for _, rr := range *al.Referrers() {
							ia, isIA := rr.(*ssa.IndexAddr)
							if !isIA {
								continue
							}
							for _, r2 := range *ia.Referrers() {
								st, isSt := r2.(*ssa.Store)
								if !isSt {
									continue
								}
								n++
								ld, isLd := st.Val.(*ssa.UnOp)
								okElem := false
								if isLd && ld.Op == token.MUL {
									if cell, isCell := ld.X.(*ssa.Alloc); isCell && cell.Type().String() == "*string" {
										// the cell is a decode target of asn1.Unmarshal*
										for _, ci := range callsTo(rn, "encoding/asn1.Unmarshal", "encoding/asn1.UnmarshalWithParams") {
											for _, a := range ci.Common().Args {
												if mi, isMI := a.(*ssa.MakeInterface); isMI && mi.X == ssa.Value(cell) {
													okElem = true
												}
											}
										}
									}
								}
								if !okElem {
									bad = append(bad, p.Pos(st.Pos()))
								}
							}
						}
					}
				}
			}
		}
		r.Check("R2-decode-errors", "ReceptorNames: a returned name is the Go string encoding/asn1 decoded", rn.Pos(), len(bad) == 0 && n > 0,
			"every element appended to the result is a string variable filled by asn1.Unmarshal (UTF8String, validated by the decoder)",
			fmt.Sprintf("a value appended to the result at %v is not a string decoded by encoding/asn1 (e.g. raw content octets of any string type): a certificate reads back as a different name than the one encoded", bad))
	}
	// R3 encoder/decoder agreement
	{
		encOID := false
		for _, f := range encCone {
			for _, b := range f.Blocks {
				for _, in := range b.Instrs {
					for _, op := range in.Operands(nil) {
						if g, ok := (*op).(*ssa.Global); ok && g.Name() == "OIDReceptorName" {
							encOID = true
						}
					}
				}
			}
		}
		tagOf := func(typ, field string) string {
			n := p.NamedType("utils", typ)
			if n == nil {
				return "?"
			}
			st := n.Underlying().(*types.Struct)
			for i := 0; i < st.NumFields(); i++ {
				if st.Field(i).Name() == field {
					return reflect.StructTag(st.Tag(i)).Get("asn1")
				}
			}
			return "?"
		}
		decParam := ""
		for _, ci := range callsTo(rn, "encoding/asn1.UnmarshalWithParams") {
			decParam, _ = engine.ConstString(ci.Common().Args[2])
		}
		ok := encOID && tagOf("OtherNameEncode", "Value") == "tag:0" && tagOf("UTFString", "A") == "utf8" && decParam == "tag:0"
		r.Check("R3-codec-agreement", "otherName encoder and decoder agree (OID object, tag 0, UTF8String)", mk.Pos(), ok,
			"MakeReceptorSAN and ReceptorNames reference the same OIDReceptorName variable; the value is [0] EXPLICIT UTF8String on both sides",
			fmt.Sprintf("encoder/decoder disagree: encoder uses OIDReceptorName=%v, OtherNameEncode.Value tag %q, UTFString tag %q; decoder params %q", encOID, tagOf("OtherNameEncode", "Value"), tagOf("UTFString", "A"), decParam))
	}
	// R4 signer
	{
		// ExtraExtensions element store = the ranged request extension, under Id.Equal(OIDSubjectAltName)
		okExt, okFallback, okCA, okUsage := false, false, false, false
		var signHelpers []*ssa.Function // private helpers that pick the extension out of the request's list
		for _, b := range sign.Blocks {
			for _, in := range b.Instrs {
				st, isS := in.(*ssa.Store)
				if !isS {
					continue
				}
				switch a := st.Addr.(type) {
				case *ssa.FieldAddr:
					fv := engine.FieldAddrVar(a)
					if fv == nil || fv.Pkg() == nil || fv.Pkg().Path() != "crypto/x509" {
						continue
					}
					switch fv.Name() {
					case "DNSNames", "IPAddresses":
						if f, _ := engine.FieldOfLoad(st.Val); f != nil && f.Name() == fv.Name() {
							okFallback = true
						}
					case "IsCA":
						if k, isC := st.Val.(*ssa.Const); isC && k.Value != nil && k.Value.String() == "false" {
							okCA = true
						}
					}
				case *ssa.IndexAddr:
					// element of the ExtraExtensions literal: value is the loaded range element
					if strings.HasSuffix(st.Val.Type().String(), "pkix.Extension") {
						val := st.Val
						// the range variable lives in a local cell: resolve the value stored into it
						if u0, isU0 := val.(*ssa.UnOp); isU0 {
							if al, isAl := u0.X.(*ssa.Alloc); isAl {
								if sv := storedVal(al); sv != nil {
									val = sv
								}
							}
						}
						if u, isU := val.(*ssa.UnOp); isU {
							if ia, isIA := u.X.(*ssa.IndexAddr); isIA {
								if f, _ := engine.FieldOfLoad(ia.X); f != nil && f.Name() == "Extensions" {
									okExt = true
								}
							}
						}
						if h := elementPickedByHelper(p, sign, val); h != nil {
							okExt = true
							signHelpers = append(signHelpers, h)
						}
					}
				}
			}
		}
		usages := map[int64]bool{}
		for _, b := range sign.Blocks {
			for _, in := range b.Instrs {
				if st, isS := in.(*ssa.Store); isS {
					if strings.HasSuffix(st.Val.Type().String(), "x509.ExtKeyUsage") {
						if k, ok := engine.ConstInt(st.Val); ok {
							usages[k] = true
						}
					}
				}
			}
		}
		okUsage = usages[1] && usages[2]
		sanEq := false
		var eqCalls []ssa.CallInstruction
		for _, f := range append([]*ssa.Function{sign}, signHelpers...) {
			eqCalls = append(eqCalls, callsTo(f, "(encoding/asn1.ObjectIdentifier).Equal")...)
		}
		for _, ci := range eqCalls {
			for _, a := range ci.Common().Args {
				if u, isU := a.(*ssa.UnOp); isU {
					if g, isG := u.X.(*ssa.Global); isG && g.Name() == "OIDSubjectAltName" {
						sanEq = true
					}
				}
			}
		}
		r.Check("R4-signer", "SignCertReq: request SAN copied verbatim, non-CA, both key usages", sign.Pos(), okExt && okFallback && okCA && okUsage && sanEq,
			"the certificate's ExtraExtensions is the request's subjectAltName extension itself; without one the DNS/IP lists are copied; IsCA=false; client+server auth", fmt.Sprintf("signer changed: SAN copied=%v (matched by OIDSubjectAltName=%v), fallback lists=%v, IsCA=false=%v, both key usages=%v", okExt, sanEq, okFallback, okCA, okUsage))
		for _, ci := range callsTo(sign, "crypto/x509.CreateCertificate", "crypto/x509.ParseCertificate") {
			okp, why := errorPropagates(sign, ci.(*ssa.Call))
			r.Check("R4-signer", "SignCertReq: error of "+engine.CalleeObj(ci.Common()).Name(), ci.Pos(), okp, why, why)
		}
	}
	// R4b the copied extension is not touched: same OID, same bytes, same criticality as requested
	{
		var bad []string
		for _, b := range sign.Blocks {
			for _, in := range b.Instrs {
				st, ok := in.(*ssa.Store)
				if !ok {
					continue
				}
				fa, ok := st.Addr.(*ssa.FieldAddr)
				if !ok {
					continue
				}
				fv := engine.FieldAddrVar(fa)
				if fv != nil && fv.Pkg() != nil && fv.Pkg().Path() == "crypto/x509/pkix" {
					if pt, isP := fa.X.Type().Underlying().(*types.Pointer); isP && pt.Elem().String() == "crypto/x509/pkix.Extension" {
						bad = append(bad, fv.Name()+" at "+p.Pos(st.Pos()))
					}
				}
			}
		}
		r.Check("R4-signer", "SignCertReq: no field of the copied subjectAltName extension is modified", sign.Pos(), len(bad) == 0,
			"the extension taken from the request is placed into the certificate as it is",
			fmt.Sprintf("SignCertReq rewrites %v of the copied extension: e.g. a critical SAN holding only receptor otherNames makes x509 verification fail (unhandled critical extension), so a certificate issued for node IDs only is accepted for none of them", bad))
	}
	// R6 request construction
	{
		ok := false
		for _, ci := range callsTo(creq, "utils.MakeReceptorSAN") {
			a := ci.Common().Args
			f0, _ := engine.FieldOfLoad(a[0])
			f1, _ := engine.FieldOfLoad(a[1])
			f2, _ := engine.FieldOfLoad(a[2])
			ok = f0 != nil && f1 != nil && f2 != nil && f0.Name() == "DNSNames" && f1.Name() == "IPAddresses" && f2.Name() == "NodeIDs"
			okp, why := errorPropagates(creq, ci.(*ssa.Call))
			r.Check("R6-request", "CreateCertReq: error of MakeReceptorSAN", ci.Pos(), okp, why, why)
		}
		r.Check("R6-request", "CreateCertReq: all three name lists go into the SAN", creq.Pos(), ok, "MakeReceptorSAN(opts.DNSNames, opts.IPAddresses, opts.NodeIDs)", "the request's SAN is not built from all of DNSNames, IPAddresses and NodeIDs")
		for _, ci := range callsTo(greq, "utils.ReceptorNames") {
			okp, why := errorPropagates(greq, ci.(*ssa.Call))
			r.Check("R6-request", "GetReqNames: decode error propagates", ci.Pos(), okp, why, why)
		}
	}
	// R5 exact match (shared with C09-R6)
	{
		folds := []string{}
		for _, ci := range engine.CallsIn(prn) {
			if o := engine.CalleeObj(ci.Common()); o != nil && o.Pkg() != nil && o.Pkg().Path() == "strings" {
				folds = append(folds, o.Name())
			}
		}
		exp := prn.Params[1]
		eq, _ := valEqEdges(prn, func(v ssa.Value) bool { return v == ssa.Value(exp) }, func(v ssa.Value) bool { return v.Type().String() == "string" && v != ssa.Value(exp) })
		r.Check("R5-exact-match", "ParseReceptorNamesFromCert: == on the whole name", prn.Pos(), len(folds) == 0 && len(eq) > 0,
			"names are compared with plain string equality", fmt.Sprintf("names are not compared with plain equality (%v): a certificate is accepted for an ID it does not carry", folds))
		for _, ci := range callsTo(prn, "utils.ReceptorNames") {
			okp, why := errorPropagates(prn, ci.(*ssa.Call))
			r.Check("R5-exact-match", "ParseReceptorNamesFromCert: decode error propagates", ci.Pos(), okp, why, why)
		}
		// the expected ID is compared only with names decoded from the receptor otherName entries
		// (no fallback to the subject CN, DNS names, ...)
		{
			var names ssa.Value
			for _, ci := range callsTo(prn, "utils.ReceptorNames") {
				for _, v := range callResult(ci.(*ssa.Call), 0) {
					names = v
				}
			}
			isElem := func(v ssa.Value) bool {
				v = engine.Unwrap(v)
				switch x := v.(type) {
				case *ssa.UnOp: // load of &names[i]
					if ia, ok := x.X.(*ssa.IndexAddr); ok {
						return engine.Unwrap(ia.X) == names
					}
				case *ssa.Extract: // range value
					if nx, ok := x.Tuple.(*ssa.Next); ok {
						if rg, ok := nx.Iter.(*ssa.Range); ok {
							return engine.Unwrap(rg.X) == names
						}
					}
				case *ssa.Index:
					return engine.Unwrap(x.X) == names
				}
				return false
			}
			var bad []string
			nCmp := 0
			for _, b := range prn.Blocks {
				for _, in := range b.Instrs {
					bo, ok := in.(*ssa.BinOp)
					if !ok || (bo.Op != token.EQL && bo.Op != token.NEQ) {
						continue
					}
					var other ssa.Value
					if engine.Unwrap(bo.X) == ssa.Value(exp) {
						other = bo.Y
					} else if engine.Unwrap(bo.Y) == ssa.Value(exp) {
						other = bo.X
					} else {
						continue
					}
					nCmp++
					if names == nil || !isElem(other) {
						bad = append(bad, p.Pos(bo.Pos()))
					}
				}
			}
			r.Check("R5-exact-match", "ParseReceptorNamesFromCert: the expected ID is compared only with decoded receptor names", prn.Pos(), len(bad) == 0 && nCmp > 0,
				fmt.Sprintf("%d comparison(s) of the expected ID, each with an element of the list returned by ReceptorNames", nCmp),
				fmt.Sprintf("the expected ID is also compared with something other than a decoded receptor name at %v (e.g. the subject CN): a certificate issued for no node ID is accepted as a node", bad))
		}
		// the verifier judges each certificate on the names decoded from it in that handshake
		if rvf := p.Func("netceptor.ReceptorVerifyFunc"); rvf != nil && len(rvf.AnonFuncs) > 0 {
			V := rvf.AnonFuncs[0]
			var found ssa.Value
			calls := callsTo(V, "utils.ParseReceptorNamesFromCert")
			for _, ci := range calls {
				for _, v := range callResult(ci.(*ssa.Call), 0) {
					found = v
				}
			}
			isHT := func(v ssa.Value) bool {
				if u, ok := v.(*ssa.UnOp); ok && u.Op == token.MUL {
					v = u.X
				}
				fv, ok := v.(*ssa.FreeVar)
				return ok && fv.Name() == "expectedHostnameType"
			}
			_, notReceptor := engine.IntCmpEdges(V, isHT, -100, token.EQL, constIntVal(p.Const("netceptor", "ExpectedHostnameTypeReceptor")))
			okV := found != nil && len(calls) == 1
			why := "the verifier no longer calls ParseReceptorNamesFromCert exactly once"
			if okV {
				fT, _ := engine.CondEdges(V, func(c ssa.Value) (bool, bool) { return c == found, true })
				cut := engine.EdgeSet{}.Add(notReceptor...).Add(fT...)
				if len(fT) == 0 || engine.Reach(V, nil, cut, nil, func(in ssa.Instruction) bool {
					ret, ok := in.(*ssa.Return)
					return ok && len(ret.Results) == 1 && engine.IsNilConst(ret.Results[0])
				}) != nil {
					okV = false
					why = "in receptor mode the verifier can accept without the 'found' result of ParseReceptorNamesFromCert(leaf, expected) of this handshake being true"
				}
			}
			if g := verifierGlobals(p, V); okV && len(g) > 0 {
				okV = false
				why = "the verdict depends on package-level state (" + strings.Join(g, "; ") + "): a certificate can be judged by the names of another one"
			}
			r.Check("R5-exact-match", "ReceptorVerifyFunc$1: accepted only for a name decoded from the presented leaf in this handshake", V.Pos(), okV,
				"success in receptor mode requires found == true from ParseReceptorNamesFromCert(certs[0], expectedHostname) called in the same invocation; no package-level state is touched", why)
		}
	}
}

// elementPickedByHelper recognises `ext, found := helper(req.Extensions)`: val is result #i of a
// call from owner to a private helper of owner whose argument k is the request's Extensions list
// and whose result #i is, on every return, either the zero value or an element of parameter k
// as it is (no field written). It returns the helper, or nil.
func elementPickedByHelper(p *engine.Program, owner *ssa.Function, val ssa.Value) *ssa.Function {
	idx := 0
	if u, ok := val.(*ssa.UnOp); ok {
		if al, isAl := u.X.(*ssa.Alloc); isAl {
			if sv := storedVal(al); sv != nil {
				val = sv
			}
		}
	}
	if ex, ok := val.(*ssa.Extract); ok {
		idx = ex.Index
		val = ex.Tuple
	}
	call, ok := val.(*ssa.Call)
	if !ok {
		return nil
	}
	h := call.Common().StaticCallee()
	if h == nil || len(h.Blocks) == 0 || privateHelperOf(p, h, map[string]bool{engine.FuncName(owner): true}) == "" {
		return nil
	}
	k := -1
	for i, a := range call.Common().Args {
		if f, _ := engine.FieldOfLoad(a); f != nil && f.Name() == "Extensions" {
			k = i
		}
	}
	if k < 0 || k >= len(h.Params) {
		return nil
	}
	param := h.Params[k]
	elems := 0
	for _, b := range h.Blocks {
		for _, in := range b.Instrs {
			// no field of an extension is written anywhere in the helper
			if st, isS := in.(*ssa.Store); isS {
				if fa, isFA := st.Addr.(*ssa.FieldAddr); isFA {
					if fv := engine.FieldAddrVar(fa); fv != nil && fv.Pkg() != nil && fv.Pkg().Path() == "crypto/x509/pkix" {
						return nil
					}
				}
			}
			ret, isR := in.(*ssa.Return)
			if !isR {
				continue
			}
			if idx >= len(ret.Results) {
				return nil
			}
			rv := ret.Results[idx]
			var cands []ssa.Value
			var expand func(v ssa.Value, d int)
			expand = func(v ssa.Value, d int) {
				if ph, isPhi := v.(*ssa.Phi); isPhi && d < 4 {
					for _, e := range ph.Edges {
						expand(e, d+1)
					}
					return
				}
				cands = append(cands, v)
			}
			expand(rv, 0)
			for _, c := range cands {
				if _, isK := c.(*ssa.Const); isK {
					continue // a constant of struct type is the zero value
				}
				u, isU := c.(*ssa.UnOp)
				if !isU {
					return nil
				}
				if al, isAl := u.X.(*ssa.Alloc); isAl {
					sv := storedVal(al)
					if sv == nil {
						// zero value: the cell is never stored to (neither whole nor by field)
						zero := true
						if refs := al.Referrers(); refs != nil {
							for _, rr := range *refs {
								switch rr.(type) {
								case *ssa.UnOp, *ssa.DebugRef:
								default:
									zero = false
								}
							}
						}
						if !zero {
							return nil
						}
						continue
					}
					var isU2 bool
					if u, isU2 = sv.(*ssa.UnOp); !isU2 {
						return nil
					}
				}
				ia, isIA := u.X.(*ssa.IndexAddr)
				if !isIA || ia.X != ssa.Value(param) {
					return nil
				}
				elems++
			}
		}
	}
	if elems == 0 {
		return nil
	}
	return h
}
