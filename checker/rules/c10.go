package rules

import (
	"fmt"
	"go/token"
	"go/types"
	"sort"
	"strings"

	"golang.org/x/tools/go/ssa"

	"rcheck/engine"
)

func init() { register("C10", c10) }

func c10(r *engine.Report, p *engine.Program) {
	r.Explanation = "Decides the inductive core of the hop bound: there is exactly one relay site for data packets (forwardMessage, called only from handleMessageData); the relay send is unreachable unless the packet's budget is > 0; on every path from the encoder to the send the budget byte of the very buffer that is sent is decremented by exactly one; the budget field of a MessageData is written only where a packet is decoded (from byte 1) or originated (the caller's value, unmodified, through WriteTo/SetHopsToLive); no other code sends type-0 buffers to a connection; on expiry the origin is notified with the 'message expired' constant (unless the packet itself is such a notice) and ping/traceroute test for that same constant. It does not decide 'reaches iff d <= h' on concrete topologies (that also needs C01's tables)."
	r.NotDecided = []string{"reach iff distance <= budget on concrete topologies", "who observes the expiry notice", "traceroute output on a live mesh"}
	r.Assumptions = []string{"byte arithmetic: a budget > 0 decremented by one cannot wrap"}
	fm := p.Func("(*netceptor.Netceptor).forwardMessage")
	enc := p.Func("(*netceptor.Netceptor).translateDataFromMessage")
	dec := p.Func("(*netceptor.Netceptor).translateDataToMessage")
	snd := p.Func("(*netceptor.Netceptor).SendMessageWithHopsToLive")
	hops := p.Field("netceptor", "MessageData", "HopsToLive")
	writeChan := p.Field("netceptor", "connInfo", "WriteChan")
	if fm == nil || enc == nil || dec == nil || snd == nil || hops == nil || writeChan == nil {
		r.Broken("C10 anchors not found")
		return
	}
	r.Anchor("(*netceptor.Netceptor).forwardMessage")
	// R1 who-may
	checkCallers(r, p, "R1-who-may", "(*netceptor.Netceptor).translateDataFromMessage", "(*netceptor.Netceptor).forwardMessage")
	checkCallers(r, p, "R1-who-may", "(*netceptor.Netceptor).forwardMessage", "(*netceptor.Netceptor).handleMessageData")
	var fmSend ssa.Instruction
	var fmSendVal ssa.Value
	nSend := 0
	for _, a := range p.FieldAccesses(writeChan) {
		if a.Kind != engine.AccSend || engine.IsMock(a.Fn) {
			continue
		}
		nSend++
		var val ssa.Value
		switch x := a.Instr.(type) {
		case *ssa.Send:
			val = x.X
		case *ssa.Select:
			for _, st := range x.States {
				if f, _ := engine.FieldOfLoad(st.Chan); f == writeChan && st.Dir == types.SendOnly {
					val = st.Send
				}
			}
		}
		if a.Fn == fm {
			fmSend, fmSendVal = a.Instr, val
		}
		kinds := map[string]bool{}
		bufferSources(p, a.Fn, val, 0, kinds, map[string]bool{})
		var ks []string
		for k := range kinds {
			ks = append(ks, k)
		}
		sort.Strings(ks)
		ok := true
		for _, k := range ks {
			switch k {
			case "control-encoder", "relayed-advertisement":
			case "data-encoder":
				if a.Fn != fm {
					ok = false
				}
			default:
				ok = false
			}
		}
		r.Check("R1-who-may", fmt.Sprintf("%s: buffer sent to a connection", engine.FuncName(a.Fn)), a.Instr.Pos(), ok && len(ks) > 0,
			fmt.Sprintf("the bytes sent come from %v (control-message encoder with a constant non-data type, the service-advertisement relay, or — in forwardMessage only — the data encoder)", ks),
			fmt.Sprintf("a buffer of kind %v is sent to a connection outside forwardMessage: a second relay path for data packets that bypasses the hop budget", ks))
	}
	r.Check("R1-who-may", "connInfo.WriteChan: send sites found", token.NoPos, nSend >= 4, fmt.Sprintf("%d send sites classified", nSend), fmt.Sprintf("only %d send sites found, expected at least 4", nSend))
	// no control-message encoder emits type 0
	cData := p.Const("netceptor", "MsgTypeData")
	nEnc := 0
	badEnc := []string{}
	for _, fn := range p.Funcs() {
		if !inPkg(fn, "netceptor") || engine.IsMock(fn) {
			continue
		}
		for _, ci := range callsTo(fn, "(*netceptor.Netceptor).translateStructToNetwork") {
			nEnc++
			k, ok := engine.ConstInt(ci.Common().Args[1])
			if !ok || k == constIntVal(cData) {
				badEnc = append(badEnc, engine.FuncName(fn)+" at "+p.Pos(ci.Pos()))
			}
		}
	}
	r.Check("R1-who-may", "translateStructToNetwork: message types", token.NoPos, len(badEnc) == 0 && nEnc >= 5,
		fmt.Sprintf("all %d control-message encodings use a constant type other than MsgTypeData, so flood/init/reject never emit a data packet", nEnc), fmt.Sprintf("a control-message encoder can emit a data-typed buffer: %v", badEnc))
	if fmSend == nil {
		r.Add("R2-positive-budget", "forwardMessage: relay send", fm.Pos(), engine.Violated, "no send on connInfo.WriteChan found in forwardMessage")
		return
	}
	isSend := func(in ssa.Instruction) bool { return in == fmSend }
	md := fm.Params[1]
	isBudget := func(v ssa.Value) bool { f, b := engine.FieldOfLoad(v); return f == hops && b == ssa.Value(md) }
	pos, nonpos := engine.IntCmpEdges(fm, isBudget, 0, token.GTR, 0)
	cut := engine.EdgeSet{}.Add(pos...)
	hit := engine.Reach(fm, nil, cut, nil, isSend)
	r.Check("R2-positive-budget", "forwardMessage: relay requires HopsToLive > 0", fmSend.Pos(), len(pos) > 0 && hit == nil,
		"the relay send is unreachable once the edges on which md.HopsToLive > 0 holds are removed", "a packet whose budget is exhausted can still be relayed (0 - 1 wraps to 255: it circulates forever in a routing loop)")
	// R3 decrement on the very buffer sent
	encCalls := callsTo(fm, "(*netceptor.Netceptor).translateDataFromMessage")
	okDec := false
	why := "no call of translateDataFromMessage found"
	if len(encCalls) == 1 {
		ec := encCalls[0].(*ssa.Call)
		bufs := callResult(ec, 0)
		why = "the buffer sent is not the encoder's result"
		if len(bufs) == 1 && engine.Unwrap(fmSendVal) == bufs[0] && ec.Common().Args[1] == ssa.Value(md) {
			buf := bufs[0]
			// stores to &buf[1] of (load(&buf[1]) - 1)
			var decs []ssa.Instruction
			for _, b := range fm.Blocks {
				for _, in := range b.Instrs {
					st, ok := in.(*ssa.Store)
					if !ok {
						continue
					}
					ia, ok := st.Addr.(*ssa.IndexAddr)
					if !ok || ia.X != buf {
						continue
					}
					if k, ok := engine.ConstInt(ia.Index); !ok || k != 1 {
						continue
					}
					bo, ok := st.Val.(*ssa.BinOp)
					if !ok || bo.Op != token.SUB {
						continue
					}
					if k, ok := engine.ConstInt(bo.Y); !ok || k != 1 {
						continue
					}
					ld, ok := bo.X.(*ssa.UnOp)
					if !ok || ld.Op != token.MUL {
						continue
					}
					ia2, ok := ld.X.(*ssa.IndexAddr)
					if !ok || ia2.X != buf {
						continue
					}
					if k, ok := engine.ConstInt(ia2.Index); !ok || k != 1 {
						continue
					}
					decs = append(decs, in)
				}
			}
			why = "no decrement of byte 1 of the encoded buffer found"
			if len(decs) == 1 {
				isDec := func(in ssa.Instruction) bool { return isOneOf(in, decs) }
				// every path from the encoder to the send passes the decrement exactly once (no loop back)
				skip := engine.Reach(fm, ec, nil, isDec, isSend)
				again := engine.Reach(fm, decs[0], nil, nil, isDec)
				okDec = skip == nil && again == nil
				why = "a path from the encoder to the send skips the decrement, or the decrement can run twice"
			} else if len(decs) > 1 {
				why = fmt.Sprintf("%d decrements of the budget byte found, expected exactly one", len(decs))
			}
			// other stores into the buffer?
			for _, b := range fm.Blocks {
				for _, in := range b.Instrs {
					if st, ok := in.(*ssa.Store); ok {
						if ia, ok := st.Addr.(*ssa.IndexAddr); ok && ia.X == buf && !isOneOf(in, decs) {
							okDec = false
							why = "the encoded buffer is modified at another index before it is sent"
						}
					}
				}
			}
		}
	}
	r.Check("R3-decrement", "forwardMessage: transmitted budget = received budget - 1", fmSend.Pos(), okDec,
		"the buffer sent is translateDataFromMessage(md) with exactly one decrement of byte 1 on every path to the send", why)
	// R4 budget field writers
	var writers []string
	okW := true
	for _, a := range p.FieldAccesses(hops) {
		if a.Kind != engine.AccStore || engine.IsMock(a.Fn) {
			continue
		}
		st := a.Instr.(*ssa.Store)
		writers = append(writers, engine.FuncName(a.Fn))
		switch a.Fn {
		case dec:
			// value = data[1]
			ld, ok := st.Val.(*ssa.UnOp)
			okv := false
			if ok && ld.Op == token.MUL {
				if ia, ok := ld.X.(*ssa.IndexAddr); ok && ia.X == ssa.Value(dec.Params[1]) {
					if k, ok := engine.ConstInt(ia.Index); ok && k == 1 {
						okv = true
					}
				}
			}
			if !okv {
				okW = false
			}
		case snd:
			if st.Val != ssa.Value(snd.Params[5]) {
				okW = false
			}
		default:
			okW = false
		}
		if !engine.IsFreshAlloc(a.Base) {
			okW = false
		}
	}
	sort.Strings(writers)
	r.Check("R4-budget-writers", "MessageData.HopsToLive: writers", token.NoPos, okW && len(writers) == 2,
		"the budget is written only in the decoder (from byte 1 of the received packet) and in SendMessageWithHopsToLive (the caller's hopsToLive parameter, unmodified), both on freshly built packets",
		fmt.Sprintf("writers %v: the budget is modified in transit, clamped at the origin, or not taken from byte 1 / the caller's value", writers))
	// origin-side plumbing: PacketConn.WriteTo passes pc.hopsToLive; SetHopsToLive stores its parameter; sendMessage passes maxForwardingHops
	pcHops := p.Field("netceptor", "PacketConn", "hopsToLive")
	okPl := true
	for _, ci := range callsTo(p.Func("(*netceptor.PacketConn).WriteTo"), "(netceptor.NetcForPacketConn).SendMessageWithHopsToLive") {
		if f, _ := engine.FieldOfLoad(ci.Common().Args[4]); f != pcHops {
			okPl = false
		}
	}
	if sh := p.Func("(*netceptor.PacketConn).SetHopsToLive"); sh != nil {
		for _, a := range engine.FieldAccessesIn(sh, pcHops) {
			if st, ok := a.Instr.(*ssa.Store); ok && st.Val != ssa.Value(sh.Params[1]) {
				okPl = false
			}
		}
	} else {
		okPl = false
	}
	// the socket only carries the budget: WriteTo decides nothing on it (budget 0 still reaches a
	// destination at distance 0)
	if wt := p.Func("(*netceptor.PacketConn).WriteTo"); wt != nil {
		hopF := p.Field("netceptor", "PacketConn", "hopsToLive")
		var bad []string
		for _, i := range engine.Ifs(wt) {
			var stack []ssa.Value
			stack = append(stack, i.Cond)
			for len(stack) > 0 {
				v := stack[len(stack)-1]
				stack = stack[:len(stack)-1]
				if f, _ := engine.FieldOfLoad(v); f == hopF && hopF != nil {
					bad = append(bad, p.Pos(i.Cond.Pos()))
				}
				switch x := v.(type) {
				case *ssa.BinOp:
					stack = append(stack, x.X, x.Y)
				case *ssa.UnOp:
					if x.Op == token.NOT {
						stack = append(stack, x.X)
					}
				case *ssa.Convert:
					stack = append(stack, x.X)
				}
			}
		}
		r.Check("R4-budget-writers", "PacketConn.WriteTo: no branch on the socket's hop budget", wt.Pos(), len(bad) == 0,
			"WriteTo passes pc.hopsToLive on and decides nothing on it: whether a budget suffices is decided where the distance is known (forwardMessage)",
			fmt.Sprintf("WriteTo branches on pc.hopsToLive at %v: e.g. budget 0 is refused although a destination at distance 0 (the local node) needs no forwarding", bad))
	}
	r.Check("R4-budget-writers", "PacketConn: hop budget plumbing", token.NoPos, okPl, "WriteTo sends with the socket's hopsToLive, which SetHopsToLive sets to the caller's value unchanged", "the socket's hop budget is altered between SetHopsToLive and the send")
	// the encoder writes msg.HopsToLive at byte 1
	okEnc := false
	for _, b := range enc.Blocks {
		for _, in := range b.Instrs {
			st, ok := in.(*ssa.Store)
			if !ok {
				continue
			}
			if ia, ok := st.Addr.(*ssa.IndexAddr); ok {
				if k, ok := engine.ConstInt(ia.Index); ok && k == 1 {
					if f, b := engine.FieldOfLoad(st.Val); f == hops && b == ssa.Value(enc.Params[1]) {
						okEnc = true
					}
				}
			}
		}
	}
	r.Check("R4-budget-writers", "translateDataFromMessage: byte 1 = msg.HopsToLive", enc.Pos(), okEnc, "the encoder places the packet's budget at byte 1 of the header", "the encoder no longer writes msg.HopsToLive at byte 1")

	// R5 expiry notice
	fromService := p.Field("netceptor", "MessageData", "FromService")
	fromNode := p.Field("netceptor", "MessageData", "FromNode")
	notices := callsTo(fm, "(*netceptor.Netceptor).sendUnreachable")
	okN := len(notices) == 1 && len(nonpos) > 0
	whyN := "expected exactly one sendUnreachable call in forwardMessage"
	if okN {
		nt := notices[0]
		isNotice := func(in ssa.Instruction) bool { return in == ssa.Instruction(nt) }
		unreachEq, _ := strEqEdges(fm, fieldLoadIs(fromService), "unreach")
		cutU := engine.EdgeSet{}.Add(unreachEq...)
		for _, e := range nonpos {
			if silent := reachFromEdge(fm, e, cutU, isNotice, func(in ssa.Instruction) bool { _, ok := in.(*ssa.Return); return ok }); silent != nil {
				okN = false
				whyN = "an expired packet can be discarded without notifying its origin"
			}
			if fwd := reachFromEdge(fm, e, nil, nil, isSend); fwd != nil {
				okN = false
				whyN = "an expired packet is relayed"
			}
		}
		wantP, _ := constStringOf(p.Const("netceptor", "ProblemExpiredInTransit"))
		if noticeProblem(p, nt) != wantP || wantP == "" {
			okN = false
			whyN = "the expiry notice does not carry ProblemExpiredInTransit"
		}
		if f, b := engine.FieldOfLoad(nt.Common().Args[1]); f != fromNode || b != ssa.Value(md) {
			okN = false
			whyN = "the expiry notice is not addressed to md.FromNode"
		}
		if bad := noticeFieldsCopy(p, nt, md); bad != "" {
			okN = false
			whyN = bad
		}
	}
	r.Check("R5-expiry-notice", "forwardMessage: expiry is reported to the origin", fm.Pos(), okN,
		"from the budget-exhausted edge every path to a return passes sendUnreachable(md.FromNode, {md's four address fields, ProblemExpiredInTransit}) unless the packet is itself an unreach notice, and never reaches the relay", whyN)
	// R5b the budget is decided before anything else can end the call: with both outcomes of the
	// budget test removed, no return of forwardMessage is reachable
	{
		cutBoth := engine.EdgeSet{}
		for _, e := range nonpos {
			cutBoth = cutBoth.Add(engine.Edge{From: e.From, Succ: 0}, engine.Edge{From: e.From, Succ: 1})
		}
		early := engine.Reach(fm, nil, cutBoth, nil, func(in ssa.Instruction) bool { _, ok := in.(*ssa.Return); return ok })
		r.Check("R5-expiry-notice", "forwardMessage: the budget test precedes every other exit", fm.Pos(), len(nonpos) > 0 && early == nil,
			"every return of forwardMessage lies behind the HopsToLive test, so a packet whose budget ran out is reported as expired whatever the routing table says (no route, dead next hop)",
			"a return at "+descInstr(p, early)+" is reachable without testing the budget: a packet whose budget ran out at a node with no route or no live next hop ends there silently instead of being reported as expired")
	}
	// R5c traceroute probes every budget up to and including the forwarding limit
	if trf := p.Func("netceptor.CreateTraceroute$1"); trf != nil {
		okIncl, whyIncl := false, "no comparison of the probe counter with MaxForwardingHops() was found"
		isMax := func(v ssa.Value) bool {
			v = engine.Unwrap(v)
			if c, ok := v.(*ssa.Call); ok && c.Common().IsInvoke() && c.Common().Method.Name() == "MaxForwardingHops" {
				return true
			}
			return false
		}
		var pings []ssa.Instruction
		for _, ci := range engine.CallsIn(trf) {
			if ci.Common().IsInvoke() && ci.Common().Method.Name() == "Ping" {
				pings = append(pings, ci)
			}
		}
		for _, i := range engine.Ifs(trf) {
			bo, ok := i.Cond.(*ssa.BinOp)
			if !ok {
				continue
			}
			// counter OP max(+k)
			off := int64(0)
			side := func(v ssa.Value) (bool, int64) {
				if isMax(v) {
					return true, 0
				}
				if b, ok := engine.Unwrap(v).(*ssa.BinOp); ok && (b.Op == token.ADD || b.Op == token.SUB) && isMax(b.X) {
					if k, ok := engine.ConstInt(b.Y); ok {
						if b.Op == token.SUB {
							k = -k
						}
						return true, k
					}
				}
				return false, 0
			}
			op := bo.Op
			if okY, k := side(bo.Y); okY {
				off = k
			} else if okX, k := side(bo.X); okX {
				off = k
				op = flipOp(op)
			} else {
				continue
			}
			// value of `counter OP max+off` when counter == max  ⇔  0 OP off
			var val bool
			switch op {
			case token.LSS:
				val = 0 < off
			case token.LEQ:
				val = 0 <= off
			case token.GTR:
				val = 0 > off
			case token.GEQ:
				val = 0 >= off
			case token.NEQ:
				val = off != 0
			case token.EQL:
				val = off == 0
			default:
				continue
			}
			succ := 1
			if val {
				succ = 0
			}
			isPing := func(in ssa.Instruction) bool { return isOneOf(in, pings) }
			// from the edge taken when counter == MaxForwardingHops(), the probe is sent before the loop can end
			hit := reachFromEdge(trf, engine.Edge{From: i.Block(), Succ: succ}, nil, isPing, func(in ssa.Instruction) bool {
				_, isRet := in.(*ssa.Return)
				return isRet
			})
			okIncl = len(pings) > 0 && hit == nil
			if !okIncl {
				whyIncl = "when the probe counter equals MaxForwardingHops() the loop ends without sending the probe: a destination exactly that many links away is reachable by ping but never listed by traceroute"
			}
		}
		r.Check("R5-expiry-notice", "CreateTraceroute: probes every budget 0..MaxForwardingHops() inclusive", trf.Pos(), okIncl,
			"on the edge taken when the counter equals MaxForwardingHops() the Ping call is reached before any return", whyIncl)
	}
		{
			okS, whyS, nS := packetPathStateless(p)
			r.Check("R5-expiry-notice", "packet path: keeps no state between packets", token.NoPos, okS,
				fmt.Sprintf("%d functions on the datagram path (send, decode, dispatch, forward, notices) write no Netceptor field and no package-level variable", nS),
				whyS+" — whether a packet is delivered, forwarded or answered with a notice now depends on earlier packets")
		}
	// R5d the notice is always transmitted, and every decoded packet is dispatched
	if su := p.Func("(*netceptor.Netceptor).sendUnreachable"); su != nil {
		okA, whyA := noticeAlwaysSent(p, su)
		r.Check("R5-expiry-notice", "sendUnreachable: every notice is transmitted", su.Pos(), okA, "assuming the encoding succeeded, no return of sendUnreachable is reachable without sendMessage", whyA)
	}
	if rpf := p.Func("(*netceptor.Netceptor).runProtocol"); rpf != nil {
		okD, whyD := decodedAlwaysDispatched(p, rpf)
		r.Check("R6-receive-side", "runProtocol: every successfully decoded data packet is handed to handleMessageData", rpf.Pos(), okD,
			"from the decode, assuming it succeeded, the next select/return is unreachable without passing handleMessageData: whatever budget a packet carries, the decision is forwardMessage's", whyD)
	}
	// ping / traceroute test for the same constant
	wantP, _ := constStringOf(p.Const("netceptor", "ProblemExpiredInTransit"))
	tr := p.Func("netceptor.CreateTraceroute$1")
	okT := false
	if tr != nil {
		for _, i := range engine.Ifs(tr) {
			if bo, ok := i.Cond.(*ssa.BinOp); ok {
				if s, ok := engine.ConstString(bo.Y); ok && s == wantP {
					okT = true
				}
			}
		}
		// iterates up to MaxForwardingHops
		nMax := 0
		for _, ci := range engine.CallsIn(tr) {
			if ci.Common().IsInvoke() && ci.Common().Method.Name() == "MaxForwardingHops" {
				nMax++
			}
		}
		if nMax == 0 {
			okT = false
		}
	}
	r.Check("R5-expiry-notice", "CreateTraceroute: recognises the expiry constant", token.NoPos, okT && wantP != "",
		"traceroute compares the ping error text with ProblemExpiredInTransit and probes budgets 0..MaxForwardingHops()", "traceroute no longer tests for the 'message expired' constant or no longer bounds the probe by MaxForwardingHops")
	_ = strings.Join
}

// noticeFieldsCopy checks that the UnreachableMessage literal passed to sendUnreachable copies the
// four address fields from md field to field. Returns "" if fine.
func noticeFieldsCopy(p *engine.Program, call ssa.CallInstruction, md ssa.Value) string {
	args := call.Common().Args
	base := engine.Unwrap(args[len(args)-1])
	fn := call.Parent()
	for _, name := range []string{"FromNode", "ToNode", "FromService", "ToService"} {
		uf := p.Field("netceptor", "UnreachableMessage", name)
		mf := p.Field("netceptor", "MessageData", name)
		found := false
		for _, acc := range engine.FieldAccessesIn(fn, uf) {
			if acc.Kind == engine.AccStore && acc.Base == base {
				f, b := engine.FieldOfLoad(acc.Instr.(*ssa.Store).Val)
				if f == mf && b == md {
					found = true
				} else {
					return fmt.Sprintf("the notice's %s is not md.%s", name, name)
				}
			}
		}
		if !found {
			return fmt.Sprintf("the notice does not set %s", name)
		}
	}
	return ""
}

// bufferSources classifies where the bytes of v come from: "control-encoder"
// (translateStructToNetwork), "data-encoder" (translateDataFromMessage), "relayed-advertisement"
// (the data parameter of handleServiceAdvertisement, which checks its type byte), or
// "raw:<desc>". Parameters and captured variables are followed to every call site (depth ≤ 4).
func bufferSources(p *engine.Program, fn *ssa.Function, v ssa.Value, depth int, out map[string]bool, seen map[string]bool) {
	key := engine.FuncName(fn) + "|" + v.Name()
	if seen[key] || depth > 4 {
		if depth > 4 {
			out["raw:too-deep"] = true
		}
		return
	}
	seen[key] = true
	v = engine.Unwrap(v)
	switch x := v.(type) {
	case *ssa.Extract:
		if c, ok := x.Tuple.(*ssa.Call); ok {
			switch {
			case engine.IsCallTo(c.Common(), "(*netceptor.Netceptor).translateStructToNetwork"):
				out["control-encoder"] = true
				return
			case engine.IsCallTo(c.Common(), "(*netceptor.Netceptor).translateDataFromMessage"):
				out["data-encoder"] = true
				return
			}
		}
		out["raw:"+x.String()] = true
	case *ssa.Phi:
		for _, e := range x.Edges {
			bufferSources(p, fn, e, depth, out, seen)
		}
	case *ssa.Parameter:
		top := x.Parent()
		if engine.FuncName(top) == "(*netceptor.Netceptor).handleServiceAdvertisement" && x.Name() == "data" {
			out["relayed-advertisement"] = true
			return
		}
		idx := -1
		for i, prm := range top.Params {
			if prm == x {
				idx = i
			}
		}
		obj, _ := top.Object().(*types.Func)
		n := 0
		if obj != nil && idx >= 0 {
			for _, cs := range p.CallSitesOf(obj) {
				if engine.IsMock(cs.Parent()) {
					continue
				}
				n++
				bufferSources(p, cs.Parent(), cs.Common().Args[idx], depth+1, out, seen)
			}
		}
		if n == 0 {
			// an anonymous function's parameter: arguments at its go/call sites in the parent
			if par := top.Parent(); par != nil {
				for _, ci := range engine.CallsIn(par) {
					if mc, ok := ci.Common().Value.(*ssa.MakeClosure); ok && mc.Fn == ssa.Value(top) && idx < len(ci.Common().Args) {
						n++
						bufferSources(p, par, ci.Common().Args[idx], depth+1, out, seen)
					}
					if ci.Common().Value == ssa.Value(top) && idx < len(ci.Common().Args) {
						n++
						bufferSources(p, par, ci.Common().Args[idx], depth+1, out, seen)
					}
				}
			}
		}
		if n == 0 {
			out["raw:param "+x.Name()+" of "+engine.FuncName(top)] = true
		}
	case *ssa.UnOp:
		// captured variable
		if fv, ok := x.X.(*ssa.FreeVar); ok {
			cl := fv.Parent()
			idx := -1
			for i, f := range cl.FreeVars {
				if f == fv {
					idx = i
				}
			}
			if par := cl.Parent(); par != nil && idx >= 0 {
				for _, b := range par.Blocks {
					for _, in := range b.Instrs {
						if mc, ok := in.(*ssa.MakeClosure); ok && mc.Fn == ssa.Value(cl) && idx < len(mc.Bindings) {
							if al, ok := mc.Bindings[idx].(*ssa.Alloc); ok {
								if sv := storedVal(al); sv != nil {
									bufferSources(p, par, sv, depth+1, out, seen)
									return
								}
							}
						}
					}
				}
			}
		}
		if al, ok := x.X.(*ssa.Alloc); ok {
			if sv := storedVal(al); sv != nil {
				bufferSources(p, fn, sv, depth, out, seen)
				return
			}
		}
		out["raw:"+x.String()] = true
	default:
		out["raw:"+v.String()] = true
	}
}
