package rules

import (
	"fmt"
	"go/ast"
	"go/constant"
	"go/token"
	"go/types"
	"strings"

	"golang.org/x/tools/go/ssa"

	"rcheck/engine"
)

// boundsException is idiom I5: a frozen, reasoned exception keyed by (function, expression).
type boundsException struct {
	Fn, Expr, Reason string
}

var boundsExceptions = []boundsException{
	{"netceptor.stringFromFixedLenBytes", "$0[:$1 + 1]", "p starts at len(bytes)-1 and is only decremented; the p < 0 case returns before the slice, so 0 <= p+1 <= len(bytes)"},
	{"(*netceptor.Netceptor).forwardMessage", "$0[1]", "message is the result of translateDataFromMessage, which always writes the 36-byte header first (layout checked by C02-R1)"},
	{"randstr.RandomString", "$0[$1.Int64()]", "idx is the result of crypto/rand.Int(reader, big.NewInt(len(charset))), contract 0 <= idx < len(charset)"},
}

// readCountCallees are calls whose integer result n satisfies 0 <= n <= len(buf) for their buffer argument.
var readCountMethods = map[string]bool{"Read": true, "ReadFrom": true, "ReadFromUDP": true, "ReadMsgUDP": true, "ReadAt": true, "ReadFull": true, "ReadAtLeast": true, "copy": true}

// dischargeBounds tries idioms I1–I5 on one unproven bounds check. ok=false → violation.
func dischargeBounds(p *engine.Program, u engine.Unproven) (ok bool, reason string) {
	if u.Expr == nil || u.Fn == nil {
		return false, "cannot map the compiler's report to an expression"
	}
	fnName := engine.FuncName(u.Fn)
	exprStr := engine.ExprString(u.Expr)
	// I5 (keys are α-normalised: local identifiers are replaced by $0, $1… in order of appearance,
	// so renaming a variable does not invalidate an entry, changing the expression's shape does)
	norm := alphaNormalise(u.Expr, u.Pkg.TypesInfo)
	for _, e := range boundsExceptions {
		if e.Fn == fnName && e.Expr == norm {
			return true, "I5 frozen exception: " + e.Reason
		}
	}
	// I6 slices of the framer buffer taken only on the ready edge of messageReady()
	if why := readyGuardIdiom(p, u); why != "" {
		return true, why
	}
	// I8 x[:k+c] where k counts down from len(x)
	if why := descendingCounterIdiom(p, u); why != "" {
		return true, why
	}
	// I7 constant slice of a buffer just made with len = len(x) + c
	if why := madeBufferIdiom(p, u); why != "" {
		return true, why
	}
	info := u.Pkg.TypesInfo
	switch e := u.Expr.(type) {
	case *ast.SliceExpr:
		// I1: x[:n], n = count returned by a read into x
		if e.Low == nil && e.High != nil && !e.Slice3 {
			if why := readCountIdiom(p, u, e); why != "" {
				return true, why
			}
		}
		// I4 for slices with constant low bound on a parameter: x[k:]
		if e.High == nil && e.Low != nil {
			if k, isConst := constIntExpr(info, e.Low); isConst {
				if why, bad := paramLenIdiom(p, u, e.X, k); why != "" {
					return true, why
				} else if bad != "" {
					return false, bad
				}
			}
		}
	case *ast.IndexExpr:
		// I3: strings.Split(s, sep)[0]
		if call, isCall := e.X.(*ast.CallExpr); isCall {
			if k, isConst := constIntExpr(info, e.Index); isConst && k == 0 {
				if f := calleeOfExpr(info, call); f != nil && (f.FullName() == "strings.Split" || f.FullName() == "strings.SplitN") && len(call.Args) >= 2 {
					if tv, has := info.Types[call.Args[1]]; has && tv.Value != nil && tv.Value.Kind() == constant.String && constant.StringVal(tv.Value) != "" {
						return true, "I3 strings.Split with a constant non-empty separator returns at least one element"
					}
				}
			}
		}
		// I2: index is the key of a range over the same expression
		if id, isIdent := e.Index.(*ast.Ident); isIdent {
			if why := rangeKeyIdiom(info, u, e, id); why != "" {
				return true, why
			}
		}
		// I4: constant index on a parameter
		if k, isConst := constIntExpr(info, e.Index); isConst {
			if why, bad := paramLenIdiom(p, u, e.X, k+1); why != "" {
				return true, why
			} else if bad != "" {
				return false, bad
			}
		}
	}
	return false, fmt.Sprintf("index/slice %s in %s is not proven in bounds by the compiler and matches none of the discharge idioms I1–I5", exprStr, fnName)
}

func constIntExpr(info *types.Info, e ast.Expr) (int64, bool) {
	tv, ok := info.Types[e]
	if !ok || tv.Value == nil || tv.Value.Kind() != constant.Int {
		return 0, false
	}
	return constant.Int64Val(tv.Value)
}

func calleeOfExpr(info *types.Info, call *ast.CallExpr) *types.Func {
	var id *ast.Ident
	switch f := call.Fun.(type) {
	case *ast.Ident:
		id = f
	case *ast.SelectorExpr:
		id = f.Sel
	}
	if id == nil {
		return nil
	}
	fn, _ := info.Uses[id].(*types.Func)
	return fn
}

// ssaAt finds the SSA instruction of fn whose position is pos.
func ssaAt(fn *ssa.Function, pos token.Pos) ssa.Instruction {
	for _, b := range fn.Blocks {
		for _, in := range b.Instrs {
			if in.Pos() == pos {
				switch in.(type) {
				case *ssa.Slice, *ssa.Index, *ssa.IndexAddr, *ssa.Lookup:
					return in
				}
			}
		}
	}
	return nil
}

func readCountIdiom(p *engine.Program, u engine.Unproven, e *ast.SliceExpr) string {
	in := ssaAt(u.Fn, e.Lbrack)
	sl, ok := in.(*ssa.Slice)
	if !ok || sl.High == nil {
		return ""
	}
	h := engine.Unwrap(sl.High)
	var call *ssa.Call
	switch x := h.(type) {
	case *ssa.Extract:
		if x.Index == 0 {
			call, _ = x.Tuple.(*ssa.Call)
		}
	case *ssa.Call:
		call = x
	}
	if call == nil {
		return ""
	}
	name := ""
	if o := engine.CalleeObj(call.Common()); o != nil {
		name = o.Name()
	} else if b, isB := call.Common().Value.(*ssa.Builtin); isB {
		name = b.Name()
	}
	if !readCountMethods[name] {
		return ""
	}
	sameBuf := func(a ssa.Value) bool {
		a = engine.Unwrap(a)
		if a == sl.X {
			return true
		}
		if s2, ok := a.(*ssa.Slice); ok && s2.X == sl.X && s2.Low == nil && s2.High == nil {
			return true
		}
		// both are full slices of the same array
		if s1, ok := sl.X.(*ssa.Slice); ok {
			if s2, ok := a.(*ssa.Slice); ok && s1.X == s2.X && s2.Low == nil && s2.High == nil && s1.Low == nil && s1.High == nil {
				return true
			}
		}
		return false
	}
	for _, a := range call.Common().Args {
		if sameBuf(a) {
			return fmt.Sprintf("I1 %s is sliced by the count returned from %s on the same buffer (contract 0 <= n <= len(buf))", engine.ExprString(e.X), name)
		}
	}
	return ""
}

func rangeKeyIdiom(info *types.Info, u engine.Unproven, e *ast.IndexExpr, id *ast.Ident) string {
	obj := info.Uses[id]
	if obj == nil {
		return ""
	}
	xs := engine.ExprString(e.X)
	for _, n := range u.Path {
		rs, ok := n.(*ast.RangeStmt)
		if !ok || rs.Key == nil {
			continue
		}
		kid, ok := rs.Key.(*ast.Ident)
		if !ok || info.Defs[kid] != obj {
			continue
		}
		if engine.ExprString(rs.X) != xs {
			continue
		}
		// no assignment to the ranged expression (or a prefix of it) inside the loop body
		mutated := false
		ast.Inspect(rs.Body, func(n ast.Node) bool {
			if as, ok := n.(*ast.AssignStmt); ok {
				for _, l := range as.Lhs {
					ls := engine.ExprString(l)
					if ls == xs || strings.HasPrefix(xs, ls+".") || ls == id.Name {
						mutated = true
					}
				}
			}
			if inc, ok := n.(*ast.IncDecStmt); ok && engine.ExprString(inc.X) == id.Name {
				mutated = true
			}
			return true
		})
		if !mutated {
			return fmt.Sprintf("I2 index %s is the key of the enclosing range over %s, which is not assigned in the loop", id.Name, xs)
		}
	}
	return ""
}

// paramLenIdiom (I4): x is a parameter of a named function; every call site passes an argument
// whose length is guaranteed >= need by a dominating test. Returns (reason,"") when discharged,
// ("",bad) when x is a parameter but some call site lacks the guard, ("","") when not applicable.
func paramLenIdiom(p *engine.Program, u engine.Unproven, x ast.Expr, need int64) (string, string) {
	id, ok := x.(*ast.Ident)
	if !ok || u.Fn.Parent() != nil {
		return "", ""
	}
	obj := u.Pkg.TypesInfo.Uses[id]
	idx := -1
	for i, prm := range u.Fn.Params {
		if prm.Object() == obj {
			idx = i
		}
	}
	if idx < 0 {
		return "", ""
	}
	fobj, _ := u.Fn.Object().(*types.Func)
	if fobj == nil {
		return "", ""
	}
	sites := p.CallSitesOf(fobj)
	// address-taken? a function value use defeats the enumeration
	if refs := fnValueUses(p, u.Fn); refs > 0 {
		return "", fmt.Sprintf("%s is used as a function value (%d use(s)); call sites cannot be enumerated for idiom I4", engine.FuncName(u.Fn), refs)
	}
	if len(sites) == 0 {
		return "", ""
	}
	var where []string
	for _, cs := range sites {
		if engine.IsMock(cs.Parent()) {
			continue
		}
		args := cs.Common().Args
		if idx >= len(args) {
			return "", "call site with fewer arguments than parameters at " + p.Pos(cs.Pos())
		}
		a := args[idx]
		caller := cs.Parent()
		holds, _ := engine.IntCmpEdges(caller, func(v ssa.Value) bool {
			c, ok := engine.Unwrap(v).(*ssa.Call)
			if !ok {
				return false
			}
			b, ok := c.Common().Value.(*ssa.Builtin)
			return ok && b.Name() == "len" && len(c.Common().Args) == 1 && c.Common().Args[0] == a
		}, 0, token.GEQ, need)
		cut := engine.EdgeSet{}.Add(holds...)
		target := cs.(ssa.Instruction)
		if hit := engine.Reach(caller, nil, cut, nil, func(in ssa.Instruction) bool { return in == target }); hit != nil {
			return "", fmt.Sprintf("I4 fails: call of %s at %s passes an argument whose length is not guaranteed >= %d by a dominating test", engine.FuncName(u.Fn), p.Pos(cs.Pos()), need)
		}
		where = append(where, engine.FuncName(caller))
	}
	return fmt.Sprintf("I4 parameter %s: all %d call site(s) (%s) are dominated by a test guaranteeing len >= %d", id.Name, len(where), strings.Join(where, ", "), need), ""
}

// fnValueUses counts uses of fn as a value (not as the callee of a call).
func fnValueUses(p *engine.Program, fn *ssa.Function) int {
	n := 0
	p.AllInstrs(func(f *ssa.Function, in ssa.Instruction) {
		if engine.IsMock(f) {
			return
		}
		ops := in.Operands(nil)
		for _, op := range ops {
			if *op == ssa.Value(fn) {
				if ci, ok := in.(ssa.CallInstruction); ok && ci.Common().Value == ssa.Value(fn) {
					continue
				}
				n++
			}
		}
	})
	return n
}

// boundsObligations generates O1-style obligations for every unproven check located in cone.
func boundsObligations(r *engine.Report, p *engine.Program, rule string, in func(fn *ssa.Function) bool, us []engine.Unproven) {
	for _, u := range us {
		if u.Fn == nil || !in(u.Fn) {
			continue
		}
		ex := "?"
		if u.Expr != nil {
			ex = engine.ExprString(u.Expr)
		}
		ok, why := dischargeBounds(p, u)
		st := engine.Discharged
		if !ok {
			st = engine.Violated
		}
		r.Add(rule, engine.FuncName(u.Fn)+": "+ex, u.Pos, st, why)
	}
}

// alphaNormalise renders e with every identifier that denotes a local variable, parameter or
// receiver replaced by $n (n = order of first appearance); field and package-level names are kept.
func alphaNormalise(e ast.Expr, info *types.Info) string {
	names := map[types.Object]string{}
	var sb strings.Builder
	var walk func(n ast.Expr)
	walk = func(n ast.Expr) {
		switch x := n.(type) {
		case *ast.Ident:
			obj := info.Uses[x]
			if v, ok := obj.(*types.Var); ok && !v.IsField() && v.Parent() != nil && v.Parent() != v.Pkg().Scope() {
				if _, seen := names[obj]; !seen {
					names[obj] = fmt.Sprintf("$%d", len(names))
				}
				sb.WriteString(names[obj])
				return
			}
			sb.WriteString(x.Name)
		case *ast.SelectorExpr:
			walk(x.X)
			sb.WriteString("." + x.Sel.Name)
		case *ast.IndexExpr:
			walk(x.X)
			sb.WriteString("[")
			walk(x.Index)
			sb.WriteString("]")
		case *ast.SliceExpr:
			walk(x.X)
			sb.WriteString("[")
			if x.Low != nil {
				walk(x.Low)
			}
			sb.WriteString(":")
			if x.High != nil {
				walk(x.High)
			}
			sb.WriteString("]")
		case *ast.BinaryExpr:
			walk(x.X)
			sb.WriteString(" " + x.Op.String() + " ")
			walk(x.Y)
		case *ast.CallExpr:
			walk(x.Fun)
			sb.WriteString("(")
			for i, a := range x.Args {
				if i > 0 {
					sb.WriteString(", ")
				}
				walk(a)
			}
			sb.WriteString(")")
		case *ast.ParenExpr:
			sb.WriteString("(")
			walk(x.X)
			sb.WriteString(")")
		default:
			sb.WriteString(types.ExprString(n))
		}
	}
	walk(e)
	return sb.String()
}

// readyGuardIdiom (I6): a slice of a field buffer in a function that takes it only on the
// true edge of the readiness result of a callee which tests len(buffer) >= size + k.
func readyGuardIdiom(p *engine.Program, u engine.Unproven) string {
	se, ok := u.Expr.(*ast.SliceExpr)
	if !ok {
		return ""
	}
	in := ssaAt(u.Fn, se.Lbrack)
	sl, ok := in.(*ssa.Slice)
	if !ok {
		return ""
	}
	bufField, _ := engine.FieldOfLoad(sl.X)
	if bufField == nil {
		return ""
	}
	// inlined form: the readiness test len(buffer) >= size + k sits in this function and the slice
	// is taken only on the edges where it holds; bounds are constants or size + c with c <= k
	{
		var size ssa.Value
		maxC := int64(0)
		boundOK := func(v ssa.Value) bool {
			if v == nil {
				return true
			}
			if k, isC := engine.ConstInt(v); isC {
				if k > maxC {
					maxC = k
				}
				return k >= 0
			}
			if add, isAdd := v.(*ssa.BinOp); isAdd && add.Op == token.ADD {
				k, isC := engine.ConstInt(add.Y)
				if !isC || k < 0 || (size != nil && size != add.X) {
					return false
				}
				size = add.X
				if k > maxC {
					maxC = k
				}
				return true
			}
			return false
		}
		nonNeg := func(v ssa.Value) bool {
			// int(<unsigned narrower than int>)
			for i := 0; i < 3; i++ {
				cv, isCv := v.(*ssa.Convert)
				if !isCv {
					return false
				}
				if b, isB := cv.X.Type().Underlying().(*types.Basic); isB && (b.Kind() == types.Uint8 || b.Kind() == types.Uint16 || b.Kind() == types.Uint32) {
					return true
				}
				v = cv.X
			}
			return false
		}
		if boundOK(sl.Low) && boundOK(sl.High) && size != nil && nonNeg(size) {
			tE, _ := engine.CondEdges(u.Fn, func(c ssa.Value) (bool, bool) {
				bo, isB := c.(*ssa.BinOp)
				if !isB || (bo.Op != token.GEQ && bo.Op != token.LSS) {
					return false, false
				}
				lc, isL := bo.X.(*ssa.Call)
				if !isL {
					return false, false
				}
				bi, isBi := lc.Common().Value.(*ssa.Builtin)
				if !isBi || bi.Name() != "len" {
					return false, false
				}
				if f, _ := engine.FieldOfLoad(lc.Common().Args[0]); f != bufField {
					return false, false
				}
				add, isAdd := bo.Y.(*ssa.BinOp)
				if !isAdd || add.Op != token.ADD || add.X != size {
					return false, false
				}
				if k, isC := engine.ConstInt(add.Y); !isC || k < maxC {
					return false, false
				}
				return true, bo.Op == token.GEQ
			})
			if len(tE) > 0 && engine.Reach(u.Fn, nil, engine.EdgeSet{}.Add(tE...), nil, func(x ssa.Instruction) bool { return x == ssa.Instruction(sl) }) == nil {
				return fmt.Sprintf("I6 the slice is taken only where len(%s) >= size + k was established in the same function (size is a converted unsigned value, bounds are constants or size + c, c <= k)", bufField.Name())
			}
		}
	}
	for _, ci := range engine.CallsIn(u.Fn) {
		call, isCall := ci.(*ssa.Call)
		callee := ci.Common().StaticCallee()
		if !isCall || callee == nil || callee.Signature.Results().Len() != 2 {
			continue
		}
		// callee compares len(<same field>) >= x + const
		tests := false
		for _, b := range callee.Blocks {
			for _, i2 := range b.Instrs {
				bo, isB := i2.(*ssa.BinOp)
				if !isB || (bo.Op != token.GEQ && bo.Op != token.LSS) {
					continue
				}
				if lc, isL := bo.X.(*ssa.Call); isL {
					if bi, isBi := lc.Common().Value.(*ssa.Builtin); isBi && bi.Name() == "len" {
						if f, _ := engine.FieldOfLoad(lc.Common().Args[0]); f == bufField {
							if add, isAdd := bo.Y.(*ssa.BinOp); isAdd && add.Op == token.ADD {
								tests = true
							}
						}
					}
				}
			}
		}
		if !tests {
			continue
		}
		rdy := callResult(call, 1)
		size := callResult(call, 0)
		if len(rdy) != 1 || len(size) != 1 {
			continue
		}
		tE, _ := engine.CondEdges(u.Fn, func(c ssa.Value) (bool, bool) { return c == rdy[0], true })
		if len(tE) == 0 || engine.Reach(u.Fn, nil, engine.EdgeSet{}.Add(tE...), nil, func(x ssa.Instruction) bool { return x == ssa.Instruction(sl) }) != nil {
			continue
		}
		// the bounds are size+const built from the callee's size result (possibly through a local)
		usesSize := func(v ssa.Value) bool {
			if v == nil {
				return true
			}
			if _, isC := v.(*ssa.Const); isC {
				return true
			}
			if add, isAdd := v.(*ssa.BinOp); isAdd && add.Op == token.ADD && add.X == size[0] {
				_, isC := add.Y.(*ssa.Const)
				return isC
			}
			return false
		}
		if usesSize(sl.Low) && usesSize(sl.High) {
			return fmt.Sprintf("I6 the slice is taken only on the ready == true edge of %s, which tests len(%s) >= size + k under the same lock", engine.FuncName(callee), bufField.Name())
		}
	}
	return ""
}

// madeBufferIdiom (I7): x[a:b] with constants a <= b <= c on a buffer made in the same function
// with length len(y) + c.
func madeBufferIdiom(p *engine.Program, u engine.Unproven) string {
	se, ok := u.Expr.(*ast.SliceExpr)
	if !ok {
		return ""
	}
	in := ssaAt(u.Fn, se.Lbrack)
	sl, ok := in.(*ssa.Slice)
	if !ok {
		return ""
	}
	mk, ok := sl.X.(*ssa.MakeSlice)
	if !ok {
		return ""
	}
	add, ok := mk.Len.(*ssa.BinOp)
	if !ok || add.Op != token.ADD {
		return ""
	}
	c, ok := engine.ConstInt(add.Y)
	if !ok {
		return ""
	}
	lenOK := false
	if lc, isL := add.X.(*ssa.Call); isL {
		if bi, isBi := lc.Common().Value.(*ssa.Builtin); isBi && bi.Name() == "len" {
			lenOK = true
		}
	}
	if !lenOK {
		// a local holding len(y)
		if lc, isL := engine.Unwrap(add.X).(*ssa.Call); isL {
			if bi, isBi := lc.Common().Value.(*ssa.Builtin); isBi && bi.Name() == "len" {
				lenOK = true
			}
		}
	}
	hi := int64(-1)
	if sl.High != nil {
		if k, ok := engine.ConstInt(sl.High); ok {
			hi = k
		} else {
			return ""
		}
	}
	lo := int64(0)
	if sl.Low != nil {
		if k, ok := engine.ConstInt(sl.Low); ok {
			lo = k
		} else {
			return ""
		}
	}
	if lenOK && lo <= c && (hi < 0 || (lo <= hi && hi <= c)) {
		return fmt.Sprintf("I7 the buffer was just made with length len(x)+%d, so the constant bounds [%d:%d] are within it (barring integer overflow of the length, which no allocation can reach)", c, lo, hi)
	}
	return ""
}

// descendingCounterIdiom (I8): x[:k+c1] where k is a loop counter that starts at len(x)+c0
// (c0+c1 <= 0), is only ever decremented by one, and is decremented only where a dominating test
// has established k+c1 > 0 — so 0 <= k+c1 <= len(x) wherever the slice is taken.
func descendingCounterIdiom(p *engine.Program, u engine.Unproven) string {
	se, ok := u.Expr.(*ast.SliceExpr)
	if !ok || se.Low != nil || se.High == nil {
		return ""
	}
	in := ssaAt(u.Fn, se.Lbrack)
	sl, ok := in.(*ssa.Slice)
	if !ok || sl.High == nil {
		return ""
	}
	// High = phi (+ c1)
	c1 := int64(0)
	var ph *ssa.Phi
	switch h := sl.High.(type) {
	case *ssa.Phi:
		ph = h
	case *ssa.BinOp:
		k, isC := engine.ConstInt(h.Y)
		pp, isP := h.X.(*ssa.Phi)
		if !isC || !isP || (h.Op != token.ADD && h.Op != token.SUB) {
			return ""
		}
		if h.Op == token.SUB {
			k = -k
		}
		c1, ph = k, pp
	default:
		return ""
	}
	// edges: one initial len(x)+c0, the others ph-1 (possibly through another phi of the same kind)
	isLenOfX := func(v ssa.Value) (int64, bool) {
		c0 := int64(0)
		if bo, isB := v.(*ssa.BinOp); isB && (bo.Op == token.ADD || bo.Op == token.SUB) {
			k, isC := engine.ConstInt(bo.Y)
			if !isC {
				return 0, false
			}
			if bo.Op == token.SUB {
				k = -k
			}
			c0, v = k, bo.X
		}
		c, isCall := v.(*ssa.Call)
		if !isCall {
			return 0, false
		}
		bi, isBi := c.Common().Value.(*ssa.Builtin)
		if !isBi || bi.Name() != "len" || engine.Unwrap(c.Common().Args[0]) != engine.Unwrap(sl.X) {
			return 0, false
		}
		return c0, true
	}
	var decs []ssa.Instruction
	nInit := 0
	for _, e := range ph.Edges {
		if c0, isL := isLenOfX(e); isL {
			if c0+c1 > 0 {
				return ""
			}
			nInit++
			continue
		}
		bo, isB := e.(*ssa.BinOp)
		if !isB || bo.Op != token.SUB || bo.X != ssa.Value(ph) {
			return ""
		}
		if k, isC := engine.ConstInt(bo.Y); !isC || k != 1 {
			return ""
		}
		decs = append(decs, bo)
	}
	if nInit != 1 || len(decs) == 0 {
		return ""
	}
	// every decrement is reachable only where k + c1 > 0 was established: k > -c1
	holds, _ := engine.IntCmpEdges(u.Fn, func(v ssa.Value) bool { return v == ssa.Value(ph) }, 0, token.GTR, -c1)
	if len(holds) == 0 {
		return ""
	}
	cut := engine.EdgeSet{}.Add(holds...)
	if engine.Reach(u.Fn, nil, cut, nil, func(x ssa.Instruction) bool { return isOneOf(x, decs) }) != nil {
		return ""
	}
	return fmt.Sprintf("I8 the upper bound is a counter that starts at len(x)%+d, is only decremented by one, and only after a test established counter%+d > 0", -c1+0, c1)
}
