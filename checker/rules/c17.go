package rules

import (
	"fmt"
	"go/token"
	"go/types"
	"strings"

	"golang.org/x/tools/go/ssa"

	"rcheck/engine"
)

func init() { register("C17", c17) }

// closeOwners: close() sites that are neither a sync.Once body nor a single-goroutine
// sender-closer, with the ownership argument.
var closeOwners = map[string]string{
	"(*utils.Broker).start": "the broker goroutine is the only closer of subscriber channels; the only senders are its own delivery goroutines, which it waits for (wg.Wait, checked by R1-broker-wait) before it can handle an unsubscribe or shutdown",
}

// recvOK: channels a goroutine may block on in a plain receive/range because their owner closes them.
var closedByOwner = map[string]string{
	"Subscribe":            "broker subscription: closed by the broker on Unsubscribe or when its context ends",
	"SubscribeUnreachable": "closed by SubscribeUnreachable's forwarder when the broker closes the underlying subscription",
	"Done":                 "context done channel",
	"After":                "timer channel",
}

// blockingExceptions: reasoned exceptions for R5 keyed by function + operation.
var blockingExceptions = map[string]string{
	"utils.ReadStringContext$1: send": "result channel is made with capacity 1 in the parent and this goroutine sends exactly once: the send cannot block",
}

func c17(r *engine.Report, p *engine.Program) {
	r.Explanation = "Decides structural clauses of close-at-any-time safety in pkg/netceptor and pkg/utils: (R1) every close(chan) is the body of a sync.Once, or is done by the single goroutine that is the channel's only sender (and not twice on one path), or is a listed owner whose protocol is checked (the broker waits for its delivery goroutines before it can close a subscriber channel); (R2) repeated Close is nil-safe: no map-entry pointer is dereferenced without a presence/nil test in the close cone, and terminal methods signal 'done' on every path to their return; (R3) ephemeral sockets obtained from ListenPacket are closed or handed to an owner on every path, owners release them from their terminal methods (today Conn.Close/CloseConnection do not: known finding); (R4) every context.With* cancel function is used on every path; (R5) every goroutine's blocking channel operations have a termination arm or block only on owner-closed channels (two unguarded forwarder sends are a known finding); (R6) the listener registry is accessed under listenerLock; (R7) per-object contexts derive from the node context that Shutdown cancels; (R8) Listener.Close closes the QUIC listener before the packet connection. It does not decide actual boundedness of resources over long histories or quic-go's own goroutines."
	r.NotDecided = []string{"that resource use is in fact bounded over long histories", "goroutine counts at run time", "quic-go's own goroutines", "timing of release"}
	r.Assumptions = []string{"sync.Once.Do runs its argument at most once", "a cancelled context closes Done()", "quic-go: closing the transport's packet conn makes its read loop shut the server down (see R8)"}
	scopePkgs := []string{"netceptor", "utils"}
	var scope []*ssa.Function
	for _, fn := range p.Funcs() {
		if inPkg(fn, scopePkgs...) && !engine.IsMock(fn) {
			scope = append(scope, fn)
		}
	}

	// R1 close ownership
	for _, fn := range scope {
		var closes []ssa.CallInstruction
		for _, ci := range engine.CallsIn(fn) {
			if b, ok := ci.Common().Value.(*ssa.Builtin); ok && b.Name() == "close" {
				closes = append(closes, ci)
			}
		}
		if len(closes) == 0 {
			continue
		}
		for i, ci := range closes {
			construct := fmt.Sprintf("%s: close(%s)#%d", engine.FuncName(fn), chanKey(ci.Common().Args[0]), i)
			switch {
			case onlyOnceBody(fn):
				r.Add("R1-close-owner", construct, ci.Pos(), engine.Discharged, "body of a sync.Once.Do: at most one close")
			case closeOwners[engine.FuncName(fn)] != "":
				r.Add("R1-close-owner", construct, ci.Pos(), engine.Discharged, "owner table: "+closeOwners[engine.FuncName(fn)])
			case helperOfOwner(p, fn) != "":
				r.Add("R1-close-owner", construct, ci.Pos(), engine.Discharged, "private helper called only from the owner "+helperOfOwner(p, fn)+": "+closeOwners[helperOfOwner(p, fn)])
			default:
				ok, why := localCloseOK(p, fn, ci, closes)
				r.Check("R1-close-owner", construct, ci.Pos(), ok, why, why)
			}
		}
	}
	r.Min("R1-close-owner", 10)
	// broker: deliveries are awaited before the loop continues
	if bs := p.Func("(*utils.Broker).start"); bs != nil {
		// the delivery goroutines are started in start itself or in a private helper it calls synchronously
		cands := []*ssa.Function{bs}
		for _, ci := range engine.CallsIn(bs) {
			if _, isCall := ci.(*ssa.Call); !isCall {
				continue
			}
			if c := ci.Common().StaticCallee(); c != nil && inPkg(c, "utils") && len(c.Blocks) > 0 && privateHelperOf(p, c, map[string]bool{"(*utils.Broker).start": true}) != "" {
				cands = append(cands, c)
			}
		}
		ok := false
		nGo := 0
		for _, f := range cands {
			var gos, waits []ssa.Instruction
			for _, b := range f.Blocks {
				for _, in := range b.Instrs {
					switch x := in.(type) {
					case *ssa.Go:
						gos = append(gos, in)
					case ssa.CallInstruction:
						if engine.IsCallTo(x.Common(), "(*sync.WaitGroup).Wait") {
							waits = append(waits, in)
						}
					}
				}
			}
			nGo += len(gos)
			if len(gos) != 1 || len(waits) == 0 {
				continue
			}
			// from the go statement, neither a return of f nor a blocking select is reachable without Wait
			escape := engine.Reach(f, gos[0], nil, func(in ssa.Instruction) bool { return isOneOf(in, waits) }, func(in ssa.Instruction) bool {
				if sel, isSel := in.(*ssa.Select); isSel && sel.Blocking {
					return true
				}
				_, isRet := in.(*ssa.Return)
				return isRet
			})
			g := gos[0].(*ssa.Go)
			done := false
			for _, callee := range p.Callees(g) {
				for _, ci := range engine.CallsIn(callee) {
					if _, isDefer := ci.(*ssa.Defer); isDefer && engine.IsCallTo(ci.Common(), "(*sync.WaitGroup).Done") {
						done = true
					}
				}
			}
			ok = escape == nil && done
		}
		ok = ok && nGo == 1
		r.Check("R1-broker-wait", "(*utils.Broker).start: deliveries awaited before the next select", bs.Pos(), ok,
			"after starting the delivery goroutines the broker cannot return to its select (where it closes subscriber channels) without wg.Wait(); each delivery defers wg.Done()",
			"the broker can close a subscriber channel (unsubscribe/shutdown arm) while a delivery goroutine may still be sending on it: send on closed channel panics the process")
	} else {
		r.Broken("(*utils.Broker).start not found")
	}

	// R2 nil-safe repeated close: map-entry pointer derefs in the close cone
	closeRoots := []string{"(*netceptor.PacketConn).Close", "(*netceptor.Listener).Close", "(*netceptor.Conn).Close", "(*netceptor.Conn).CloseConnection", "(*netceptor.Netceptor).Shutdown", "(*netceptor.Netceptor).RemoveLocalServiceAdvertisement"}
	var missing []string
	roots := p.MustFuncs(&missing, closeRoots...)
	for _, m := range missing {
		r.Broken("close-cone root %s not found", m)
	}
	cone := p.Cone(roots)
	nLk := 0
	for _, fn := range cone.Sorted() {
		if !inPkg(fn, "netceptor", "utils") {
			continue
		}
		for _, b := range fn.Blocks {
			for _, in := range b.Instrs {
				lk, ok := in.(*ssa.Lookup)
				if !ok {
					continue
				}
				mt, isMap := lk.X.Type().Underlying().(*types.Map)
				if !isMap {
					continue
				}
				if _, isPtr := mt.Elem().Underlying().(*types.Pointer); !isPtr {
					continue
				}
				// the looked-up pointer value(s)
				var ptrs []ssa.Value
				var okEdges []engine.Edge
				if lk.CommaOk {
					for _, rr := range *lk.Referrers() {
						if e, isE := rr.(*ssa.Extract); isE && e.Index == 0 {
							ptrs = append(ptrs, e)
						}
					}
					okEdges, _ = engine.CondEdges(fn, func(c ssa.Value) (bool, bool) {
						e, isE := c.(*ssa.Extract)
						return isE && e.Index == 1 && e.Tuple == ssa.Value(lk), true
					})
				} else {
					ptrs = append(ptrs, lk)
				}
				for _, pv := range ptrs {
					for _, rr := range *pv.Referrers() {
						var deref ssa.Instruction
						switch x := rr.(type) {
						case *ssa.FieldAddr:
							if x.X == pv {
								deref = x
							}
						case *ssa.UnOp:
							if x.Op == token.MUL && x.X == pv {
								deref = x
							}
						}
						if deref == nil {
							continue
						}
						nLk++
						_, nonNil := engine.NilCmpEdges(fn, func(v ssa.Value) bool { return v == pv })
						cut := engine.EdgeSet{}.Add(nonNil...).Add(okEdges...)
						guarded := len(cut) > 0 && engine.Reach(fn, nil, cut, nil, func(in ssa.Instruction) bool { return in == deref }) == nil
						rangeKey := isRangeKeyOfSameMap(lk)
						construct := fmt.Sprintf("%s: deref of %s[..]", engine.FuncName(fn), chanKey(lk.X))
						r.Check("R2-nil-safe-close", construct, deref.Pos(), guarded || rangeKey,
							map[bool]string{true: "the key is the range key of the same map (entry present)", false: "every path to the dereference passes a presence/nil test of the map entry"}[rangeKey],
							"a map entry that may be absent (second Close, concurrent removal) is dereferenced without a presence/nil test: repeated Close panics")
					}
				}
			}
		}
	}
	r.Extra["close_cone_size"] = len(cone.Fns)
	// terminal methods signal done on every path
	for _, n := range []string{"(*netceptor.Conn).Close", "(*netceptor.Conn).CloseConnection", "(*netceptor.Listener).Close"} {
		fn := p.Func(n)
		if fn == nil {
			continue
		}
		var once []ssa.Instruction
		for _, ci := range callsTo(fn, "(*sync.Once).Do") {
			once = append(once, ci)
		}
		// a private helper that itself always performs the Once.Do (e.g. signalDone())
		for _, ci := range engine.CallsIn(fn) {
			callee := ci.Common().StaticCallee()
			if callee == nil || !p.IsReceptorFn(callee) || callee.Blocks == nil {
				continue
			}
			var inner []ssa.Instruction
			for _, c2 := range callsTo(callee, "(*sync.Once).Do") {
				inner = append(inner, c2)
			}
			if len(inner) > 0 && engine.Reach(callee, nil, nil, func(in ssa.Instruction) bool { return isOneOf(in, inner) }, func(in ssa.Instruction) bool { _, ok := in.(*ssa.Return); return ok }) == nil {
				once = append(once, ci)
			}
		}
		bad := engine.Reach(fn, nil, nil, func(in ssa.Instruction) bool { return isOneOf(in, once) }, func(in ssa.Instruction) bool { _, ok := in.(*ssa.Return); return ok })
		r.Check("R2-done-signalled", n+": done channel closed on every path", fn.Pos(), len(once) == 1 && bad == nil,
			"every path to a return passes doneOnce.Do(close(doneChan)): the goroutines watching this object are always released", "a path returns without closing the done channel (e.g. after an error of the stream close): watcher goroutines and subscriptions of this connection leak")
	}

	// R3 owned release of ephemeral sockets
	ownedRelease(r, p)

	// R4 lost cancel functions
	lostCancel(r, p, scope)

	// R5 goroutine termination arms
	goroutineArms(r, p, scope)
	// R9 a delivery that waits for a reader never holds a registry/table lock: Close (which needs
	// the write lock to deregister the socket) must always be able to get through
	blockingSendsUnderLock(r, p, "R9-no-block-under-lock", scope)
	bindOnceRule(r, p, "R6-bind-once")
	// R5b the per-connection unreachable monitor is released by that connection's own done
	// channel: the channel handed to monitorUnreachable is made in the same function and is the
	// one stored in the Conn it belongs to
	{
		doneF := p.Field("netceptor", "Conn", "doneChan")
		n := 0
		p.AllInstrs(func(fn *ssa.Function, in ssa.Instruction) {
			if engine.IsMock(fn) {
				return
			}
			ci, ok := in.(ssa.CallInstruction)
			if !ok || !engine.IsCallTo(ci.Common(), "netceptor.monitorUnreachable") {
				return
			}
			n++
			origin := func(v ssa.Value) ssa.Value {
				v = engine.Unwrap(v)
				if u, isU := v.(*ssa.UnOp); isU && u.Op == token.MUL {
					if al, isAl := u.X.(*ssa.Alloc); isAl {
						var sv ssa.Value
						ns := 0
						if refs := al.Referrers(); refs != nil {
							for _, rr := range *refs {
								if st, isS := rr.(*ssa.Store); isS && st.Addr == ssa.Value(al) {
									sv = engine.Unwrap(st.Val)
									ns++
								}
							}
						}
						if ns == 1 {
							return sv
						}
					}
				}
				return v
			}
			arg := origin(ci.Common().Args[1])
			_, local := arg.(*ssa.MakeChan)
			stored := false
			if local && doneF != nil {
				outer := engine.Outermost(fn)
				var scan func(f *ssa.Function)
				scan = func(f *ssa.Function) {
					for _, a := range engine.FieldAccessesIn(f, doneF) {
						if st, isS := a.Instr.(*ssa.Store); isS && origin(st.Val) == arg {
							stored = true
						}
					}
					for _, an := range f.AnonFuncs {
						scan(an)
					}
				}
				scan(outer)
			}
			r.Check("R5-goroutine-arms", fmt.Sprintf("%s: monitorUnreachable is released by the connection's own done channel", engine.FuncName(fn)), ci.Pos(), local && stored,
				"the done channel passed is made in this function and stored in the Conn being set up (Conn.Close / CloseConnection close it)",
				"the monitor is tied to a channel other than the new connection's own done channel (e.g. the listener's): closing the connection releases nothing — one subscription and three goroutines stay behind per past connection")
		})
		if n < 2 {
			r.Broken("monitorUnreachable call sites: %d found, expected 2 (DialContext, acceptLoop)", n)
		}
	}

	// R5b forwarders of broker subscriptions drain until the broker closes the subscription: their only
	// exit is the "channel closed" edge (an earlier exit leaves a delivery pending and wedges the broker)
	for _, fname := range []string{"(*netceptor.PacketConn).SubscribeUnreachable", "(*netceptor.PacketConn).StartUnreachable", "(*netceptor.Netceptor).SubscribeRoutingUpdates"} {
		fn := p.Func(fname)
		if fn == nil {
			continue
		}
		for _, an := range fn.AnonFuncs {
			// the subscription receive with comma-ok, or a range
			var closedEdges []engine.Edge
			drains := false
			for _, b := range an.Blocks {
				for _, in := range b.Instrs {
					switch x := in.(type) {
					case *ssa.UnOp:
						if x.Op == token.ARROW && chanKey(x.X) == "iChan" {
							drains = true
							if x.CommaOk {
								_, f := engine.CondEdges(an, func(c ssa.Value) (bool, bool) {
									e, ok := c.(*ssa.Extract)
									return ok && e.Index == 1 && e.Tuple == ssa.Value(x), true
								})
								closedEdges = append(closedEdges, f...)
							}
						}
					case *ssa.Select:
						for si, st := range x.States {
							if st.Dir == types.RecvOnly && chanKey(st.Chan) == "iChan" {
								drains = true
								// recvOk of this state: extract index 1 is the shared recvOk
								_ = si
								_, f := engine.CondEdges(an, func(c ssa.Value) (bool, bool) {
									e, ok := c.(*ssa.Extract)
									return ok && e.Index == 1 && e.Tuple == ssa.Value(x), true
								})
								closedEdges = append(closedEdges, f...)
							}
						}
					case *ssa.Next:
						if chanKey(x.Iter) == "iChan" {
							drains = true
							_, f := engine.CondEdges(an, func(c ssa.Value) (bool, bool) {
								e, ok := c.(*ssa.Extract)
								return ok && e.Index == 0 && e.Tuple == ssa.Value(x), true
							})
							closedEdges = append(closedEdges, f...)
						}
					}
				}
			}
			if !drains {
				continue
			}
			// node shutdown (context Done of the node) may also end the forwarder of routing updates: allow returns behind a Done() arm of the NODE context only for SubscribeRoutingUpdates
			cut := engine.EdgeSet{}.Add(closedEdges...)
			bad := engine.Reach(an, nil, cut, nil, func(in ssa.Instruction) bool { _, ok := in.(*ssa.Return); return ok })
			if fname == "(*netceptor.Netceptor).SubscribeRoutingUpdates" {
				// its broker and its exits share the node context: when that context ends the broker ends too
				if bad != nil {
					r.Add("R5-drain-until-closed", engine.FuncName(an)+": exits", an.Pos(), engine.Discharged, "exits on the node context, which also ends the broker it drains").Trivial = true
				}
				continue
			}
			r.Check("R5-drain-until-closed", engine.FuncName(an)+": returns only when the subscription channel is closed", an.Pos(), len(closedEdges) > 0 && bad == nil,
				"the forwarder keeps receiving until the broker closes its channel", "the forwarder can return while its subscription is still registered (e.g. on the subscriber's done channel): the broker then blocks forever delivering the next notice, the unsubscribe never completes and every later subscribe on that socket hangs")
		}
	}

	// R6 guarded-by listenerRegistry ↔ listenerLock (accessor uses resolve to the same fields)
	guardedBy(r, p, "R6-guarded-by", p.Field("netceptor", "Netceptor", "listenerRegistry"), p.Field("netceptor", "Netceptor", "listenerLock"),
		callerHolds{
			"netceptor.NewPacketConnWithConst":          "holds: called from ListenPacket/ListenPacketAndAdvertise with listenerLock write-held",
			"(*netceptor.Netceptor).GetListenerRegistry": "accessor: hands the map to PacketConn, whose uses are checked at their own sites",
		})
	registryAccessorSites(r, p)

	// R7 contexts derive from the node context
	contextParents(r, p)

	// R8 close ordering in Listener.Close
	if lc := p.Func("(*netceptor.Listener).Close"); lc != nil {
		var ql, pc ssa.Instruction
		for _, ci := range engine.CallsIn(lc) {
			if engine.IsCallTo(ci.Common(), "(*github.com/quic-go/quic-go.Listener).Close") {
				ql = ci
			}
			if ci.Common().IsInvoke() && ci.Common().Method.Name() == "Close" && strings.HasSuffix(ci.Common().Value.Type().String(), "PacketConner") {
				pc = ci
			}
		}
		ok := ql != nil && pc != nil && engine.Reach(lc, nil, nil, func(in ssa.Instruction) bool { return in == ql }, func(in ssa.Instruction) bool { return in == pc }) == nil
		r.Check("R8-close-order", "(*netceptor.Listener).Close: QUIC listener closed before its packet connection", lc.Pos(), ok,
			"pc.Close() is reached only after ql.Close()", "the packet connection is closed first: quic-go's transport read loop then shuts the server down holding the transport mutex while ql.Close() holds the server's closeOnce and waits for that mutex — Listener.Close deadlocks (reproduced on the pinned tree before the fix)")
	}
}

// chanKey renders a stable name for a channel/map expression.
func chanKey(v ssa.Value) string {
	if f, _ := engine.FieldOfLoad(v); f != nil {
		return f.Name()
	}
	switch x := v.(type) {
	case *ssa.UnOp:
		return chanKey(x.X)
	case *ssa.FreeVar:
		return x.Name()
	case *ssa.Parameter:
		return x.Name()
	case *ssa.Alloc:
		return x.Comment
	case *ssa.MakeChan:
		return "local-chan"
	case *ssa.Extract:
		return "received-chan"
	case *ssa.Call:
		if o := engine.CalleeObj(x.Common()); o != nil {
			return o.Name() + "()"
		}
	}
	return "value"
}

// originChan resolves a channel value used inside fn (possibly a closure) to the MakeChan that
// created it in the outermost function, through free-variable cells.
func originChan(v ssa.Value, depth int) *ssa.MakeChan {
	if depth > 8 {
		return nil
	}
	switch x := v.(type) {
	case *ssa.MakeChan:
		return x
	case *ssa.ChangeType:
		return originChan(x.X, depth+1)
	case *ssa.UnOp:
		if x.Op == token.MUL {
			// load of a cell
			switch c := x.X.(type) {
			case *ssa.Alloc:
				if refs := c.Referrers(); refs != nil {
					var val ssa.Value
					n := 0
					for _, rr := range *refs {
						if st, ok := rr.(*ssa.Store); ok && st.Addr == ssa.Value(c) {
							val = st.Val
							n++
						}
					}
					if n == 1 {
						return originChan(val, depth+1)
					}
				}
			case *ssa.FreeVar:
				fn := c.Parent()
				idx := -1
				for i, fv := range fn.FreeVars {
					if fv == c {
						idx = i
					}
				}
				par := fn.Parent()
				if par == nil || idx < 0 {
					return nil
				}
				for _, b := range par.Blocks {
					for _, in := range b.Instrs {
						if mc, ok := in.(*ssa.MakeClosure); ok && mc.Fn == ssa.Value(fn) && idx < len(mc.Bindings) {
							// binding is the cell (Alloc) or a FreeVar of the parent
							switch bd := mc.Bindings[idx].(type) {
							case *ssa.Alloc:
								return originChan(&ssa.UnOp{Op: token.MUL, X: bd}, depth+1)
							case *ssa.FreeVar:
								return originChan(&ssa.UnOp{Op: token.MUL, X: bd}, depth+1)
							}
						}
					}
				}
			}
		}
	}
	return nil
}

// localCloseOK: a close of a channel created by make() in the enclosing outermost function is
// fine if (a) every send on that channel is in the closing function itself (the closer is the only
// sender) and (b) no path leads from one close of it to another.
func localCloseOK(p *engine.Program, fn *ssa.Function, ci ssa.CallInstruction, all []ssa.CallInstruction) (bool, string) {
	mk := originChan(ci.Common().Args[0], 0)
	if mk == nil {
		return false, "the closed channel is not a local channel of the enclosing function, not a sync.Once body and not in the owner table: several goroutines could close it or send after the close"
	}
	top := engine.Outermost(fn)
	var fns []*ssa.Function
	var walk func(f *ssa.Function)
	walk = func(f *ssa.Function) {
		fns = append(fns, f)
		for _, a := range f.AnonFuncs {
			walk(a)
		}
	}
	walk(top)
	for _, f := range fns {
		for _, b := range f.Blocks {
			for _, in := range b.Instrs {
				var chans []ssa.Value
				switch x := in.(type) {
				case *ssa.Send:
					chans = append(chans, x.Chan)
				case *ssa.Select:
					for _, st := range x.States {
						if st.Dir == types.SendOnly {
							chans = append(chans, st.Chan)
						}
					}
				}
				for _, ch := range chans {
					if originChan(ch, 0) == mk && f != fn {
						return false, fmt.Sprintf("%s sends on the channel that %s closes: a send can race with or follow the close", engine.FuncName(f), engine.FuncName(fn))
					}
				}
			}
		}
	}
	for _, other := range all {
		if other == ci || originChan(other.Common().Args[0], 0) != mk {
			continue
		}
		if engine.Reach(fn, ci, nil, nil, func(in ssa.Instruction) bool { return in == ssa.Instruction(other) }) != nil {
			return false, "two closes of the same channel lie on one path: close of closed channel"
		}
	}
	// the channel escapes to another goroutine only as a receive end? (passed as argument / returned): accepted
	return true, "local channel: the closing function is its only sender and no path closes it twice"
}

func isRangeKeyOfSameMap(lk *ssa.Lookup) bool {
	e, ok := lk.Index.(*ssa.Extract)
	if !ok || e.Index != 1 {
		return false
	}
	nx, ok := e.Tuple.(*ssa.Next)
	if !ok {
		return false
	}
	rg, ok := nx.Iter.(*ssa.Range)
	if !ok {
		return false
	}
	f1, b1 := engine.FieldOfLoad(rg.X)
	f2, b2 := engine.FieldOfLoad(lk.X)
	return f1 != nil && f1 == f2 && b1 == b2
}

// helperOfOwner: fn is a named function all of whose call sites are in one function of the
// close-owner table (and it is never used as a value).
func helperOfOwner(p *engine.Program, fn *ssa.Function) string {
	if fn.Parent() != nil {
		return ""
	}
	obj, _ := fn.Object().(*types.Func)
	if obj == nil || fnValueUses(p, fn) > 0 {
		return ""
	}
	owner := ""
	for _, cs := range p.CallSitesOf(obj) {
		if engine.IsMock(cs.Parent()) {
			continue
		}
		name := engine.FuncName(engine.Outermost(cs.Parent()))
		if closeOwners[name] == "" {
			return ""
		}
		if owner != "" && owner != name {
			return ""
		}
		owner = name
	}
	return owner
}
