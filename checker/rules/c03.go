package rules

import (
	"go/types"
	"fmt"
	"go/token"
	"strings"

	"golang.org/x/tools/go/ssa"

	"rcheck/engine"
)

func init() { register("C03", c03) }

func c03(r *engine.Report, p *engine.Program) {
	r.Explanation = "Decides only the receptor-owned relay code on a stream's path, not the loss/reorder recovery (which is quic-go's): each bridge half writes exactly buf[:n] of the buffer it just read with the count that read returned, also when the read returned data together with an error/EOF; a read error, a write error or a short write each end the half by closing the peer and signalling completion, with no way back into the loop; BridgeConns runs the two halves with swapped ends and waits for both; Conn.Read/Write delegate to the QUIC stream with the caller's slice and Conn.Close half-closes it; the stream preamble written by the dialer is the single zero byte the acceptor checks for; an established stream is cancelled by an unreachable notice only if that notice says 'service unknown' about the stream's own remote node and service (a transient 'message expired' during re-routing must not end it). It does not decide loss, duplication, reordering or re-routing recovery, nor timing against the idle timeout."
	r.NotDecided = []string{"loss/duplication/reordering/re-routing recovery (quic-go retransmission over PacketConn, a third-party library)", "timing relative to the idle timeout", "flow control"}
	r.Assumptions = []string{"io.Reader contract: 0 <= n <= len(buf), data may be returned together with an error", "quic-go streams are reliable ordered byte streams over a lossy datagram PacketConn"}
	bh := p.Func("utils.bridgeHalf")
	bc := p.Func("utils.BridgeConns")
	if bh == nil || bc == nil {
		r.Broken("bridge functions not found")
		return
	}
	// R1 value identity
	var read, write *ssa.Call
	for _, ci := range engine.CallsIn(bh) {
		c := ci.Common()
		if c.IsInvoke() && c.Method.Name() == "Read" && c.Value == ssa.Value(bh.Params[0]) {
			read, _ = ci.(*ssa.Call)
		}
		if c.IsInvoke() && c.Method.Name() == "Write" && c.Value == ssa.Value(bh.Params[2]) {
			write, _ = ci.(*ssa.Call)
		}
	}
	viaCopy := len(callsTo(bh, "io.Copy")) > 0
	if read == nil || write == nil {
		r.Check("R1-same-bytes", "bridgeHalf: Read from c1 / Write to c2", bh.Pos(), viaCopy, "the half is an io.Copy", "bridgeHalf no longer reads from c1 and writes to c2")
		if !viaCopy {
			return
		}
	} else {
		n := callResult(read, 0)
		okW := false
		if sl, ok := engine.Unwrap(write.Common().Args[0]).(*ssa.Slice); ok && len(n) == 1 {
			okW = sl.X == read.Common().Args[0] && sl.Low == nil && sl.High == n[0]
		}
		r.Check("R1-same-bytes", "bridgeHalf: writes buf[:n] of the buffer and count of the same Read", write.Pos(), okW,
			"the slice written is exactly the bytes the preceding Read returned", "the bytes written are not exactly buf[:n] of the Read that filled buf")
		// data returned together with an error is still relayed
		_, nonNil := engine.NilCmpEdges(bh, engine.ResultOfCall(read, -1))
		okTail := len(nonNil) > 0
		for _, e := range nonNil {
			if reachFromEdge(bh, e, nil, func(in ssa.Instruction) bool { return in == ssa.Instruction(read) }, func(in ssa.Instruction) bool { return in == ssa.Instruction(write) }) == nil {
				okTail = false
			}
		}
		r.Check("R1-same-bytes", "bridgeHalf: bytes returned together with a read error/EOF are still written", write.Pos(), okTail,
			"from the err != nil edge of the Read the Write is still reachable before the next Read (io.Reader may return n > 0 with io.EOF; a QUIC stream does so when FIN rides on the last data frame)", "after a read error the half stops without relaying the bytes returned with that error: the tail of the stream is dropped while the far side sees a clean close")
		// R2 termination on errors / short write
		var closeC2, doneSend ssa.Instruction
		for _, ci := range engine.CallsIn(bh) {
			c := ci.Common()
			if c.IsInvoke() && c.Method.Name() == "Close" && c.Value == ssa.Value(bh.Params[2]) {
				closeC2 = ci
			}
		}
		for _, an := range bh.AnonFuncs {
			for _, b := range an.Blocks {
				for _, in := range b.Instrs {
					if _, ok := in.(*ssa.Send); ok {
						doneSend = in
					}
				}
			}
		}
		deferred := false
		for _, ci := range engine.CallsIn(bh) {
			if _, ok := ci.(*ssa.Defer); ok {
				deferred = true
			}
		}
		type fail struct {
			name  string
			edges []engine.Edge
		}
		var fails []fail
		fails = append(fails, fail{"read error", nonNil})
		_, wNonNil := engine.NilCmpEdges(bh, engine.ResultOfCall(write, -1))
		fails = append(fails, fail{"write error", wNonNil})
		wn := callResult(write, 0)
		var shortE []engine.Edge
		if len(wn) == 1 && len(n) == 1 {
			_, shortE = valEqEdges(bh, func(v ssa.Value) bool { return v == wn[0] }, func(v ssa.Value) bool { return v == n[0] })
		}
		fails = append(fails, fail{"short write", shortE})
		for _, f := range fails {
			ok := len(f.edges) > 0 && closeC2 != nil && doneSend != nil && deferred
			if ok {
				for _, e := range f.edges {
					// no further Read without passing c2.Close(); every return passes it
					if reachFromEdge(bh, e, nil, func(in ssa.Instruction) bool { return in == closeC2 }, func(in ssa.Instruction) bool {
						if in == ssa.Instruction(read) {
							return true
						}
						_, isR := in.(*ssa.Return)
						return isR
					}) != nil {
						ok = false
					}
					// and after the close the loop is not re-entered
					if engine.Reach(bh, closeC2, nil, nil, func(in ssa.Instruction) bool { return in == ssa.Instruction(read) }) != nil {
						ok = false
					}
				}
			}
			r.Check("R2-terminal-errors", "bridgeHalf: a "+f.name+" ends the half (close peer, signal done)", bh.Pos(), ok,
				"from that edge neither another Read nor a return is reachable without c2.Close(); the deferred function signals completion", "after a "+f.name+" the half keeps copying or returns without closing the peer: bytes are lost silently / the peer never sees end-of-stream")
		}
	}
	// R3 BridgeConns
	{
		var gos []*ssa.Go
		recvs := 0
		for _, b := range bc.Blocks {
			for _, in := range b.Instrs {
				if g, ok := in.(*ssa.Go); ok && engine.IsCallTo(g.Common(), "utils.bridgeHalf") {
					gos = append(gos, g)
				}
				if u, ok := in.(*ssa.UnOp); ok && u.Op == token.ARROW {
					recvs++
				}
			}
		}
		ok := len(gos) == 2 && recvs == 2
		if ok {
			a, b := gos[0].Common().Args, gos[1].Common().Args
			ok = a[0] == b[2] && a[2] == b[0] && a[0] != a[2] && a[4] == b[4]
		}
		r.Check("R3-two-halves", "BridgeConns: two halves with swapped ends, both awaited", bc.Pos(), ok,
			"go bridgeHalf(c1→c2) and go bridgeHalf(c2→c1) share one done channel that is received from twice", "BridgeConns no longer runs both directions or no longer waits for both")
	}
	// R4 Conn delegation
	for _, spec := range []struct{ fn, method string }{{"(*netceptor.Conn).Read", "Read"}, {"(*netceptor.Conn).Write", "Write"}} {
		fn := p.Func(spec.fn)
		if fn == nil {
			r.Broken("%s not found", spec.fn)
			continue
		}
		ok := false
		calls := engine.CallsIn(fn)
		if len(calls) == 1 {
			c := calls[0].Common()
			f, _ := engine.FieldOfLoad(c.Value)
			ok = c.IsInvoke() && c.Method.Name() == spec.method && f != nil && f.Name() == "qs" && c.Args[0] == ssa.Value(fn.Params[1]) && len(fn.Blocks) == 1
		}
		r.Check("R4-conn-delegates", spec.fn+": single delegation to the QUIC stream", fn.Pos(), ok, "return c.qs."+spec.method+"(b) with the caller's slice, nothing else", "Conn."+spec.method+" no longer hands the caller's slice straight to the QUIC stream")
	}
	if cl := p.Func("(*netceptor.Conn).Close"); cl != nil {
		var qsClose ssa.Instruction
		for _, ci := range engine.CallsIn(cl) {
			c := ci.Common()
			if f, _ := engine.FieldOfLoad(c.Value); c.IsInvoke() && c.Method.Name() == "Close" && f != nil && f.Name() == "qs" {
				qsClose = ci
			}
		}
		ok := qsClose != nil && engine.Reach(cl, nil, nil, func(in ssa.Instruction) bool { return in == qsClose }, func(in ssa.Instruction) bool { _, isR := in.(*ssa.Return); return isR }) == nil
		r.Check("R4-conn-delegates", "(*netceptor.Conn).Close: half-closes the stream on every path", cl.Pos(), ok, "every return passes c.qs.Close() (FIN after all written data)", "Conn.Close can return without closing the write side of the stream: the reader never sees end-of-stream")
	}
	// R5 preamble
	{
		dc := p.Func("(*netceptor.Netceptor).DialContext")
		al := p.Func("(*netceptor.Listener).acceptLoop$1")
		okW, okR := false, false
		if dc != nil {
			for _, ci := range engine.CallsIn(dc) {
				c := ci.Common()
				if c.IsInvoke() && c.Method.Name() == "Write" && strings.Contains(c.Value.Type().String(), "quic") {
					if sl, ok := engine.Unwrap(c.Args[0]).(*ssa.Slice); ok {
						if al2, ok := sl.X.(*ssa.Alloc); ok {
							n, zero := 0, true
							for _, rr := range *al2.Referrers() {
								if ia, ok := rr.(*ssa.IndexAddr); ok {
									for _, r2 := range *ia.Referrers() {
										if st, ok := r2.(*ssa.Store); ok {
											n++
											if k, ok := engine.ConstInt(st.Val); !ok || k != 0 {
												zero = false
											}
										}
									}
								}
							}
							okW = n == 1 && zero && strings.HasPrefix(al2.Type().String(), "*[1]")
						}
					}
				}
			}
		}
		if al != nil {
			// rejects n != 1 || buf[0] != 0
			ne1, _ := engine.IntCmpEdges(al, func(v ssa.Value) bool {
				e, ok := v.(*ssa.Extract)
				if !ok || e.Index != 0 {
					return false
				}
				c, ok := e.Tuple.(*ssa.Call)
				return ok && c.Common().IsInvoke() && c.Common().Method.Name() == "Read"
			}, 0, token.NEQ, 1)
			neq0, _ := engine.IntCmpEdges(al, func(v ssa.Value) bool {
				u, ok := v.(*ssa.UnOp)
				if !ok || u.Op != token.MUL {
					return false
				}
				ia, ok := u.X.(*ssa.IndexAddr)
				if !ok {
					return false
				}
				k, ok := engine.ConstInt(ia.Index)
				return ok && k == 0
			}, 0, token.NEQ, 0)
			okR = len(ne1) > 0 && len(neq0) > 0
			for _, e := range append(ne1, neq0...) {
				// from a bad preamble the Conn is never handed out: no store into a Conn literal / sendResult with conn
				if reachFromEdge(al, e, nil, nil, func(in ssa.Instruction) bool {
					if a, ok := in.(*ssa.Alloc); ok && strings.HasSuffix(a.Type().String(), "netceptor.Conn") {
						return true
					}
					return false
				}) != nil {
					okR = false
				}
			}
		}
		r.Check("R5-preamble", "stream preamble: dialer writes []byte{0}; acceptor requires exactly one zero byte", token.NoPos, okW && okR,
			"both ends agree on the one-byte 0 preamble and the acceptor builds no Conn otherwise", fmt.Sprintf("preamble writer ok=%v, acceptor check ok=%v", okW, okR))
	}
	// R1b each half relays through its own, freshly allocated buffer
	if read != nil {
		fresh := false
		switch x := engine.Unwrap(read.Common().Args[0]).(type) {
		case *ssa.MakeSlice:
			fresh = x.Parent() == bh
		case *ssa.Slice:
			if al, isAl := x.X.(*ssa.Alloc); isAl && al.Heap && al.Parent() == bh {
				fresh = true
			}
		}
		r.Check("R1-same-bytes", "bridgeHalf: the relay buffer is allocated by the half itself", bh.Pos(), fresh,
			"buf is made inside bridgeHalf, so the two directions never share memory", "the relay buffer comes from outside the half (parameter / pool): both directions read into and write out of the same array and bytes are altered in transit when data flows both ways")
	}
	// R7 an established dial-side stream does not depend on the dial context any more
	if dc := p.Func("(*netceptor.Netceptor).DialContext"); dc != nil {
		var wc *ssa.Call
		for _, ci := range callsTo(dc, "context.WithCancel") {
			wc, _ = ci.(*ssa.Call)
		}
		okCtx := wc != nil
		bad := ""
		if wc != nil {
			cctxVals := callResult(wc, 0)
			isDialCtx := func(v ssa.Value, cl *ssa.Function) bool {
				v = engine.Unwrap(v)
				// load of a captured cell holding cctx, or the ctx parameter
				if u, isU := v.(*ssa.UnOp); isU {
					if fv, isFV := u.X.(*ssa.FreeVar); isFV {
						return fv.Name() == "cctx" || fv.Name() == "ctx"
					}
				}
				for _, c := range cctxVals {
					if v == c {
						return true
					}
				}
				return false
			}
			for _, an := range dc.AnonFuncs {
				for _, b := range an.Blocks {
					for _, in := range b.Instrs {
						sel, isSel := in.(*ssa.Select)
						if !isSel {
							continue
						}
						hasDial, hasOK := false, false
						for _, st := range sel.States {
							if c, isC := st.Chan.(*ssa.Call); isC && c.Common().IsInvoke() && c.Common().Method.Name() == "Done" && isDialCtx(c.Common().Value, an) {
								hasDial = true
							}
							if chanKey(st.Chan) == "okChan" {
								hasOK = true
							}
						}
						if hasDial && !hasOK {
							okCtx = false
							bad = engine.FuncName(an)
						}
					}
				}
			}
		}
		r.Check("R7-dial-context-scope", "DialContext: only the pre-establishment watcher waits on the dial context", dc.Pos(), okCtx,
			"a select arm on the dial context's Done() exists only next to the okChan arm that retires the watcher once the stream is established", "goroutine "+bad+" keeps watching the dial context after the stream is established: when the caller's dial context ends (timeout, cancel) a healthy stream is half-closed and its socket closed mid-transfer")
	}
	// R6 streams are cancelled only by 'service unknown' about their own peer
	monitorUnreachableRule(r, p, "R6-no-spurious-cancel")
	streamTimingRules(r, p)
	quicConfigRule(r, p)
	// R10 CloseConnection is QUIC CloseWithError: it discards everything unacknowledged, including
	// the FIN. Only the request/response client in workceptor (which has read the complete reply)
	// may use it; a relay that has merely handed its bytes to the stream must half-close instead.
	{
		var bad []string
		n := 0
		p.AllInstrs(func(fn *ssa.Function, in ssa.Instruction) {
			if engine.IsMock(fn) {
				return
			}
			ci, ok := in.(ssa.CallInstruction)
			if !ok {
				return
			}
			name := ""
			if ci.Common().IsInvoke() {
				name = ci.Common().Method.Name()
			} else if o := engine.CalleeObj(ci.Common()); o != nil {
				name = o.Name()
			}
			if name != "CloseConnection" {
				return
			}
			n++
			if !inPkg(fn, "workceptor") && !inPkg(fn, "netceptor") {
				bad = append(bad, engine.FuncName(fn)+" at "+p.Pos(in.Pos()))
			}
		})
		r.Check("R10-abortive-close", "CloseConnection (abortive close): callers", token.NoPos, len(bad) == 0 && n >= 5,
			fmt.Sprintf("%d call sites, all in the remote-work client (which ends a request/response exchange it has read to the end)", n),
			"the abortive close is called from "+strings.Join(bad, ", ")+": a relay that closes the whole QUIC connection right after bridging drops the unacknowledged tail and the FIN — the far reader sees a truncated stream and an error instead of all data followed by end-of-stream")
	}
}

// quicConfigRule (C03 R9): an idle but healthy stream must survive: both ends configure the same
// idle timeout (the MaxIdleTimeoutForQuicConnections variable) and the dialling end sends
// keep-alives at most every half of it (when keep-alives are enabled).
func quicConfigRule(r *engine.Report, p *engine.Program) {
	idleG := p.Global("netceptor", "MaxIdleTimeoutForQuicConnections")
	if idleG == nil {
		r.Broken("MaxIdleTimeoutForQuicConnections not found")
		return
	}
	isIdle := func(v ssa.Value) bool {
		u, ok := engine.Unwrap(v).(*ssa.UnOp)
		return ok && u.Op == token.MUL && u.X == ssa.Value(idleG)
	}
	nIdle, badIdle := 0, 0
	okKeep, nKeep := true, 0
	p.AllInstrs(func(fn *ssa.Function, in ssa.Instruction) {
		if engine.IsMock(fn) || !inPkg(fn, "netceptor") {
			return
		}
		st, ok := in.(*ssa.Store)
		if !ok {
			return
		}
		fa, ok := st.Addr.(*ssa.FieldAddr)
		if !ok {
			return
		}
		fv := engine.FieldAddrVar(fa)
		if fv == nil || fv.Pkg() == nil || !strings.HasSuffix(fv.Pkg().Path(), "quic-go") {
			return
		}
		switch fv.Name() {
		case "MaxIdleTimeout":
			nIdle++
			if !isIdle(st.Val) {
				badIdle++
			}
		case "KeepAlivePeriod":
			nKeep++
			bo, isB := engine.Unwrap(st.Val).(*ssa.BinOp)
			k := int64(0)
			if isB && bo.Op == token.QUO && isIdle(bo.X) {
				k, _ = engine.ConstInt(bo.Y)
			}
			if k < 2 {
				okKeep = false
			}
		}
	})
	r.Check("R9-quic-config", "quic.Config: both ends use MaxIdleTimeoutForQuicConnections; keep-alive period is at most half of it", token.NoPos, nIdle >= 2 && badIdle == 0 && nKeep >= 1 && okKeep,
		fmt.Sprintf("%d MaxIdleTimeout settings, all the shared variable; %d KeepAlivePeriod setting(s) = that variable / k with k >= 2", nIdle, nKeep),
		fmt.Sprintf("MaxIdleTimeout settings: %d (%d not the shared variable); KeepAlivePeriod settings: %d, at most half of the idle timeout: %v — an idle but healthy stream is closed by the idle timer", nIdle, badIdle, nKeep, okKeep))
}

// streamTimingRules (C03 R8): receptor adds no time limits of its own under a stream. quic-go treats
// an error from PacketConn.WriteTo as fatal for the connection, and a read deadline left on the QUIC
// stream fails every later Read; link delay below the idle timeout must not end a stream.
//  (a) the hand-off of a datagram to the next hop's writer (forwardMessage) waits only on the send
//      and on context cancellation — no timer arm;
//  (b) deadlines on a QUIC stream are set only by Conn's own Set*Deadline methods, i.e. by the
//      application that owns the stream.
func streamTimingRules(r *engine.Report, p *engine.Program) {
	fm := p.Func("(*netceptor.Netceptor).forwardMessage")
	if fm == nil {
		r.Broken("forwardMessage not found")
		return
	}
	nSel := 0
	var bad []string
	for _, b := range fm.Blocks {
		for _, in := range b.Instrs {
			sel, ok := in.(*ssa.Select)
			if !ok {
				continue
			}
			nSel++
			for _, st := range sel.States {
				if st.Dir != types.RecvOnly {
					continue
				}
				c, isCall := engine.Unwrap(st.Chan).(*ssa.Call)
				if isCall && c.Common().IsInvoke() && c.Common().Method.Name() == "Done" {
					continue
				}
				bad = append(bad, "receive on "+st.Chan.String()+" at "+p.Pos(sel.Pos()))
			}
			if !sel.Blocking {
				bad = append(bad, "non-blocking select (default arm) at "+p.Pos(sel.Pos()))
			}
		}
	}
	r.Check("R8-no-own-timeouts", "forwardMessage: the hand-off to the next hop waits only on the send and on context cancellation", fm.Pos(), len(bad) == 0 && nSel > 0,
		fmt.Sprintf("%d select(s); every receive arm is a context Done(): a slow link delays datagrams, it does not turn them into write errors (which quic-go treats as fatal for the stream)", nSel),
		"the hand-off has a timer or other arm ("+strings.Join(bad, "; ")+"): a link that stalls for that long makes WriteTo fail, and quic-go ends the stream although nothing was lost and the idle timeout is far away")
	// (b) who sets deadlines on QUIC streams
	allowed := map[string]bool{"(*netceptor.Conn).SetDeadline": true, "(*netceptor.Conn).SetReadDeadline": true, "(*netceptor.Conn).SetWriteDeadline": true}
	var sites, extra []string
	p.AllInstrs(func(fn *ssa.Function, in ssa.Instruction) {
		if engine.IsMock(fn) || !inPkg(fn, "netceptor") {
			return
		}
		ci, ok := in.(ssa.CallInstruction)
		if !ok || !ci.Common().IsInvoke() {
			return
		}
		switch ci.Common().Method.Name() {
		case "SetDeadline", "SetReadDeadline", "SetWriteDeadline":
		default:
			return
		}
		t := ci.Common().Value.Type().String()
		if !strings.Contains(t, "quic-go") && !strings.HasSuffix(t, ".Stream") {
			return
		}
		name := engine.FuncName(engine.Outermost(fn))
		sites = append(sites, name)
		if !allowed[name] {
			extra = append(extra, name+" at "+p.Pos(in.Pos()))
		}
	})
	r.Check("R8-no-own-timeouts", "QUIC stream deadlines are set only through Conn.Set*Deadline", token.NoPos, len(extra) == 0 && len(sites) >= 1,
		"the three delegating methods of Conn are the only callers: receptor itself never leaves a deadline on a stream it hands to the application",
		"a deadline is set on a QUIC stream in "+strings.Join(extra, ", ")+": unless cleared it fails every Read/Write after it expires, although the connection is healthy")
}
