package rules

import (
	"fmt"
	"go/token"
	"go/types"
	"path/filepath"
	"strings"

	"golang.org/x/tools/go/ssa"

	"rcheck/engine"
)

func init() { register("C08", c08) }

// containerDerived: v is obtained (through lookup, range, extract, phi, interface conversion)
// from a map[string]interface{} / []interface{} container — the shape json.Unmarshal produces
// for client data.
func containerDerived(v ssa.Value, seen map[ssa.Value]bool) bool {
	if seen[v] {
		return false
	}
	seen[v] = true
	isContainer := func(t types.Type) bool {
		switch u := t.Underlying().(type) {
		case *types.Map:
			if it, ok := u.Elem().Underlying().(*types.Interface); ok && it.Empty() {
				return true
			}
		case *types.Slice:
			if it, ok := u.Elem().Underlying().(*types.Interface); ok && it.Empty() {
				return true
			}
		}
		return false
	}
	switch x := v.(type) {
	case *ssa.Lookup:
		return isContainer(x.X.Type())
	case *ssa.Extract:
		switch t := x.Tuple.(type) {
		case *ssa.Lookup:
			return x.Index == 0 && isContainer(t.X.Type())
		case *ssa.Next:
			if rg, ok := t.Iter.(*ssa.Range); ok {
				return isContainer(rg.X.Type())
			}
		}
	case *ssa.UnOp:
		if x.Op == token.MUL {
			if ia, ok := x.X.(*ssa.IndexAddr); ok {
				t := ia.X.Type()
				if pt, ok := t.Underlying().(*types.Pointer); ok {
					t = pt.Elem()
				}
				return isContainer(t)
			}
		}
	case *ssa.Index:
		return isContainer(x.X.Type())
	case *ssa.Phi:
		for _, e := range x.Edges {
			if containerDerived(e, seen) {
				return true
			}
		}
	case *ssa.ChangeInterface:
		return containerDerived(x.X, seen)
	case *ssa.MakeInterface:
		return containerDerived(x.X, seen)
	}
	return false
}

func fileOf(p *engine.Program, fn *ssa.Function) string {
	return filepath.Base(p.Fset.Position(engine.Outermost(fn).Pos()).Filename)
}

func c08(r *engine.Report, p *engine.Program) {
	r.Explanation = "Decides panic-freedom of the control cone (all receptor code reachable from a control-service session) for client-shaped data: no unchecked type assertion on values taken out of JSON containers, no compiler-unproven index/slice in the session/command-parsing code without a stated idiom, no explicit panic; no re-entrant acquisition (including recursive read locking) of the unit-index, work-type, status or control-function locks; every failure of a non-empty request line leads to a reply whose text starts with ERROR before the next line is read; no client socket I/O with a shared lock held. It does not decide memory growth on unterminated lines or latency."
	r.NotDecided = []string{"memory growth on unterminated/over-long lines", "latency bounds ('timely')", "commands that legitimately block (ping)", "panics on unit state read from a corrupted disk (typed-constructor invariant for ExtraData is assumed)", "replies of a remote node's control service (remote_work.go response[:5]) — not client input"}
	r.Assumptions = []string{"json.Unmarshal into map[string]interface{} yields only string, float64, bool, nil, []interface{}, map[string]interface{} values", "a unit's ExtraData holds the pointer type its constructor stored", "the Go compiler's prove pass is sound"}
	cone := controlCone(r, p)
	fns := cone.Sorted()
	r.Extra["cone_sizes"] = map[string]int{"control": len(fns)}
	sessionCode := func(fn *ssa.Function) bool {
		if !cone.Fns[fn] {
			return false
		}
		if inPkg(fn, "controlsvc") {
			return true
		}
		if inPkg(fn, "workceptor") && fileOf(p, fn) == "controlsvc.go" {
			return true
		}
		n := engine.FuncName(engine.Outermost(fn))
		return strings.HasSuffix(n, ").InitFromString") || strings.HasSuffix(n, ").InitFromJSON") || strings.HasSuffix(n, ").ControlFunc")
	}

	// R1 unchecked type assertions on container-derived values
	nTA := 0
	for _, fn := range fns {
		for _, b := range fn.Blocks {
			for _, in := range b.Instrs {
				ta, ok := in.(*ssa.TypeAssert)
				if !ok || !containerDerived(ta.X, map[ssa.Value]bool{}) {
					continue
				}
				nTA++
				construct := fmt.Sprintf("%s: %s", engine.FuncName(fn), strings.ReplaceAll(ta.String(), engine.ModPath+"/pkg/", ""))
				construct = stripTemps(construct)
				if ta.CommaOk {
					r.Add("R1-typeassert", construct, ta.Pos(), engine.Discharged, "comma-ok assertion on client-shaped data")
				} else {
					r.Add("R1-typeassert", construct, ta.Pos(), engine.Violated, "a value taken out of a JSON container (client-controlled type) is asserted without the comma-ok form: any other JSON type panics the session goroutine and kills the node")
				}
			}
		}
	}
	r.Min("R1-typeassert", 8)
	// explicit panics in session code
	for _, fn := range fns {
		if !sessionCode(fn) {
			continue
		}
		for _, b := range fn.Blocks {
			for _, in := range b.Instrs {
				if x, ok := in.(*ssa.Panic); ok && x.Pos().IsValid() {
					r.Add("R1-panic", engine.FuncName(fn)+": panic", x.Pos(), engine.Violated, "explicit panic in control-session code")
				}
			}
		}
	}

	// R2 bounds
	us, err := p.BCEReport("")
	if err != nil {
		r.Broken("%v", err)
		return
	}
	info := []string{}
	nSess := 0
	for _, u := range us {
		if u.Fn == nil || !cone.Fns[u.Fn] {
			continue
		}
		if sessionCode(u.Fn) {
			nSess++
		} else if !strings.Contains(engine.FuncName(u.Fn), "Kube") {
			ex := "?"
			if u.Expr != nil {
				ex = engine.ExprString(u.Expr)
			}
			info = append(info, fmt.Sprintf("%s: %s at %s", engine.FuncName(u.Fn), ex, p.Pos(u.Pos)))
		}
	}
	r.Extra["bce_unproven_in_cone_outside_session_code_informational"] = info
	r.Extra["bce_unproven_in_session_code"] = nSess
	boundsObligations(r, p, "R2-bounds", sessionCode, us)
	// the session loop's own first-byte test must stay compiler-proven: counted through R2 (it
	// appears in the BCE report the moment it is no longer proven)
	rcs := p.Func("(*controlsvc.Server).RunControlSession")
	if rcs == nil {
		r.Broken("anchor RunControlSession not found")
		return
	}
	nIdx := 0
	for _, b := range rcs.Blocks {
		for _, in := range b.Instrs {
			switch in.(type) {
			case *ssa.IndexAddr, *ssa.Index, *ssa.Slice:
				nIdx++
			}
		}
	}
	unprovenInRCS := 0
	for _, u := range us {
		if u.Fn == rcs {
			unprovenInRCS++
		}
	}
	r.Check("R2-bounds", "RunControlSession: index/slice operations compiler-proven", rcs.Pos(), unprovenInRCS == 0 && nIdx > 0,
		fmt.Sprintf("all %d index/slice operations of the session loop are proven in bounds by the compiler", nIdx),
		fmt.Sprintf("%d index/slice operation(s) of the session loop are no longer proven in bounds", unprovenInRCS)).Trivial = false

	// R3 re-entrancy over the control cone (+ scanForUnits)
	lockFields := map[*types.Var]bool{}
	for _, lf := range [][3]string{{"workceptor", "Workceptor", "activeUnitsLock"}, {"workceptor", "Workceptor", "workTypesLock"}, {"workceptor", "BaseWorkUnit", "statusLock"},
		{"workceptor", "BaseWorkUnit", "lastUpdateErrorLock"}, {"controlsvc", "Server", "controlFuncLock"}} {
		f := p.Field(lf[0], lf[1], lf[2])
		if f == nil {
			r.Broken("lock field %s.%s not found", lf[1], lf[2])
			return
		}
		lockFields[f] = true
	}
	scope := append([]*ssa.Function{}, fns...)
	for _, fn := range p.Funcs() {
		if inPkg(fn, "workceptor", "controlsvc") && !cone.Fns[fn] && !engine.IsMock(fn) {
			scope = append(scope, fn)
		}
	}
	nre := reentrancyObligations(r, p, "R3-reentrancy", scope, lockFields)
	nHeld := 0
	for _, fn := range scope {
		lf := p.Locks(fn)
		for _, ci := range engine.CallsIn(fn) {
			if _, isOp := p.LockOpOf(ci); !isOp && len(lf.HeldAt(ci)) > 0 {
				nHeld++
			}
		}
	}
	r.Check("R3-reentrancy", "workceptor+controlsvc: calls made with a lock held", token.NoPos, nre == 0,
		fmt.Sprintf("%d call sites are made with a lock must-held; no (transitive, same-goroutine) callee re-acquires the held lock instance", nHeld),
		fmt.Sprintf("%d re-entrant acquisition(s)", nre))

	// R4 ERROR replies
	errorReplyRules(r, p, rcs)

	// R4b a command that produces no reply object and no error must have talked to the client itself
	for _, impl := range p.Implementations("controlsvc", "ControlCommand", "ControlFunc") {
		if engine.IsMock(impl) {
			continue
		}
		cfoParam := impl.Params[len(impl.Params)-1]
		usesCfo := func(in ssa.Instruction) bool {
			ci, ok := in.(ssa.CallInstruction)
			return ok && ci.Common().IsInvoke() && isParamValue(ci.Common().Value, cfoParam) && ci.Common().Method.Name() != "RemoteAddr"
		}
		bad := engine.Reach(impl, nil, nil, usesCfo, func(in ssa.Instruction) bool {
			ret, ok := in.(*ssa.Return)
			return ok && len(ret.Results) == 2 && engine.IsNilConst(ret.Results[0]) && engine.IsNilConst(ret.Results[1])
		})
		r.Check("R4-error-reply", engine.FuncName(impl)+": (nil, nil) only after the command itself used the connection", impl.Pos(), bad == nil,
			"every 'return nil, nil' is preceded on its path by a ControlFuncOperations call (stream/bridge/close): the session never falls silent", "this command can return neither a reply nor an error without having written to the client: RunControlSession then sends nothing and the client blocks instead of getting an ERROR line")
	}
	// R6 background retry: the failure callback and the action are mutually exclusive
	if gcr := p.Func("(*workceptor.remoteUnit).getConnectionAndRun"); gcr != nil {
		okExcl := true
		found := false
		for _, an := range gcr.AnonFuncs {
			var act, fail []ssa.Instruction
			for _, ci := range engine.CallsIn(an) {
				v := ci.Common().Value
				if u, ok := v.(*ssa.UnOp); ok {
					if fv, ok := u.X.(*ssa.FreeVar); ok {
						switch fv.Name() {
						case "action":
							act = append(act, ci)
						case "failure":
							fail = append(fail, ci)
						}
					}
				}
				if fv, ok := v.(*ssa.FreeVar); ok {
					switch fv.Name() {
					case "action":
						act = append(act, ci)
					case "failure":
						fail = append(fail, ci)
					}
				}
			}
			if len(act) > 0 && len(fail) > 0 {
				found = true
				for _, a := range act {
					if engine.Reach(an, a, nil, nil, func(in ssa.Instruction) bool { return isOneOf(in, fail) }) != nil {
						okExcl = false
					}
				}
			}
		}
		r.Check("R1-panic", "getConnectionAndRun: the failure callback never runs after the action ran", gcr.Pos(), found && okExcl,
			"failure() is reachable only on the path where no connection was obtained; the action accounts for its own completion", "failure() can run after the action already ran: both call WorkerDone on a one-worker job, and the second call panics ('negative WaitGroup counter') in a background goroutine, killing the node")
	}

	// R5 no client I/O with a shared lock held
	nIO := 0
	for _, fn := range fns {
		lf := p.Locks(fn)
		for _, ci := range engine.CallsIn(fn) {
			if !isClientIO(ci) {
				continue
			}
			nIO++
			h := lf.HeldAt(ci)
			bad := ""
			for _, op := range lf.Ops() {
				if _, held := h[op.Path.String()]; held && op.Acquire && lockFields[op.Path.Last()] {
					bad = op.Path.String()
				}
			}
			name := "?"
			if o := engine.CalleeObj(ci.Common()); o != nil {
				name = o.Name()
			}
			r.Check("R5-no-io-under-lock", fmt.Sprintf("%s: %s", engine.FuncName(fn), name), ci.Pos(), bad == "",
				"client socket I/O is performed with none of the shared locks held", "client socket I/O (can block as long as the client likes) is performed with "+bad+" held: other sessions stall")
		}
	}
	r.Min("R5-no-io-under-lock", 8)
	requestIsolationRule(r, p, "R6-request-isolation")
	// R7 one failed connection attempt does not end the service: in ConnectionListener the loop
	// returns only when its context is done, never because Accept reported an error
	if cl := p.Func("(*controlsvc.Server).ConnectionListener"); cl != nil {
		var acc *ssa.Call
		for _, ci := range engine.CallsIn(cl) {
			if ci.Common().IsInvoke() && ci.Common().Method.Name() == "Accept" {
				acc, _ = ci.(*ssa.Call)
			}
		}
		ok, why := acc != nil, "listener.Accept() not found"
		if ok {
			var errV ssa.Value
			for _, v := range callResult(acc, 1) {
				errV = v
			}
			_, failed := engine.NilCmpEdges(cl, func(v ssa.Value) bool { return engine.Unwrap(v) == errV })
			isAcc := func(in ssa.Instruction) bool { return in == ssa.Instruction(acc) }
			// ctx.Err() != nil edges may leave
			ctxDone := engine.EdgeSet{}
			for _, ci := range engine.CallsIn(cl) {
				if ci.Common().IsInvoke() && ci.Common().Method.Name() == "Err" {
					if c, isC := ci.(*ssa.Call); isC {
						_, nn := engine.NilCmpEdges(cl, func(v ssa.Value) bool { return engine.Unwrap(v) == ssa.Value(c) })
						ctxDone.Add(nn...)
					}
				}
			}
			if len(failed) == 0 {
				ok, why = false, "the error of Accept is not tested"
			}
			for _, e := range failed {
				if hit := reachFromEdge(cl, e, ctxDone, isAcc, func(in ssa.Instruction) bool { _, isR := in.(*ssa.Return); return isR }); hit != nil {
					ok, why = false, "after a failed Accept the accept loop can return although its context is not done: one aborted or malformed connection attempt (or a transient EMFILE) stops the control service on that listener for good"
				}
			}
		}
		r.Check("R7-accept-loop", "ConnectionListener: a failed Accept does not end the accept loop", cl.Pos(), ok,
			"from the Accept-failed edge, with the ctx.Err() != nil exits removed, no return is reachable before the next Accept", why)
	} else {
		r.Broken("ConnectionListener not found")
	}
}

func stripTemps(s string) string {
	// replace SSA temporaries t12 by _ so the construct key is stable under unrelated edits
	out := []byte{}
	for i := 0; i < len(s); i++ {
		if s[i] == 't' && i+1 < len(s) && s[i+1] >= '0' && s[i+1] <= '9' && (i == 0 || s[i-1] == ' ' || s[i-1] == '(') {
			j := i + 1
			for j < len(s) && s[j] >= '0' && s[j] <= '9' {
				j++
			}
			out = append(out, '_')
			i = j - 1
			continue
		}
		out = append(out, s[i])
	}
	return string(out)
}

// isClientIO: Read/Write on a net.Conn, io.Copy, or a ControlFuncOperations method.
func isClientIO(ci ssa.CallInstruction) bool {
	c := ci.Common()
	if c.IsInvoke() {
		recv := c.Value.Type().String()
		m := c.Method.Name()
		if recv == "net.Conn" && (m == "Read" || m == "Write") {
			return true
		}
		if strings.HasSuffix(recv, "controlsvc.ControlFuncOperations") && (m == "ReadFromConn" || m == "WriteToConn" || m == "BridgeConn") {
			return true
		}
		return false
	}
	return engine.IsCallTo(c, "io.Copy", "controlsvc.writeToConnWithLog", "(*controlsvc.SockControl).WriteMessage")
}

// errorReplyRules (R4): in RunControlSession every failure path answers with an ERROR line before
// the next request line is read.
func errorReplyRules(r *engine.Report, p *engine.Program, rcs *ssa.Function) {
	// classify writes
	var errWrites []ssa.Instruction
	nWrites := 0
	for _, ci := range callsTo(rcs, "controlsvc.writeToConnWithLog") {
		nWrites++
		parts, _ := stringParts(ci.Common().Args[2])
		if len(parts) > 0 && strings.HasPrefix(parts[0], "ERROR") {
			errWrites = append(errWrites, ci)
		}
	}
	r.Check("R4-error-reply", "RunControlSession: ERROR-prefixed replies", rcs.Pos(), len(errWrites) >= 4,
		fmt.Sprintf("%d of %d replies are built from a constant text/format starting with ERROR", len(errWrites), nWrites),
		fmt.Sprintf("only %d ERROR-prefixed replies found (expected: bad JSON, command error, marshal error, unknown command)", len(errWrites)))
	isErrWrite := func(in ssa.Instruction) bool { return isOneOf(in, errWrites) }
	// the next-line read
	var reads []ssa.Instruction
	for _, ci := range engine.CallsIn(rcs) {
		c := ci.Common()
		if c.IsInvoke() && c.Method.Name() == "Read" && c.Value.Type().String() == "net.Conn" {
			reads = append(reads, ci)
		}
	}
	if len(reads) == 0 {
		r.Add("R4-error-reply", "RunControlSession: request read", rcs.Pos(), engine.Violated, "the session loop's conn.Read was not found")
		return
	}
	silentAfter := func(e engine.Edge) ssa.Instruction {
		return reachFromEdge(rcs, e, nil, isErrWrite, func(in ssa.Instruction) bool {
			if isOneOf(in, reads) {
				return true
			}
			_, isRet := in.(*ssa.Return)
			return isRet
		})
	}
	// (a) unknown command: ct == nil
	ctType := p.NamedType("controlsvc", "ControlCommandType")
	isNilE, _ := engine.NilCmpEdges(rcs, func(v ssa.Value) bool { return ctType != nil && types.Identical(v.Type(), ctType) })
	okA := len(isNilE) > 0
	for _, e := range isNilE {
		if silentAfter(e) != nil {
			okA = false
		}
	}
	r.Check("R4-error-reply", "RunControlSession: unknown command", rcs.Pos(), okA,
		"when no command type matches, every path to the next read or to a return passes through an ERROR reply",
		"an unknown command can be passed over without an ERROR reply")
	// (b) failures of JSON decoding, command parsing, the command itself and reply encoding:
	// starting at each failing call, and following only the non-nil edge of every test of a value
	// its error can flow into (merged err variables included), every path to the next read or to a
	// return passes through an ERROR reply.
	n := 0
	kinds := map[string]bool{}
	for _, ci := range engine.CallsIn(rcs) {
		call, ok := ci.(*ssa.Call)
		if !ok {
			continue
		}
		o := engine.CalleeObj(call.Common())
		if o == nil {
			continue
		}
		kind := o.Name()
		switch kind {
		case "Unmarshal", "InitFromString", "InitFromJSON", "ControlFunc", "Errorf", "Marshal":
		default:
			// a private helper of the session function that reports an error (e.g. an extracted request parser)
			callee := call.Common().StaticCallee()
			if callee == nil || !inPkg(callee, "controlsvc") || errIndex(call.Common().Signature()) < 0 ||
				privateHelperOf(p, callee, map[string]bool{"(*controlsvc.Server).RunControlSession": true}) == "" {
				continue
			}
			kind = "helper"
			for _, hc := range engine.CallsIn(callee) {
				if ho := engine.CalleeObj(hc.Common()); ho != nil && ho.Name() == "Unmarshal" {
					kind = "Unmarshal"
				}
			}
		}
		idx := errIndex(call.Common().Signature())
		if idx < 0 {
			continue
		}
		kinds[kind] = true
		flows := map[ssa.Value]bool{}
		var grow func(v ssa.Value)
		grow = func(v ssa.Value) {
			if flows[v] {
				return
			}
			flows[v] = true
			if refs := v.Referrers(); refs != nil {
				for _, rr := range *refs {
					switch x := rr.(type) {
					case *ssa.Phi:
						grow(x)
					case *ssa.MakeInterface:
						grow(x)
					case *ssa.ChangeInterface:
						grow(x)
					}
				}
			}
		}
		for _, v := range callResult(call, idx) {
			grow(v)
		}
		isNilE, _ := engine.NilCmpEdges(rcs, func(v ssa.Value) bool { return flows[v] })
		cut := engine.EdgeSet{}.Add(isNilE...)
		n++
		hit := engine.Reach(rcs, call, cut, isErrWrite, func(in ssa.Instruction) bool {
			if isOneOf(in, reads) {
				return true
			}
			_, isRet := in.(*ssa.Return)
			return isRet
		})
		r.Check("R4-error-reply", fmt.Sprintf("RunControlSession: failure of %s", o.Name()), call.Pos(), hit == nil && len(isNilE) > 0,
			"assuming this call fails, every path to the next read or to a return passes through an ERROR reply",
			"after this call fails a path reaches "+descInstr(p, hit)+" without an ERROR reply (or its error is never tested)")
	}
	allKinds := kinds["Unmarshal"] && kinds["InitFromString"] && kinds["InitFromJSON"] && kinds["ControlFunc"] && kinds["Marshal"]
	r.Check("R4-error-reply", "RunControlSession: failure sources found", rcs.Pos(), allKinds && n >= 5, fmt.Sprintf("%d failure sources examined, covering request decoding, InitFromString, InitFromJSON, ControlFunc and reply encoding", n), fmt.Sprintf("failure sources found: %d of kinds %v — expected request decoding (json.Unmarshal, directly or in a private helper), InitFromString, InitFromJSON, ControlFunc and reply encoding (Marshal)", n, kinds))
	// (c) the empty-line skip is the only way around the dispatch: the continue on len == 0
	// (d) command errors are formatted with "ERROR: %s\n"
}

// errSources names the calls whose error result can flow into v.
func errSources(v ssa.Value, seen map[ssa.Value]bool) []string {
	if seen[v] {
		return nil
	}
	seen[v] = true
	var out []string
	switch x := v.(type) {
	case *ssa.Phi:
		for _, e := range x.Edges {
			out = append(out, errSources(e, seen)...)
		}
	case *ssa.Extract:
		out = append(out, errSources(x.Tuple, seen)...)
	case *ssa.Call:
		if o := engine.CalleeObj(x.Common()); o != nil {
			out = append(out, o.Name())
		}
	}
	// dedupe
	m := map[string]bool{}
	var d []string
	for _, s := range out {
		if !m[s] {
			m[s] = true
			d = append(d, s)
		}
	}
	return d
}
