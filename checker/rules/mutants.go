package rules

import (
	"encoding/json"
	"fmt"
	"os"
	"os/exec"
	"path/filepath"
	"sort"
	"strings"
	"sync"

	"rcheck/engine"
)

// Mutant is one entry of the thorough-tier catalogue: a patch to ansible/receptor that breaks
// a property (a confirmed seeded change, the reverse of a fix commit, or a hand-written edit).
type Mutant struct {
	ID         string   `json:"id"`
	Properties []string `json:"properties"`
	Patch      string   `json:"patch"`   // relative to /verif
	Reverse    bool     `json:"reverse"` // apply with -R (fix commits)
	What       string   `json:"what"`
}

type mutantResult struct {
	ID     string `json:"id"`
	What   string `json:"what"`
	Status string `json:"status"` // detected | UNDETECTED | stale | error
	Rules  string `json:"rules,omitempty"`
}

// runMutants applies every catalogue entry of this property in memory (go/packages and go build
// overlays; nothing is written under /repo or /verif) and records whether the quick check fires.
// It never changes the verdict of the check itself.
func runMutants(r *engine.Report, prop, verif, repo string) {
	b, err := os.ReadFile(filepath.Join(verif, "mutants", "index.json"))
	if err != nil {
		r.Extra["mutants"] = "no catalogue: " + err.Error()
		return
	}
	var all []Mutant
	if err := json.Unmarshal(b, &all); err != nil {
		r.Extra["mutants"] = "bad catalogue: " + err.Error()
		return
	}
	var mine []Mutant
	for _, m := range all {
		for _, p := range m.Properties {
			if p == prop {
				mine = append(mine, m)
			}
		}
	}
	exe, _ := os.Executable()
	results := make([]mutantResult, len(mine))
	sem := make(chan struct{}, 6)
	var wg sync.WaitGroup
	for i, m := range mine {
		wg.Add(1)
		go func(i int, m Mutant) {
			defer wg.Done()
			sem <- struct{}{}
			defer func() { <-sem }()
			results[i] = runOneMutant(exe, prop, verif, repo, m)
		}(i, m)
	}
	wg.Wait()
	counts := map[string]int{}
	for _, x := range results {
		counts[x.Status]++
	}
	sort.Slice(results, func(i, j int) bool { return results[i].ID < results[j].ID })
	r.Extra["mutants"] = map[string]interface{}{
		"applied":    len(mine) - counts["stale"],
		"detected":   counts["detected"],
		"undetected": counts["UNDETECTED"],
		"stale":      counts["stale"],
		"error":      counts["error"],
		"results":    results,
		"note":       "each mutant is a patch that breaks this property while compiling and passing the existing tests (confirmed seeded changes, reverted fix commits, hand-written edits); applied through overlays only; informational — the verdict above is about the tree as it is",
	}
	fmt.Printf("mutation catalogue for %s: %d applied, %d detected, %d undetected, %d stale, %d error\n", prop, len(mine)-counts["stale"], counts["detected"], counts["UNDETECTED"], counts["stale"], counts["error"])
	for _, x := range results {
		if x.Status != "detected" {
			fmt.Printf("  mutant %s: %s\n", x.ID, x.Status)
		}
	}
}

func runOneMutant(exe, prop, verif, repo string, m Mutant) mutantResult {
	res := mutantResult{ID: m.ID, What: m.What}
	tmp, err := os.MkdirTemp("", "rcheck-mutant-")
	if err != nil {
		res.Status = "error"
		return res
	}
	defer os.RemoveAll(tmp)
	patch := filepath.Join(verif, m.Patch)
	pb, err := os.ReadFile(patch)
	if err != nil {
		res.Status = "stale"
		return res
	}
	// files touched
	var files []string
	for _, line := range strings.Split(string(pb), "\n") {
		if strings.HasPrefix(line, "+++ b/") {
			files = append(files, strings.TrimPrefix(line, "+++ b/"))
		}
	}
	src := filepath.Join(tmp, "src")
	for _, f := range files {
		if strings.HasSuffix(f, "_test.go") {
			continue
		}
		c, err := os.ReadFile(filepath.Join(repo, f))
		if err != nil {
			res.Status = "stale"
			return res
		}
		_ = os.MkdirAll(filepath.Dir(filepath.Join(src, f)), 0o755)
		_ = os.WriteFile(filepath.Join(src, f), c, 0o644)
	}
	args := []string{"apply", "--whitespace=nowarn"}
	if m.Reverse {
		args = append(args, "-R")
	}
	// exclude test files that a fix commit may touch
	args = append(args, "--exclude=*_test.go", patch)
	cmd := exec.Command("git", args...)
	cmd.Dir = src
	if out, err := cmd.CombinedOutput(); err != nil {
		res.Status = "stale"
		res.Rules = strings.TrimSpace(string(out))
		if len(res.Rules) > 200 {
			res.Rules = res.Rules[:200]
		}
		return res
	}
	ov := map[string]map[string]string{"Replace": {}}
	for _, f := range files {
		if strings.HasSuffix(f, "_test.go") {
			continue
		}
		ov["Replace"][filepath.Join(repo, f)] = filepath.Join(src, f)
	}
	ovb, _ := json.Marshal(ov)
	ovPath := filepath.Join(tmp, "overlay.json")
	_ = os.WriteFile(ovPath, ovb, 0o644)
	c2 := exec.Command(exe, "-property", prop, "-tier", "quick", "-repo", repo, "-verif", verif, "-overlay", ovPath, "-evidence-dir", filepath.Join(tmp, "ev"))
	out, err := c2.CombinedOutput()
	code := 0
	if ee, ok := err.(*exec.ExitError); ok {
		code = ee.ExitCode()
	} else if err != nil {
		code = 2
	}
	switch code {
	case 0:
		res.Status = "UNDETECTED"
	case 1:
		res.Status = "detected"
		rules := map[string]bool{}
		for _, line := range strings.Split(string(out), "\n") {
			if strings.HasPrefix(line, "VIOLATED rule=") || strings.HasPrefix(line, "UNDECIDED rule=") {
				f := strings.Fields(line)
				if len(f) > 1 {
					rules[strings.TrimPrefix(f[1], "rule=")] = true
				}
			}
		}
		var rs []string
		for k := range rules {
			rs = append(rs, k)
		}
		sort.Strings(rs)
		res.Rules = strings.Join(rs, ",")
	default:
		res.Status = "error"
		s := strings.TrimSpace(string(out))
		if len(s) > 300 {
			s = s[len(s)-300:]
		}
		res.Rules = s
	}
	return res
}

// TryPatch applies a patch through overlays and runs the quick check of every listed property
// (development / evaluation helper: `rcheck -try-patch p.diff [-props C01,C02]`).
func TryPatch(patch string, reverse bool, props []string, verif, repo string) int {
	exe, _ := os.Executable()
	if len(props) == 0 {
		for k := range registry {
			props = append(props, k)
		}
		sort.Strings(props)
	}
	abs, _ := filepath.Abs(patch)
	rel, err := filepath.Rel(verif, abs)
	if err != nil || strings.HasPrefix(rel, "..") {
		// copy into a temp location under the system temp dir and reference it absolutely
		rel = abs
	}
	// one subprocess, one load, all requested properties
	m := Mutant{ID: filepath.Base(patch), Patch: rel, Reverse: reverse}
	if rr, err := filepath.Rel(verif, abs); err == nil && !strings.HasPrefix(rr, "..") {
		m.Patch = rr
	} else {
		m.Patch = abs
	}
	results := runManyOnMutant(exe, props, verif, repo, m, abs)
	any := 0
	for _, pr := range props {
		res, ok := results[pr]
		if !ok {
			fmt.Printf("%s error (no result)\n", pr)
			any++
			continue
		}
		if res.Status != "UNDETECTED" {
			fmt.Printf("%s %s %s\n", pr, res.Status, res.Rules)
			any++
		}
	}
	if any == 0 {
		fmt.Println("all quiet")
	}
	return 0
}

func runOneMutantAbs(exe, prop, verif, repo string, m Mutant) mutantResult {
	if filepath.IsAbs(m.Patch) {
		// runOneMutant joins verif + Patch; make Patch relative through a symlink-free trick
		rel, err := filepath.Rel(verif, m.Patch)
		if err == nil {
			m.Patch = rel
		}
	}
	return runOneMutant(exe, prop, verif, repo, m)
}

// runManyOnMutant applies the patch through overlays and runs the given properties in one process.
func runManyOnMutant(exe string, props []string, verif, repo string, m Mutant, absPatch string) map[string]mutantResult {
	out := map[string]mutantResult{}
	tmp, err := os.MkdirTemp("", "rcheck-mutant-")
	if err != nil {
		return out
	}
	defer os.RemoveAll(tmp)
	pb, err := os.ReadFile(absPatch)
	if err != nil {
		return out
	}
	var files []string
	for _, line := range strings.Split(string(pb), "\n") {
		if strings.HasPrefix(line, "+++ b/") {
			files = append(files, strings.TrimPrefix(line, "+++ b/"))
		}
	}
	src := filepath.Join(tmp, "src")
	for _, f := range files {
		if strings.HasSuffix(f, "_test.go") {
			continue
		}
		c, err := os.ReadFile(filepath.Join(repo, f))
		if err != nil {
			return out
		}
		_ = os.MkdirAll(filepath.Dir(filepath.Join(src, f)), 0o755)
		_ = os.WriteFile(filepath.Join(src, f), c, 0o644)
	}
	args := []string{"apply", "--whitespace=nowarn"}
	if m.Reverse {
		args = append(args, "-R")
	}
	args = append(args, "--exclude=*_test.go", absPatch)
	cmd := exec.Command("git", args...)
	cmd.Dir = src
	if o, err := cmd.CombinedOutput(); err != nil {
		for _, pr := range props {
			out[pr] = mutantResult{Status: "stale", Rules: strings.TrimSpace(string(o))}
		}
		return out
	}
	ov := map[string]map[string]string{"Replace": {}}
	for _, f := range files {
		if strings.HasSuffix(f, "_test.go") {
			continue
		}
		ov["Replace"][filepath.Join(repo, f)] = filepath.Join(src, f)
	}
	ovb, _ := json.Marshal(ov)
	ovPath := filepath.Join(tmp, "overlay.json")
	_ = os.WriteFile(ovPath, ovb, 0o644)
	c2 := exec.Command(exe, "-property", strings.Join(props, ",")+",", "-tier", "quick", "-repo", repo, "-verif", verif, "-overlay", ovPath, "-evidence-dir", filepath.Join(tmp, "ev"))
	o, _ := c2.CombinedOutput()
	// split the output per property at the "== Cnn exit=N" trailer lines
	var buf []string
	for _, line := range strings.Split(string(o), "\n") {
		if strings.HasPrefix(line, "== ") && strings.Contains(line, " exit=") {
			f := strings.Fields(line)
			prop := f[1]
			code := strings.TrimPrefix(f[2], "exit=")
			res := mutantResult{}
			switch code {
			case "0":
				res.Status = "UNDETECTED"
			case "1":
				res.Status = "detected"
				rules := map[string]bool{}
				for _, l := range buf {
					if strings.HasPrefix(l, "VIOLATED rule=") || strings.HasPrefix(l, "UNDECIDED rule=") {
						ff := strings.Fields(l)
						if len(ff) > 1 {
							rules[strings.TrimPrefix(ff[1], "rule=")] = true
						}
					}
				}
				var rs []string
				for k := range rules {
					rs = append(rs, k)
				}
				sort.Strings(rs)
				res.Rules = strings.Join(rs, ",")
			default:
				res.Status = "error"
				t := strings.Join(buf, " | ")
				if len(t) > 300 {
					t = t[len(t)-300:]
				}
				res.Rules = t
			}
			out[prop] = res
			buf = nil
			continue
		}
		buf = append(buf, line)
	}
	if len(out) == 0 {
		t := strings.TrimSpace(string(o))
		if len(t) > 300 {
			t = t[len(t)-300:]
		}
		for _, pr := range props {
			out[pr] = mutantResult{Status: "error", Rules: t}
		}
	}
	return out
}
