package rules

import (
	"fmt"
	"go/token"
	"sort"
	"strings"

	"golang.org/x/tools/go/ssa"

	"rcheck/engine"
)

func init() { register("C19", c19) }

// secretTest finds in fn the calls strings.HasPrefix(strings.ToLower(k), "secret_") where k is the
// key of a range over a RemoteParams-like map; returns the HasPrefix calls and the ranged maps.
type secretScan struct {
	call   *ssa.Call
	ranged ssa.Value // the map ranged over
	key    ssa.Value
}

func secretScans(fn *ssa.Function) []secretScan {
	var out []secretScan
	for _, ci := range callsTo(fn, "strings.HasPrefix") {
		call, ok := ci.(*ssa.Call)
		if !ok {
			continue
		}
		if s, isS := engine.ConstString(call.Common().Args[1]); !isS || s != "secret_" {
			continue
		}
		low, ok := call.Common().Args[0].(*ssa.Call)
		if !ok || !engine.IsCallTo(low.Common(), "strings.ToLower") {
			continue
		}
		k := low.Common().Args[0]
		sc := secretScan{call: call, key: k}
		if e, isE := k.(*ssa.Extract); isE && e.Index == 1 {
			if nx, isN := e.Tuple.(*ssa.Next); isN {
				if rg, isR := nx.Iter.(*ssa.Range); isR {
					sc.ranged = rg.X
				}
			}
		}
		out = append(out, sc)
	}
	return out
}

func c19(r *engine.Report, p *engine.Program) {
	r.Explanation = "Decides that every API-facing status goes through the redacting accessor (who-may-call table for UnredactedStatus; the unit-status API functions call Status()); that remoteUnit.Status re-scans the parameter names on every call with the same normaliser as the admission test (ToLower + HasPrefix \"secret_\") and deletes the matching keys from the deep copy made by UnredactedStatus, never from the stored record; that the kubernetes unit clears its secret-bearing fields; that in AllocateRemoteUnit any parameter name matching the test leads — when no TLS client profile is named — to a refusal before the unit is allocated or anything is written. It does not decide what the remote node echoes, non-prefix secrets or disk contents."
	r.NotDecided = []string{"values echoed by the remote node", "secrets not marked by the prefix", "contents of the status file on disk"}
	r.Assumptions = []string{"strings.ToLower/HasPrefix semantics", "json encoding of the status map reflects exactly the map's keys"}
	aru := p.Func("(*workceptor.Workceptor).AllocateRemoteUnit")
	rst := p.Func("(*workceptor.remoteUnit).Status")
	rus := p.Func("(*workceptor.remoteUnit).UnredactedStatus")
	kst := p.Func("(*workceptor.KubeUnit).Status")
	usf := p.Func("(*workceptor.Workceptor).UnitStatus")
	if aru == nil || rst == nil || rus == nil || kst == nil || usf == nil {
		r.Broken("C19 anchors not found")
		return
	}
	rp := p.Field("workceptor", "RemoteExtraData", "RemoteParams")

	// R1 who may call UnredactedStatus
	allowed := map[string]string{
		"(*workceptor.BaseWorkUnit).Status":           "base Status (no extra data is copied by getStatus)",
		"(*workceptor.commandUnit).Status":            "command units carry no secret-bearing fields (Pid, Params of the local command)",
		"(*workceptor.remoteUnit).Status":             "the redacting accessor itself",
		"(*workceptor.KubeUnit).Status":               "the redacting accessor itself",
		"(*workceptor.remoteUnit).startRemoteUnit":    "the sender of the submission needs the secrets (over TLS, see R3)",
		"(*workceptor.KubeUnit).createPod":            "kubernetes worker internals",
		"(*workceptor.KubeUnit).connectUsingKubeconfig": "kubernetes worker internals",
		"(*workceptor.commandUnit).UnredactedStatus":  "implementation",
		"(*workceptor.remoteUnit).UnredactedStatus":   "implementation",
		"(*workceptor.KubeUnit).UnredactedStatus":     "implementation",
	}
	var callers []string
	p.AllInstrs(func(fn *ssa.Function, in ssa.Instruction) {
		if engine.IsMock(fn) {
			return
		}
		if ci, ok := in.(ssa.CallInstruction); ok {
			if o := engine.CalleeObj(ci.Common()); o != nil && o.Name() == "UnredactedStatus" {
				callers = append(callers, engine.FuncName(engine.Outermost(fn)))
			}
		}
	})
	sort.Strings(callers)
	var extra []string
	for _, c := range callers {
		if _, ok := allowed[c]; !ok {
			extra = append(extra, c)
		}
	}
	r.Check("R1-who-may-unredacted", "UnredactedStatus: callers", rus.Pos(), len(extra) == 0 && len(callers) >= 6,
		fmt.Sprintf("%d call sites, all within the frozen table (Status methods, the remote submitter, kubernetes internals)", len(callers)), fmt.Sprintf("UnredactedStatus is called from %v, outside the frozen table: secrets can reach an API response or a log", extra))
	// the API path uses Status()
	usesStatus := false
	for _, ci := range engine.CallsIn(usf) {
		if ci.Common().IsInvoke() && ci.Common().Method.Name() == "Status" {
			usesStatus = true
		}
		if ci.Common().IsInvoke() && (ci.Common().Method.Name() == "UnredactedStatus" || ci.Common().Method.Name() == "GetStatusCopy") {
			usesStatus = false
		}
	}
	r.Check("R1-who-may-unredacted", "Workceptor.UnitStatus returns unit.Status()", usf.Pos(), usesStatus, "the status/list API is fed by the redacting Status()", "the status/list API no longer goes through Status()")
	// GetStatusCopy outside accessors (raw record incl. secrets)
	okRaw := map[string]bool{"(*workceptor.commandUnit).SetFromParams": true, "(*workceptor.commandUnit).UnredactedStatus": true, "(*workceptor.remoteUnit).SetFromParams": true,
		"(*workceptor.remoteUnit).UnredactedStatus": true, "(*workceptor.KubeUnit).UnredactedStatus": true, "(*workceptor.KubeUnit).SetFromParams": true}
	var rawBad []string
	p.AllInstrs(func(fn *ssa.Function, in ssa.Instruction) {
		if engine.IsMock(fn) {
			return
		}
		if ci, ok := in.(ssa.CallInstruction); ok {
			if o := engine.CalleeObj(ci.Common()); o != nil && o.Name() == "GetStatusCopy" && !okRaw[engine.FuncName(engine.Outermost(fn))] {
				rawBad = append(rawBad, engine.FuncName(engine.Outermost(fn)))
			}
		}
	})
	r.Check("R1-who-may-unredacted", "GetStatusCopy (raw record): callers", token.NoPos, len(rawBad) == 0, "the raw in-memory record is read only by SetFromParams and the UnredactedStatus implementations", fmt.Sprintf("the raw record is read in %v", rawBad))

	// R2 redaction in remoteUnit.Status
	{
		scans := secretScans(rst)
		var unred *ssa.Call
		for _, ci := range engine.CallsIn(rst) {
			if o := engine.CalleeObj(ci.Common()); o != nil && o.Name() == "UnredactedStatus" {
				unred, _ = ci.(*ssa.Call)
			}
		}
		fromCopy := func(v ssa.Value) bool {
			// v = load of RemoteParams of (typeassert of (load ExtraData of unred result))
			f, base := engine.FieldOfLoad(v)
			if f != rp {
				return false
			}
			for i := 0; i < 6 && base != nil; i++ {
				switch x := engine.Unwrap(base).(type) {
				case *ssa.Extract:
					base = x.Tuple
				case *ssa.TypeAssert:
					base = x.X
				case *ssa.UnOp:
					if ff, b2 := engine.FieldOfLoad(x); ff != nil && ff.Name() == "ExtraData" {
						base = b2
					} else {
						return false
					}
				case *ssa.Call:
					return unred != nil && x == unred
				default:
					return false
				}
			}
			return false
		}
		ok := len(scans) == 1 && unred != nil
		why := "remoteUnit.Status does not scan the parameter names with ToLower+HasPrefix(\"secret_\") on every call"
		if ok {
			sc := scans[0]
			if !fromCopy(sc.ranged) {
				ok = false
				why = "the names scanned are not the RemoteParams of the copy returned by UnredactedStatus()"
			}
			// deletes on the copy's map
			nDel := 0
			for _, ci := range engine.CallsIn(rst) {
				if b, isB := ci.Common().Value.(*ssa.Builtin); isB && b.Name() == "delete" {
					nDel++
					if !fromCopy(ci.Common().Args[0]) {
						ok = false
						why = "delete() targets a map other than the copy's RemoteParams (the stored record would lose the secrets, or nothing is redacted)"
					}
				}
			}
			if nDel == 0 {
				ok = false
				why = "no key is deleted"
			}
			// the key reaches the delete only/always from the HasPrefix-true edge: the true edge must lead to
			// an append of k (or a direct delete of k); the false edge must not
			tE, fE := engine.CondEdges(rst, func(c ssa.Value) (bool, bool) { return c == ssa.Value(sc.call), true })
			marks := func(in ssa.Instruction) bool {
				ci, isC := in.(ssa.CallInstruction)
				if !isC {
					return false
				}
				b, isB := ci.Common().Value.(*ssa.Builtin)
				if !isB {
					return false
				}
				return b.Name() == "append" || b.Name() == "delete"
			}
			for _, e := range tE {
				// the first instruction block after the true edge must contain a mark using k
				found := false
				for _, in := range e.To().Instrs {
					if marks(in) {
						found = true
					}
				}
				if !found {
					ok = false
					why = "a name matching the secret test is not marked for deletion"
				}
			}
			if len(tE) == 0 || len(fE) == 0 {
				ok = false
				why = "the result of the secret test does not decide a branch"
			}
			// unconditional: whenever the record carries remote extra data (the type assertion
			// succeeded) the scan runs — no other condition (TLS profile set, state, ...) may skip it
			if ok {
				var rng ssa.Instruction
				if ri, isI := sc.ranged.(ssa.Instruction); isI {
					_ = ri
				}
				for _, b := range rst.Blocks {
					for _, in := range b.Instrs {
						if rg, isR := in.(*ssa.Range); isR && rg.X == sc.ranged {
							rng = in
						}
					}
				}
				var notOK []engine.Edge
				for _, b := range rst.Blocks {
					for _, in := range b.Instrs {
						if ta, isTA := in.(*ssa.TypeAssert); isTA && ta.CommaOk {
							_, f := engine.CondEdges(rst, func(c ssa.Value) (bool, bool) {
								e, isE := c.(*ssa.Extract)
								return isE && e.Tuple == ssa.Value(ta) && e.Index == 1, true
							})
							notOK = append(notOK, f...)
						}
					}
				}
				if rng != nil {
					cut := engine.EdgeSet{}.Add(notOK...)
					if skip := engine.Reach(rst, nil, cut, func(in ssa.Instruction) bool { return in == rng }, func(in ssa.Instruction) bool { _, isRet := in.(*ssa.Return); return isRet }); skip != nil {
						ok = false
						why = "a return is reachable without scanning the parameter names although the record carries remote parameters (the scan is skipped under some other condition)"
					}
				}
			}
		}
		r.Check("R2-redaction", "remoteUnit.Status: secret_* keys deleted from the copy on every call", rst.Pos(), ok,
			"Status() ranges over the copy's RemoteParams, tests ToLower(k) for the prefix \"secret_\", and deletes the matching keys from that same copy", why+" — secret values appear in status/list responses (e.g. after the unit was re-created from disk at restart)")
		// deep copy in UnredactedStatus
		deep := false
		for _, b := range rus.Blocks {
			for _, in := range b.Instrs {
				if st, isS := in.(*ssa.Store); isS {
					if fa, isF := st.Addr.(*ssa.FieldAddr); isF && engine.FieldAddrVar(fa) == rp {
						if _, isMk := st.Val.(*ssa.MakeMap); isMk && engine.IsFreshAlloc(fa.X) {
							deep = true
						}
					}
				}
			}
		}
		r.Check("R2-redaction", "remoteUnit.UnredactedStatus: RemoteParams is deep-copied", rus.Pos(), deep,
			"the returned ExtraData holds a freshly made RemoteParams map, so redaction cannot touch the stored record", "UnredactedStatus shares the stored RemoteParams map with its result: Status() would delete the secrets from the live record (or redaction is skipped to avoid that)")
	}
	// R5 sibling: kubernetes
	{
		cleared := map[string]bool{}
		for _, b := range kst.Blocks {
			for _, in := range b.Instrs {
				if st, isS := in.(*ssa.Store); isS {
					if fa, isF := st.Addr.(*ssa.FieldAddr); isF {
						if s, isC := engine.ConstString(st.Val); isC && s == "" {
							cleared[engine.FieldAddrVar(fa).Name()] = true
						}
					}
				}
			}
		}
		r.Check("R5-siblings", "KubeUnit.Status clears KubeConfig and KubePod", kst.Pos(), cleared["KubeConfig"] && cleared["KubePod"],
			"the kubernetes unit blanks its secret-bearing fields in the API-facing status", "KubeUnit.Status no longer blanks KubeConfig/KubePod")
	}

	// R3 refusal before storage
	{
		var alloc ssa.Instruction
		for _, ci := range callsTo(aru, "(*workceptor.Workceptor).AllocateUnit") {
			alloc = ci
		}
		// the name test: inline in AllocateRemoteUnit, or in a bool helper it calls with params
		var tE []engine.Edge
		var testInstr ssa.Instruction
		scannedParams := false
		nTests := 0
		why := "AllocateRemoteUnit no longer tests parameter names with ToLower+HasPrefix(\"secret_\") before allocating"
		if scans := secretScans(aru); len(scans) == 1 {
			nTests = 1
			sc := scans[0]
			testInstr = sc.call
			scannedParams = isParamValue(sc.ranged, aru.Params[6])
			tE, _ = engine.CondEdges(aru, func(c ssa.Value) (bool, bool) { return c == ssa.Value(sc.call), true })
		} else {
			for _, ci := range engine.CallsIn(aru) {
				call, isCall := ci.(*ssa.Call)
				callee := ci.Common().StaticCallee()
				if !isCall || callee == nil || !inPkg(callee, "workceptor") || callee.Signature.Results().Len() != 1 || callee.Signature.Results().At(0).Type().String() != "bool" {
					continue
				}
				hs := secretScans(callee)
				if len(hs) != 1 {
					continue
				}
				// helper correctness: true is returned only on the test's true edge, and always from it
				hT, _ := engine.CondEdges(callee, func(c ssa.Value) (bool, bool) { return c == ssa.Value(hs[0].call), true })
				okHelper := len(hT) > 0
				isTrueRet := func(in ssa.Instruction) bool {
					ret, isR := in.(*ssa.Return)
					if !isR {
						return false
					}
					k, isC := ret.Results[0].(*ssa.Const)
					return isC && k.Value != nil && k.Value.String() == "true"
				}
				isFalseRet := func(in ssa.Instruction) bool {
					ret, isR := in.(*ssa.Return)
					if !isR {
						return false
					}
					k, isC := ret.Results[0].(*ssa.Const)
					return !isC || k.Value == nil || k.Value.String() != "true"
				}
				if engine.Reach(callee, nil, engine.EdgeSet{}.Add(hT...), nil, isTrueRet) != nil {
					okHelper = false
				}
				for _, e := range hT {
					if reachFromEdge(callee, e, nil, nil, isFalseRet) != nil {
						okHelper = false
					}
				}
				// the scanned map is the helper's parameter that receives params
				pIdx := -1
				for i, prm := range callee.Params {
					if hs[0].ranged == ssa.Value(prm) {
						pIdx = i
					}
				}
				if !okHelper || pIdx < 0 {
					why = "the helper " + engine.FuncName(callee) + " does not return true exactly when some name matches the secret test"
					continue
				}
				nTests++
				testInstr = call
				scannedParams = isParamValue(call.Common().Args[pIdx], aru.Params[6])
				tE, _ = engine.CondEdges(aru, func(c ssa.Value) (bool, bool) { return c == ssa.Value(call), true })
			}
		}
		ok := nTests == 1 && alloc != nil
		if ok {
			if !scannedParams {
				ok = false
				why = "the names tested are not the submitted params"
			}
			tlsClient := aru.Params[3]
			_, tlsSet := strEqEdges(aru, func(v ssa.Value) bool { return isParamValue(v, tlsClient) }, "")
			if len(tE) == 0 {
				ok = false
				why = "the result of the secret test does not decide a branch: whether the submission is refused depends on which parameter name happens to be visited last"
			}
			cut := engine.EdgeSet{}.Add(tlsSet...)
			isWrite := func(in ssa.Instruction) bool {
				if in == alloc {
					return true
				}
				ci, isC := in.(ssa.CallInstruction)
				return isC && (isMethodCall(ci, "UpdateFullStatus", "workceptor") || isMethodCall(ci, "Save", "workceptor"))
			}
			for _, e := range tE {
				if hit := reachFromEdge(aru, e, cut, nil, isWrite); hit != nil {
					ok = false
					why = "after a parameter name matched the secret test and with no TLS client profile, a path still reaches " + descInstr(p, hit)
				}
			}
			if len(tlsSet) == 0 {
				ok = false
				why = "tlsClient is not tested against the empty string"
			}
			// the test precedes the allocation on every path that can run it: the allocation is not
			// reachable from entry without passing the range/helper call (an empty params map skips the loop body,
			// so the barrier is the Range instruction or the helper call)
			var gate ssa.Instruction = testInstr
			for _, b := range aru.Blocks {
				for _, in := range b.Instrs {
					if x, isR := in.(*ssa.Range); isR && isParamValue(x.X, aru.Params[6]) {
						gate = x
					}
				}
			}
			if engine.Reach(aru, nil, nil, func(in ssa.Instruction) bool { return in == gate }, func(in ssa.Instruction) bool { return in == alloc }) != nil {
				ok = false
				why = "the unit can be allocated before the parameter names were scanned"
			}
		}
		r.Check("R3-refusal-first", "AllocateRemoteUnit: secret parameter without TLS is refused before anything is stored", aru.Pos(), ok,
			"from the edge on which a name matches, assuming tlsClient == \"\", neither AllocateUnit nor any status write is reachable; the scan precedes the allocation", why)
		// same normaliser on both sides (P9)
		both := nTests == 1 && len(secretScans(rst)) == 1
		r.Check("R2-redaction", "admission test and redaction use the same normaliser", aru.Pos(), both, "both sides use strings.HasPrefix(strings.ToLower(name), \"secret_\")", "admission and redaction no longer use the same name test")
	}
	// R2c the redacting accessor keeps nothing on the unit: Status() is called concurrently for one
	// unit (every control session, the monitors), so any scratch state on the receiver is a race
	// in the scan-then-delete step
	{
		var bad []string
		recv := rst.Params[0]
		for _, b := range rst.Blocks {
			for _, in := range b.Instrs {
				st, isS := in.(*ssa.Store)
				if !isS {
					continue
				}
				// address rooted at the receiver?
				a := st.Addr
				for i := 0; i < 8; i++ {
					switch x := a.(type) {
					case *ssa.FieldAddr:
						a = x.X
						continue
					case *ssa.IndexAddr:
						a = x.X
						continue
					case *ssa.UnOp:
						a = x.X
						continue
					}
					break
				}
				if a == ssa.Value(recv) {
					bad = append(bad, p.Pos(st.Pos()))
				}
			}
		}
		r.Check("R2-redaction", "remoteUnit.Status: writes no field of the unit (safe under concurrent callers)", rst.Pos(), len(bad) == 0,
			"every store in Status() goes to locals or to the private copy returned by UnredactedStatus()", fmt.Sprintf("Status() stores into the unit itself at %v: two overlapping status requests share that state, one can delete an empty or partial key list and return the secrets", bad))
	}
	// R1b every status the API hands out is the value returned by unit.Status()
	{
		var statusCalls []ssa.Value
		for _, ci := range engine.CallsIn(usf) {
			if ci.Common().IsInvoke() && ci.Common().Method.Name() == "Status" {
				if v := ci.Value(); v != nil {
					statusCalls = append(statusCalls, v)
				}
			}
		}
		ok := len(statusCalls) > 0
		var bad ssa.Instruction
		for _, ret := range engine.Returns(usf) {
			if len(ret.Results) == 0 {
				continue
			}
			res := engine.Unwrap(ret.Results[0])
			if engine.IsNilConst(res) {
				continue
			}
			from := false
			for _, c := range statusCalls {
				if res == c {
					from = true
				}
			}
			if ph, isPhi := res.(*ssa.Phi); isPhi {
				from = true
				for _, e := range ph.Edges {
					okE := engine.IsNilConst(e)
					for _, c := range statusCalls {
						if engine.Unwrap(e) == c {
							okE = true
						}
					}
					if !okE {
						from = false
					}
				}
			}
			if !from {
				ok = false
				bad = ret
			}
		}
		r.Check("R1-who-may-unredacted", "Workceptor.UnitStatus: every non-nil result is the value of unit.Status()", usf.Pos(), ok,
			"the status/list API cannot return a record that did not pass through the unit's redacting accessor", "UnitStatus can return a record obtained some other way ("+descInstr(p, bad)+"), e.g. loaded from the status file, which stores the parameters unredacted")
	}
	// R6 the unredacted values leave the submitter only over its connection
	if sru := p.Func("(*workceptor.remoteUnit).startRemoteUnit"); sru != nil && len(sru.Params) >= 3 {
		leaks, nSrc, nSink := secretFlow(p, sru, rp, sru.Params[2])
		r.Check("R6-secret-sinks", "startRemoteUnit: parameter values of the unredacted record flow only into the submission written to conn", sru.Pos(),
			len(leaks) == 0 && nSrc > 0 && nSink > 0,
			fmt.Sprintf("%d unredacted source(s); the values reach %d Write call(s) on the connection parameter through the local command map and json.Marshal, and nothing else (no error text, log line, status field, return value)", nSrc, nSink),
			fmt.Sprintf("%d source(s), %d permitted sink(s); leaks: %s — secret values end up in an error message / status detail / log", nSrc, nSink, strings.Join(leaks, "; ")))
	} else {
		r.Broken("startRemoteUnit not found")
	}
	// R4 who ranges over RemoteParams
	okRange := map[string]bool{"(*workceptor.remoteUnit).startRemoteUnit": true, "(*workceptor.remoteUnit).UnredactedStatus": true, "(*workceptor.remoteUnit).Status": true, "(*workceptor.remoteUnit).SetFromParams": true}
	var rangers, badRangers []string
	for _, a := range p.FieldAccesses(rp) {
		if engine.IsMock(a.Fn) {
			continue
		}
		n := engine.FuncName(engine.Outermost(a.Fn))
		if a.Kind == engine.AccRange || a.Kind == engine.AccMapLookup {
			rangers = append(rangers, n)
			if !okRange[n] && privateHelperOf(p, engine.Outermost(a.Fn), okRange) == "" {
				badRangers = append(badRangers, n)
			}
		}
	}
	r.Check("R4-param-readers", "RemoteExtraData.RemoteParams: functions reading the values", token.NoPos, len(badRangers) == 0 && len(rangers) >= 3,
		"parameter values are read only by the submitter, the copy loop, the redactor and SetFromParams", fmt.Sprintf("parameter values (incl. secrets) are read in %v", badRangers))
	_ = strings.Join
}
