package rules

import (
	"fmt"

	"rcheck/engine"
)

func init() { register("probe", probe) }

func probe(r *engine.Report, p *engine.Program) {
	fn := p.Func("(*workceptor.commandUnit).UnredactedStatus")
	for _, ci := range engine.CallsIn(fn) {
		fmt.Println(ci.String())
		if op, ok := p.LockOpOf(ci); ok {
			fmt.Println("   lockop", op.Path.String())
		}
		if ci.Common().IsInvoke() {
			for _, im := range p.ImplsOfMethod(ci.Common().Method) {
				fmt.Println("   impl", engine.FuncName(im), len(im.Blocks))
			}
		}
	}
}
