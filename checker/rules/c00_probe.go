package rules

import (
	"fmt"

	"golang.org/x/tools/go/ssa"

	"rcheck/engine"
)

func init() { register("probe", probe) }

func probe(r *engine.Report, p *engine.Program) {
	wc := wireCone(r, p)
	fmt.Println("wire cone", len(wc.Fns))
	for _, f := range wc.Sorted() {
		fmt.Println("  W", engine.FuncName(f))
	}
	cc := controlCone(r, p)
	fmt.Println("control cone", len(cc.Fns))
	for _, f := range cc.Sorted() {
		if !wc.Fns[f] {
			fmt.Println("  C", engine.FuncName(f))
		}
	}
	for _, c := range []*engine.Cone{wc, cc} {
		for _, f := range c.Sorted() {
			for _, b := range f.Blocks {
				for _, in := range b.Instrs {
					switch x := in.(type) {
					case *ssa.TypeAssert:
						if !x.CommaOk {
							fmt.Println("TA", engine.FuncName(f), p.Pos(x.Pos()), x.String())
						}
					case *ssa.Panic:
						fmt.Println("PANIC", engine.FuncName(f), p.Pos(x.Pos()))
					}
				}
			}
		}
	}
}
