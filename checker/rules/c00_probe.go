package rules

import (
	"fmt"
	"go/token"
	"go/types"

	"golang.org/x/tools/go/ssa"

	"rcheck/engine"
)

func init() { register("probe", probe) }

func probe(r *engine.Report, p *engine.Program) {
	for _, fn := range p.Funcs() {
		if !inPkg(fn, "netceptor", "utils") || engine.IsMock(fn) {
			continue
		}
		for _, ci := range engine.CallsIn(fn) {
			g, ok := ci.(*ssa.Go)
			if !ok {
				continue
			}
			for _, callee := range p.Callees(g) {
				fmt.Printf("GO in %s -> %s\n", engine.FuncName(fn), engine.FuncName(callee))
				for _, b := range callee.Blocks {
					for _, in := range b.Instrs {
						switch x := in.(type) {
						case *ssa.Send:
							fmt.Printf("    SEND %s  %s\n", p.Pos(x.Pos()), chanDesc(x.Chan))
						case *ssa.UnOp:
							if x.Op == token.ARROW {
								fmt.Printf("    RECV %s  %s\n", p.Pos(x.Pos()), chanDesc2(x.X))
							}
						case *ssa.Select:
							s := ""
							for _, st := range x.States {
								d := "<-"
								if st.Dir == types.SendOnly {
									d = "->"
								}
								s += d + chanDesc2(st.Chan) + " "
							}
							fmt.Printf("    SELECT blocking=%v %s %s\n", x.Blocking, p.Pos(x.Pos()), s)
						case *ssa.Next:
							if _, isChan := x.Iter.Type().Underlying().(*types.Chan); isChan {
								fmt.Printf("    RANGECHAN %s\n", p.Pos(x.Pos()))
							}
						}
					}
				}
			}
		}
		for _, ci := range engine.CallsIn(fn) {
			if b, ok := ci.Common().Value.(*ssa.Builtin); ok && b.Name() == "close" {
				fmt.Printf("CLOSE in %s: %s once=%v\n", engine.FuncName(fn), chanDesc2(ci.Common().Args[0]), onlyOnceBody(fn))
			}
		}
	}
}

func chanDesc2(v ssa.Value) string {
	if f, _ := engine.FieldOfLoad(v); f != nil {
		return "field:" + f.Name()
	}
	switch x := v.(type) {
	case *ssa.Call:
		if o := engine.CalleeObj(x.Common()); o != nil {
			return "call:" + o.Name()
		}
	case *ssa.FreeVar:
		return "fv:" + x.Name()
	case *ssa.Parameter:
		return "param:" + x.Name()
	case *ssa.UnOp:
		return "load(" + chanDesc2(x.X) + ")"
	case *ssa.MakeChan:
		return "makechan"
	case *ssa.ChangeType:
		return chanDesc2(x.X)
	case *ssa.Extract:
		return "extract:" + chanDesc2(x.Tuple)
	}
	return v.Name() + ":" + fmt.Sprintf("%T", v)
}
