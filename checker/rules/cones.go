package rules

import (
	"strings"

	"golang.org/x/tools/go/ssa"

	"rcheck/engine"
)

// wireCone: everything that runs on bytes received from a backend peer.
func wireCone(r *engine.Report, p *engine.Program) *engine.Cone {
	var missing []string
	roots := p.MustFuncs(&missing,
		"(*netceptor.Netceptor).runProtocol",
		"(*netceptor.connInfo).protoReader",
		"(*backends.UDPListener).Start",
		"(*backends.WebsocketSession).recvChannelizer",
		"(*framer.framer).RecvData",
		"(*framer.framer).MessageReady",
		"(*framer.framer).GetMessage",
		"(*framer.framer).SendData",
	)
	for _, m := range missing {
		r.Broken("anchor function %s not found", m)
	}
	for _, f := range p.Implementations("netceptor", "BackendSession", "Recv") {
		if !engine.IsMock(f) {
			roots = append(roots, f)
			r.Anchor("BackendSession.Recv impl " + engine.FuncName(f))
		}
	}
	for _, f := range p.Implementations("netceptor", "MessageConn", "ReadMessage") {
		if !engine.IsMock(f) {
			roots = append(roots, f)
			r.Anchor("MessageConn.ReadMessage impl " + engine.FuncName(f))
		}
	}
	return p.Cone(roots)
}

// controlCone: everything that runs on bytes received from a control-service client.
func controlCone(r *engine.Report, p *engine.Program) *engine.Cone {
	var missing []string
	roots := p.MustFuncs(&missing,
		"(*controlsvc.Server).RunControlSession",
		"(*controlsvc.Server).SetupConnection",
	)
	for _, m := range missing {
		r.Broken("anchor function %s not found", m)
	}
	for _, mn := range []string{"InitFromString", "InitFromJSON"} {
		for _, f := range p.Implementations("controlsvc", "ControlCommandType", mn) {
			if !engine.IsMock(f) {
				roots = append(roots, f)
				r.Anchor("ControlCommandType." + mn + " impl " + engine.FuncName(f))
			}
		}
	}
	for _, f := range p.Implementations("controlsvc", "ControlCommand", "ControlFunc") {
		if !engine.IsMock(f) {
			roots = append(roots, f)
			r.Anchor("ControlCommand.ControlFunc impl " + engine.FuncName(f))
		}
	}
	return p.Cone(roots)
}

func inPkg(fn *ssa.Function, pkgs ...string) bool {
	n := engine.FuncName(engine.Outermost(fn))
	for _, pk := range pkgs {
		if strings.HasPrefix(n, pk+".") || strings.HasPrefix(n, "(*"+pk+".") || strings.HasPrefix(n, "("+pk+".") {
			return true
		}
	}
	return false
}
