package rules

import (
	"fmt"
	"strings"
	"go/types"

	"golang.org/x/tools/go/ssa"

	"rcheck/engine"
)

// callerHolds is the frozen table of functions that access a protected field without taking the
// lock themselves because every caller holds it: function name → reason.
type callerHolds map[string]string

// guardedBy (P6b): every access to field happens with lockField of the same object must-held
// (write mode for writes), or on a freshly allocated object, or in a caller-holds function all of
// whose call sites hold the lock.
func guardedBy(r *engine.Report, p *engine.Program, rule string, field, lockField *types.Var, ch callerHolds) {
	if field == nil || lockField == nil {
		r.Broken("%s: protected field or lock field not found", rule)
		return
	}
	for _, acc := range p.FieldAccesses(field) {
		if engine.IsMock(acc.Fn) {
			continue
		}
		if acc.Kind == engine.AccCall && field.Type().String() == lockField.Type().String() {
			continue
		}
		fn := acc.Fn
		base := p.PathOf(acc.Base)
		lockPath := base.With(lockField).String()
		held := p.Locks(fn).HeldAt(acc.Instr)
		mode, isHeld := held[lockPath]
		construct := fmt.Sprintf("%s: %s %s", engine.FuncName(fn), acc.Kind, field.Name())
		need := engine.LockR
		if acc.Write {
			need = engine.LockW
		}
		switch {
		case isHeld && mode >= need:
			r.Add(rule, construct, acc.Instr.Pos(), engine.Discharged, fmt.Sprintf("%s is must-held (%s) at the access", lockPath, modeName(mode)))
		case isHeld:
			r.Add(rule, construct, acc.Instr.Pos(), engine.Violated, fmt.Sprintf("write to %s with %s held only for reading", field.Name(), lockPath))
		case engine.IsFreshAlloc(acc.Base):
			r.Add(rule, construct, acc.Instr.Pos(), engine.Discharged, "the object is being constructed in this function and is not yet shared").Trivial = true
		default:
			if why, ok := ch[engine.FuncName(fn)]; ok {
				if strings.HasPrefix(why, "ctor:") {
					okc, detail := callersAreConstructors(p, fn)
					if okc {
						r.Add(rule, construct, acc.Instr.Pos(), engine.Discharged, "constructor-time function ("+why+"): "+detail).Trivial = true
					} else {
						r.Add(rule, construct, acc.Instr.Pos(), engine.Violated, "listed as constructor-time, but "+detail)
					}
					continue
				}
				if strings.HasPrefix(why, "accessor:") {
					r.Add(rule, construct, acc.Instr.Pos(), engine.Discharged, "lock-free accessor ("+why+"): every call site is checked separately by the accessor-sites rule").Trivial = true
					continue
				}
				if okc, detail := allCallersHold(p, fn, base, lockField, need, ch); okc {
					r.Add(rule, construct, acc.Instr.Pos(), engine.Discharged, "caller-holds table ("+why+"): "+detail)
				} else {
					r.Add(rule, construct, acc.Instr.Pos(), engine.Violated, "caller-holds table says callers hold "+lockField.Name()+", but "+detail)
				}
				continue
			}
			r.Add(rule, construct, acc.Instr.Pos(), engine.Violated,
				fmt.Sprintf("%s is accessed (%s) without %s must-held; held here: %s", field.Name(), acc.Kind, lockPath, held))
		}
	}
}

func modeName(m engine.LockMode) string {
	if m == engine.LockW {
		return "write"
	}
	return "read"
}

// allCallersHold: every call site of fn holds base.lockField (translated into the caller).
func allCallersHold(p *engine.Program, fn *ssa.Function, base engine.Path, lockField *types.Var, need engine.LockMode, ch callerHolds) (bool, string) {
	top := engine.Outermost(fn)
	obj, _ := top.Object().(*types.Func)
	if obj == nil {
		return false, "function object not found"
	}
	sites := p.CallSitesOf(obj)
	n := 0
	for _, cs := range sites {
		if engine.IsMock(cs.Parent()) {
			continue
		}
		if _, listed := ch[engine.FuncName(engine.Outermost(cs.Parent()))]; listed {
			n++
			continue // the caller is itself a caller-holds/accessor function, checked at its own call sites
		}
		lp, ok := p.Translate(base.With(lockField), top, cs)
		if !ok {
			return false, "cannot translate the lock path at " + p.Pos(cs.Pos())
		}
		h := p.Locks(cs.Parent()).HeldAt(cs)
		if m, held := h[lp.String()]; !held || m < need {
			return false, fmt.Sprintf("the call at %s (%s) does not hold %s", p.Pos(cs.Pos()), engine.FuncName(cs.Parent()), lp)
		}
		n++
	}
	if n == 0 {
		return false, "no call sites found"
	}
	return true, fmt.Sprintf("all %d call site(s) hold it", n)
}

// callersAreConstructors: every call (static or through an interface method of the same name) of
// fn in receptor code sits in a constructor-like function.
func callersAreConstructors(p *engine.Program, fn *ssa.Function) (bool, string) {
	name := fn.Name()
	n := 0
	bad := ""
	p.AllInstrs(func(f *ssa.Function, in ssa.Instruction) {
		if engine.IsMock(f) {
			return
		}
		ci, ok := in.(ssa.CallInstruction)
		if !ok {
			return
		}
		o := engine.CalleeObj(ci.Common())
		if o == nil || o.Name() != name || o.Pkg() == nil || o.Pkg() != fn.Pkg.Pkg {
			return
		}
		n++
		top := engine.FuncName(engine.Outermost(f))
		if !isConstructorLike(top) {
			bad = top
		}
	})
	if bad != "" {
		return false, "it is called from " + bad + ", which is not a constructor"
	}
	return true, fmt.Sprintf("all %d call site(s) are in constructors (the unit is not yet shared)", n)
}
