package rules

import (
	"fmt"
	"go/token"
	"go/types"
	"strings"

	"golang.org/x/tools/go/ssa"

	"rcheck/engine"
)

// closesValue: does fn (a closure) invoke Close on the captured value whose cell/binding is bd?
func closureClosesCaptured(fn *ssa.Function, fvIdx int) bool {
	if fvIdx >= len(fn.FreeVars) {
		return false
	}
	fv := fn.FreeVars[fvIdx]
	for _, ci := range engine.CallsIn(fn) {
		c := ci.Common()
		if c.IsInvoke() && c.Method.Name() == "Close" {
			if u, ok := c.Value.(*ssa.UnOp); ok && u.X == ssa.Value(fv) {
				return true
			}
			if c.Value == ssa.Value(fv) {
				return true
			}
		}
	}
	// nested closures (sync.Once body)
	for _, an := range fn.AnonFuncs {
		for _, b := range fn.Blocks {
			for _, in := range b.Instrs {
				if mc, ok := in.(*ssa.MakeClosure); ok && mc.Fn == ssa.Value(an) {
					for bi, bd := range mc.Bindings {
						if bd == ssa.Value(fv) && closureClosesCaptured(an, bi) {
							return true
						}
					}
				}
			}
		}
	}
	return false
}

var lostCancelExceptions = map[string]string{
	"(*netceptor.Listener).acceptLoop$1": "ccancel is handed to monitorUnreachable only when conn.RemoteAddr() is a netceptor.Addr; it always is, because the address comes from PacketConn.ReadFrom, which only produces Addr values — the other branch is unreachable (K3 of the design, re-examined: not a defect)",
}

func ownedRelease(r *engine.Report, p *engine.Program) {
	// (a) acquirers of ephemeral sockets
	n := 0
	for _, fn := range p.Funcs() {
		if !inPkg(fn, "netceptor") || engine.IsMock(fn) {
			continue
		}
		for _, ci := range engine.CallsIn(fn) {
			o := engine.CalleeObj(ci.Common())
			if o == nil || o.Name() != "ListenPacket" {
				continue
			}
			call, ok := ci.(*ssa.Call)
			if !ok {
				continue
			}
			n++
			pcs := callResult(call, 0)
			if len(pcs) != 1 {
				r.Add("R3-owned-release", engine.FuncName(fn)+": socket from ListenPacket", call.Pos(), engine.Violated, "the socket returned by ListenPacket is not bound")
				continue
			}
			pc := pcs[0]
			// the cell the socket is kept in (captured by closures)
			var cell *ssa.Alloc
			for _, rr := range *pc.Referrers() {
				if st, ok := rr.(*ssa.Store); ok && st.Val == pc {
					if a, ok := st.Addr.(*ssa.Alloc); ok {
						cell = a
					}
				}
			}
			isPC := func(v ssa.Value) bool {
				if v == pc {
					return true
				}
				if u, ok := v.(*ssa.UnOp); ok && u.Op == token.MUL && cell != nil && u.X == ssa.Value(cell) {
					return true
				}
				return false
			}
			// closures that close the captured socket
			closers := map[*ssa.Function]bool{}
			closerVals := map[ssa.Value]bool{}
			for _, b := range fn.Blocks {
				for _, in := range b.Instrs {
					if mc, ok := in.(*ssa.MakeClosure); ok {
						cl := mc.Fn.(*ssa.Function)
						for bi, bd := range mc.Bindings {
							if cell != nil && bd == ssa.Value(cell) && closureClosesCaptured(cl, bi) {
								closers[cl] = true
								closerVals[mc] = true
							}
						}
					}
				}
			}
			// closures that call a closer closure (pcClose → closeOnce.Do(func(){pc.Close()}))
			isRelease := func(in ssa.Instruction) bool {
				switch x := in.(type) {
				case ssa.CallInstruction:
					c := x.Common()
					if c.IsInvoke() && c.Method.Name() == "Close" && isPC(c.Value) {
						return true
					}
					// call / defer / go of a closure value that closes the socket
					v := c.Value
					if closerVals[v] {
						return true
					}
					if u, ok := v.(*ssa.UnOp); ok {
						if a, ok := u.X.(*ssa.Alloc); ok {
							if refs := a.Referrers(); refs != nil {
								for _, rr := range *refs {
									if st, ok := rr.(*ssa.Store); ok && closerVals[st.Val] {
										return true
									}
								}
							}
						}
					}
				case *ssa.Store:
					// handed to an owner struct
					if isPC(x.Val) {
						if fa, ok := x.Addr.(*ssa.FieldAddr); ok && engine.IsFreshAlloc(fa.X) {
							return true
						}
					}
				}
				return false
			}
			cut, tested := assumeSucceeds(fn, call)
			_ = tested
			bad := engine.Reach(fn, call, cut, isRelease, func(in ssa.Instruction) bool { _, ok := in.(*ssa.Return); return ok })
			r.Check("R3-owned-release", engine.FuncName(fn)+": socket from ListenPacket closed or handed to an owner on every path", call.Pos(), bad == nil,
				"from the successful ListenPacket every path to a return closes the socket (directly, through a deferred/closing closure) or stores it into the returned owner", "a path returns without closing the ephemeral socket or handing it to an owner ("+descInstr(p, bad)+"): its service name, goroutines and broker subscription leak")
		}
	}
	if n < 2 {
		r.Add("R3-owned-release", "netceptor: ListenPacket acquirers", token.NoPos, engine.Violated, fmt.Sprintf("expected at least 2 acquirers of ephemeral sockets (DialContext, SendPing), found %d", n))
	}
	// (b) owner type Conn
	pcField := p.Field("netceptor", "Conn", "pc")
	for _, name := range []string{"(*netceptor.Conn).Close", "(*netceptor.Conn).CloseConnection"} {
		fn := p.Func(name)
		if fn == nil {
			r.Broken("%s not found", name)
			continue
		}
		cone := p.Cone([]*ssa.Function{fn})
		releases := false
		for f := range cone.Fns {
			for _, ci := range engine.CallsIn(f) {
				c := ci.Common()
				if c.IsInvoke() && c.Method.Name() == "Close" {
					if ff, _ := engine.FieldOfLoad(c.Value); ff == pcField {
						releases = true
					}
				}
			}
		}
		if name == "(*netceptor.Conn).CloseConnection" {
			// accepted alternative: the cancel function obtained from pc.Cancel() is called
			for _, ci := range engine.CallsIn(fn) {
				c := ci.Common()
				if c.IsInvoke() && c.Method.Name() == "Cancel" {
					if v := ci.Value(); v != nil && v.Referrers() != nil && len(*v.Referrers()) > 0 {
						releases = true
					} else if !releases {
						r.Add("R3-owned-release", name+": result of pc.Cancel() unused", ci.Pos(), engine.Violated,
							"pc.Cancel() only returns a pointer to the socket's cancel function; discarding it releases nothing: Dial+CloseConnection leaves the ephemeral service registered with its goroutines and broker subscription")
						continue
					}
				}
			}
			if releases {
				r.Add("R3-owned-release", name+": releases field pc", fn.Pos(), engine.Discharged, "the owned socket is closed or cancelled")
			}
			continue
		}
		// Close: directly, or through a goroutine arm on doneChan that closes the socket
		if !releases {
			releases = doneArmClosesSocket(p)
		}
		r.Check("R3-owned-release", name+": releases field pc", fn.Pos(), releases,
			"the owned socket is closed by this method or by the cleanup goroutine arm it triggers", "Conn.Close never reaches pc.Close(): the dial-side cleanup goroutine returns on doneChan without closing the socket, so every Dial+Close leaves the ephemeral service registered with two goroutines and a broker subscription (keep-alives prevent the QUIC idle timeout from ever firing)")
	}
}

// doneArmClosesSocket: in DialContext's cleanup goroutine, does the arm that fires on doneChan close pc?
func doneArmClosesSocket(p *engine.Program) bool {
	dc := p.Func("(*netceptor.Netceptor).DialContext")
	if dc == nil {
		return false
	}
	for _, an := range dc.AnonFuncs {
		for _, b := range an.Blocks {
			for _, in := range b.Instrs {
				sel, ok := in.(*ssa.Select)
				if !ok || !sel.Blocking {
					continue
				}
				for si, st := range sel.States {
					if chanKey(st.Chan) != "doneChan" {
						continue
					}
					// the arm's entry: edge where select index == si
					idxVal := func(v ssa.Value) bool {
						e, ok := v.(*ssa.Extract)
						return ok && e.Tuple == ssa.Value(sel) && e.Index == 0
					}
					eq, _ := engine.IntCmpEdges(an, idxVal, 0, token.EQL, int64(si))
					for _, e := range eq {
						hit := reachFromEdge(an, e, nil, nil, func(in ssa.Instruction) bool {
							ci, ok := in.(ssa.CallInstruction)
							return ok && ci.Common().IsInvoke() && ci.Common().Method.Name() == "Close" && strings.HasSuffix(ci.Common().Value.Type().String(), "PacketConner")
						})
						if hit != nil {
							return true
						}
					}
				}
			}
		}
	}
	return false
}

// assumeSucceeds: remove the non-nil edges of the direct tests of call's error.
func assumeSucceeds(fn *ssa.Function, call *ssa.Call) (engine.EdgeSet, bool) {
	idx := errIndex(call.Common().Signature())
	if idx < 0 {
		return engine.EdgeSet{}, false
	}
	direct := map[ssa.Value]bool{}
	for _, v := range callResult(call, idx) {
		direct[v] = true
	}
	_, nonNil := engine.NilCmpEdges(fn, func(v ssa.Value) bool { return direct[v] })
	return engine.EdgeSet{}.Add(nonNil...), len(nonNil) > 0
}

// mustCancelOnExit: functions that keep owning a derived context although they park its cancel
// function in an object they allocate: parking is not a hand-off there, every exit must call or
// defer the cancel function.
var mustCancelOnExit = map[string]string{
	"(*netceptor.Netceptor).runProtocol": "the session's reader, writer and initial-message goroutines stop only on this context; the connection-table entry that also holds the cancel function is removed again on every exit, so nobody else can cancel it",
}

func lostCancel(r *engine.Report, p *engine.Program, scope []*ssa.Function) {
	n := 0
	for _, fn := range scope {
		for _, ci := range engine.CallsIn(fn) {
			if !engine.IsCallTo(ci.Common(), "context.WithCancel", "context.WithTimeout", "context.WithDeadline") {
				continue
			}
			call, ok := ci.(*ssa.Call)
			if !ok {
				continue
			}
			n++
			cancels := callResult(call, 1)
			construct := fmt.Sprintf("%s: cancel func of %s#%d", engine.FuncName(fn), engine.CalleeObj(ci.Common()).Name(), ordinalOfCall(ci))
			if len(cancels) == 0 {
				r.Add("R4-lostcancel", construct, call.Pos(), engine.Violated, "the cancel function is discarded: the derived context is never released")
				continue
			}
			cv := cancels[0]
			uses := map[ssa.Instruction]bool{}
			var cell *ssa.Alloc
			ownedField := false
			for _, rr := range *cv.Referrers() {
				if _, isDbg := rr.(*ssa.DebugRef); isDbg {
					continue
				}
				if st, ok := rr.(*ssa.Store); ok && st.Val == cv {
					if a, ok := st.Addr.(*ssa.Alloc); ok {
						cell = a // spilled because a closure captures it: the store alone is not a use
						continue
					}
					// stored into a field of an object this function has just allocated: the function
					// still owns the context; only calling/deferring the stored function releases it
					if fa, ok := st.Addr.(*ssa.FieldAddr); ok && engine.IsFreshAlloc(fa.X) && mustCancelOnExit[engine.FuncName(fn)] != "" {
						fv := engine.FieldAddrVar(fa)
						for _, b := range fn.Blocks {
							for _, in := range b.Instrs {
								c, isCall := in.(ssa.CallInstruction)
								if !isCall {
									continue
								}
								if f2, base := engine.FieldOfLoad(c.Common().Value); f2 == fv && engine.Unwrap(base) == engine.Unwrap(fa.X) {
									uses[in] = true
								}
							}
						}
						ownedField = true
						continue
					}
				}
				uses[rr] = true
			}
			if cell != nil {
				for _, rr := range *cell.Referrers() {
					switch x := rr.(type) {
					case *ssa.MakeClosure:
						uses[x] = true
					case *ssa.UnOp:
						for _, r2 := range *x.Referrers() {
							if _, isDbg := r2.(*ssa.DebugRef); !isDbg {
								uses[r2] = true
							}
						}
					}
				}
			}
			bad := engine.Reach(fn, call, nil, func(in ssa.Instruction) bool { return uses[in] }, func(in ssa.Instruction) bool { _, ok := in.(*ssa.Return); return ok })
			if bad != nil {
				if why, ok := lostCancelExceptions[engine.FuncName(fn)]; ok {
					r.Add("R4-lostcancel", construct, call.Pos(), engine.Discharged, "reasoned exception: "+why)
					continue
				}
			}
			whyBad := "a path returns without using the cancel function: the derived context (and what waits on it) is never released"
			if ownedField {
				whyBad = "the cancel function is only parked in a field of an object this function allocates; a path returns without calling or deferring it, so the goroutines waiting on the derived context (session reader/writer) outlive the function forever"
			}
			r.Check("R4-lostcancel", construct, call.Pos(), bad == nil,
				"on every path to a return the cancel function is called, deferred, stored in a longer-lived owner or handed on", whyBad)
		}
	}
	r.Extra["context_with_calls"] = n
	r.Min("R4-lostcancel", 6)
}

func goroutineArms(r *engine.Report, p *engine.Program, scope []*ssa.Function) {
	seen := map[*ssa.Function]bool{}
	nG := 0
	for _, fn := range scope {
		for _, ci := range engine.CallsIn(fn) {
			g, ok := ci.(*ssa.Go)
			if !ok {
				continue
			}
			for _, callee := range p.Callees(g) {
				if seen[callee] || !p.IsReceptorFn(callee) || engine.IsMock(callee) || !inPkg(callee, "netceptor", "utils") {
					continue
				}
				seen[callee] = true
				nG++
				checkGoroutine(r, p, callee)
			}
		}
	}
	r.Extra["goroutine_bodies_checked"] = nG
	r.Min("R5-goroutine-arms", 15)
}

func isTerminationChan(v ssa.Value) (bool, string) {
	v = engine.Unwrap(v)
	if c, ok := v.(*ssa.Call); ok {
		if o := engine.CalleeObj(c.Common()); o != nil {
			switch o.Name() {
			case "Done", "NetceptorDone":
				return true, "context Done()"
			case "After":
				return true, "timer"
			}
		}
	}
	// signal channels: chan struct{} / chan bool held in a field, cell or parameter
	if ct, ok := v.Type().Underlying().(*types.Chan); ok {
		switch et := ct.Elem().Underlying().(type) {
		case *types.Struct:
			if et.NumFields() == 0 {
				return true, "signal channel (chan struct{})"
			}
		case *types.Basic:
			if et.Kind() == types.Bool {
				return true, "signal channel (chan bool)"
			}
		}
	}
	return false, ""
}

func ownerClosed(v ssa.Value, depth int) (bool, string) {
	if depth > 6 {
		return false, ""
	}
	v = engine.Unwrap(v)
	switch x := v.(type) {
	case *ssa.Call:
		if o := engine.CalleeObj(x.Common()); o != nil {
			if why, ok := closedByOwner[o.Name()]; ok {
				return true, why
			}
		}
	case *ssa.UnOp:
		if x.Op == token.MUL {
			switch c := x.X.(type) {
			case *ssa.FreeVar:
				// resolve binding
				fn := c.Parent()
				idx := -1
				for i, fv := range fn.FreeVars {
					if fv == c {
						idx = i
					}
				}
				if par := fn.Parent(); par != nil && idx >= 0 {
					for _, b := range par.Blocks {
						for _, in := range b.Instrs {
							if mc, ok := in.(*ssa.MakeClosure); ok && mc.Fn == ssa.Value(fn) && idx < len(mc.Bindings) {
								if a, ok := mc.Bindings[idx].(*ssa.Alloc); ok {
									if refs := a.Referrers(); refs != nil {
										for _, rr := range *refs {
											if st, ok := rr.(*ssa.Store); ok && st.Addr == ssa.Value(a) {
												return ownerClosed(st.Val, depth+1)
											}
										}
									}
								}
							}
						}
					}
				}
			case *ssa.Alloc:
				if refs := c.Referrers(); refs != nil {
					for _, rr := range *refs {
						if st, ok := rr.(*ssa.Store); ok && st.Addr == ssa.Value(c) {
							return ownerClosed(st.Val, depth+1)
						}
					}
				}
			}
		}
	}
	if ok, why := isTerminationChan(v); ok {
		return true, why
	}
	return false, ""
}

// callerSupplied: the channel value is (a copy of) a parameter of the outermost enclosing function,
// i.e. a signal the caller promises to give — not something the object itself closes when it goes away.
func callerSupplied(v ssa.Value, depth int) bool {
	if depth > 6 {
		return false
	}
	v = engine.Unwrap(v)
	switch x := v.(type) {
	case *ssa.Parameter:
		return x.Parent().Parent() == nil
	case *ssa.FreeVar:
		fn := x.Parent()
		idx := -1
		for i, fv := range fn.FreeVars {
			if fv == x {
				idx = i
			}
		}
		if par := fn.Parent(); par != nil && idx >= 0 {
			for _, b := range par.Blocks {
				for _, in := range b.Instrs {
					if mc, ok := in.(*ssa.MakeClosure); ok && mc.Fn == ssa.Value(fn) && idx < len(mc.Bindings) {
						return callerSupplied(mc.Bindings[idx], depth+1)
					}
				}
			}
		}
	case *ssa.UnOp:
		if x.Op == token.MUL {
			return callerSupplied(x.X, depth+1)
		}
	case *ssa.Alloc:
		// a cell: caller-supplied if its stores are
		if refs := x.Referrers(); refs != nil {
			n := 0
			for _, rr := range *refs {
				if st, ok := rr.(*ssa.Store); ok && st.Addr == ssa.Value(x) {
					n++
					if !callerSupplied(st.Val, depth+1) {
						return false
					}
				}
			}
			return n > 0
		}
	}
	return false
}

func checkGoroutine(r *engine.Report, p *engine.Program, fn *ssa.Function) {
	name := engine.FuncName(fn)
	nOps := 0
	for _, b := range fn.Blocks {
		for _, in := range b.Instrs {
			switch x := in.(type) {
			case *ssa.Send:
				nOps++
				key := name + ": send"
				construct := fmt.Sprintf("%s: send %s", name, chanKey(x.Chan))
				if why, ok := blockingExceptions[key]; ok {
					r.Add("R5-goroutine-arms", construct, x.Pos(), engine.Discharged, "reasoned exception: "+why)
					// verify the exception's premise: capacity ≥ 1 and a single send
					if mk := originChan(x.Chan, 0); mk == nil {
						r.Add("R5-goroutine-arms", construct+" (premise)", x.Pos(), engine.Violated, "the exception assumes a locally made buffered channel, which was not found")
					} else if k, ok := engine.ConstInt(mk.Size); !ok || k < 1 {
						r.Add("R5-goroutine-arms", construct+" (premise)", x.Pos(), engine.Violated, "the exception assumes capacity >= 1")
					}
					continue
				}
				r.Add("R5-goroutine-arms", construct, x.Pos(), engine.Violated,
					"a goroutine performs a bare channel send with no select arm on a context/done channel: if its consumer has returned (socket closed, ping finished) the goroutine blocks forever")
			case *ssa.Select:
				if !x.Blocking {
					continue
				}
				nOps++
				ok := false
				why := ""
				desc := []string{}
				ownArm := false
				for _, st := range x.States {
					d := "<-"
					if st.Dir == types.SendOnly {
						d = "->"
					}
					desc = append(desc, d+chanKey(st.Chan))
					if st.Dir == types.RecvOnly {
						if t, w := ownerClosed(st.Chan, 0); t {
							ok, why = true, w
							if !callerSupplied(st.Chan, 0) {
								ownArm = true
							}
						}
					}
				}
				construct := fmt.Sprintf("%s: select{%s}", name, strings.Join(desc, ","))
				badWhy := "a blocking select in a goroutine has no arm on a context/done/timer channel: it can block forever after its object is closed"
				if ok && !ownArm {
					ok = false
					badWhy = "the only termination arms of this select are signal channels supplied by the caller: when the object (socket, node) goes away without the caller ever signalling, the goroutine stays forever"
				}
				r.Check("R5-goroutine-arms", construct, x.Pos(), ok, "has a termination arm of its own ("+why+")", badWhy)
			case *ssa.UnOp:
				if x.Op != token.ARROW {
					continue
				}
				nOps++
				ok, why := ownerClosed(x.X, 0)
				construct := fmt.Sprintf("%s: receive %s", name, chanKey(x.X))
				badWhy := "a goroutine blocks in a bare receive on a channel that no owner is known to close"
				if ok && callerSupplied(x.X, 0) {
					ok = false
					badWhy = "the goroutine's only way out is a signal channel supplied by the caller: when the object (socket, node) goes away without the caller ever signalling (e.g. a failed dial never closes its done channel), the goroutine stays forever"
				}
				r.Check("R5-goroutine-arms", construct, x.Pos(), ok, "blocks only on a channel that its owner closes ("+why+")", badWhy)
			case *ssa.Next:
				if _, isChan := x.Iter.Type().Underlying().(*types.Chan); isChan {
					nOps++
					ok, why := ownerClosed(x.Iter, 0)
					construct := fmt.Sprintf("%s: range %s", name, chanKey(x.Iter))
					r.Check("R5-goroutine-arms", construct, x.Pos(), ok, "ranges over a channel that its owner closes ("+why+")", "a goroutine ranges over a channel that no owner is known to close")
				}
			}
		}
	}
	if nOps == 0 {
		r.Add("R5-goroutine-arms", name+": no blocking channel operation", fn.Pos(), engine.Discharged, "the goroutine body performs no channel operation of its own").Trivial = true
	}
}

func registryAccessorSites(r *engine.Report, p *engine.Program) {
	lockF := p.Field("netceptor", "Netceptor", "listenerLock")
	holders := map[string]string{
		"netceptor.NewPacketConnWithConst": "constructor helper: called with the lock held by ListenPacket / ListenPacketAndAdvertise",
	}
	p.AllInstrs(func(fn *ssa.Function, in ssa.Instruction) {
		if engine.IsMock(fn) || !inPkg(fn, "netceptor") {
			return
		}
		ci, ok := in.(ssa.CallInstruction)
		if !ok {
			return
		}
		o := engine.CalleeObj(ci.Common())
		if o == nil || o.Name() != "GetListenerRegistry" {
			return
		}
		var recv ssa.Value
		if ci.Common().IsInvoke() {
			recv = ci.Common().Value
		} else {
			recv = ci.Common().Args[0]
		}
		want := p.PathOf(recv).With(lockF).String()
		held := p.Locks(fn).HeldAt(in)
		construct := fmt.Sprintf("%s: GetListenerRegistry()", engine.FuncName(fn))
		if m, ok := held[want]; ok && m == engine.LockW {
			r.Add("R6-registry-sites", construct, in.Pos(), engine.Discharged, "the registry map is obtained with "+want+" write-held")
			return
		}
		if why, ok := holders[engine.FuncName(fn)]; ok {
			top := fn
			obj, _ := top.Object().(*types.Func)
			okAll, n := true, 0
			for _, cs := range p.CallSitesOf(obj) {
				if engine.IsMock(cs.Parent()) {
					continue
				}
				// through NewPacketConn wrapper?
				caller := cs.Parent()
				lp := p.PathOf(cs.Common().Args[0]).With(lockF).String()
				h := p.Locks(caller).HeldAt(cs)
				if m, ok := h[lp]; !ok || m != engine.LockW {
					if engine.FuncName(caller) == "netceptor.NewPacketConn" {
						// one more level
						o2, _ := caller.Object().(*types.Func)
						for _, cs2 := range p.CallSitesOf(o2) {
							if engine.IsMock(cs2.Parent()) {
								continue
							}
							lp2 := p.PathOf(cs2.Common().Args[0]).With(lockF).String()
							if m2, ok := p.Locks(cs2.Parent()).HeldAt(cs2)[lp2]; !ok || m2 != engine.LockW {
								okAll = false
							}
							n++
						}
						continue
					}
					okAll = false
				}
				n++
			}
			r.Check("R6-registry-sites", construct, in.Pos(), okAll && n > 0, fmt.Sprintf("%s; all %d product call site(s) hold the listener write lock", why, n), "a call site of the constructor helper does not hold listenerLock: the registry map is written without the lock")
			return
		}
		r.Add("R6-registry-sites", construct, in.Pos(), engine.Violated, "the listener registry map is obtained without "+want+" write-held (held: "+held.String()+")")
	})
}

func contextParents(r *engine.Report, p *engine.Program) {
	// Shutdown cancels the node context
	sd := p.Func("(*netceptor.Netceptor).Shutdown")
	nw := p.Func("netceptor.NewWithConsts")
	cf := p.Field("netceptor", "Netceptor", "cancelFunc")
	cx := p.Field("netceptor", "Netceptor", "context")
	ok := sd != nil && nw != nil && cf != nil && cx != nil
	if ok {
		// Shutdown calls the value loaded from cancelFunc
		calls := false
		for _, ci := range engine.CallsIn(sd) {
			if f, _ := engine.FieldOfLoad(ci.Common().Value); f == cf {
				calls = true
			}
		}
		// in the constructor context and cancelFunc are the two results of one WithCancel
		var ctxSrc, canSrc ssa.Value
		for _, a := range engine.FieldAccessesIn(nw, cx) {
			if st, isS := a.Instr.(*ssa.Store); isS && a.Kind == engine.AccStore {
				if e, isE := st.Val.(*ssa.Extract); isE {
					ctxSrc = e.Tuple
				}
			}
		}
		for _, a := range engine.FieldAccessesIn(nw, cf) {
			if st, isS := a.Instr.(*ssa.Store); isS && a.Kind == engine.AccStore {
				if e, isE := st.Val.(*ssa.Extract); isE {
					canSrc = e.Tuple
				}
			}
		}
		ok = calls && ctxSrc != nil && ctxSrc == canSrc
	}
	r.Check("R7-shutdown-root", "Netceptor.Shutdown cancels the node context", token.NoPos, ok,
		"Shutdown calls cancelFunc, which is the cancel function of the very WithCancel that produced s.context", "Shutdown no longer cancels the context that the node's background activity derives from")
	// parents of derived contexts in package netceptor
	for _, fn := range p.Funcs() {
		if !inPkg(fn, "netceptor") || engine.IsMock(fn) {
			continue
		}
		for _, ci := range callsTo(fn, "context.WithCancel", "context.WithTimeout", "context.WithDeadline") {
			parent := engine.Unwrap(ci.Common().Args[0])
			kind, ok := classifyCtxParent(parent, 0)
			construct := fmt.Sprintf("%s: parent of derived context #%d", engine.FuncName(fn), ordinalOfCall(ci))
			r.Check("R7-derived-contexts", construct, ci.Pos(), ok, "parent is "+kind, "a context is derived from "+kind+": Shutdown does not reach it")
		}
	}
	r.Min("R7-derived-contexts", 6)
}

func classifyCtxParent(v ssa.Value, depth int) (string, bool) {
	if depth > 6 {
		return "an untraceable value", false
	}
	v = engine.Unwrap(v)
	if f, _ := engine.FieldOfLoad(v); f != nil {
		if f.Name() == "context" || f.Name() == "ctx" || f.Name() == "Context" {
			return "the object's own context field (" + f.Name() + ")", true
		}
	}
	switch x := v.(type) {
	case *ssa.Phi:
		// e.g. "if ctx == nil { ctx = context.Background() }" in the node constructor
		kinds := []string{}
		for _, e := range x.Edges {
			k, ok := classifyCtxParent(engine.Unwrap(e), depth+1)
			if !ok && !strings.HasPrefix(k, "context.Background") {
				return k, false
			}
			kinds = append(kinds, k)
		}
		return "one of {" + strings.Join(kinds, " | ") + "} (the node's root context)", x.Parent().Name() == "NewWithConsts"
	case *ssa.Parameter:
		return "a context parameter supplied by the caller", true
	case *ssa.Call:
		if o := engine.CalleeObj(x.Common()); o != nil {
			switch o.Name() {
			case "Context":
				return "the node's Context()", true
			case "Background", "TODO":
				return "context." + o.Name() + "()", false
			}
		}
	case *ssa.Extract:
		if c, ok := x.Tuple.(*ssa.Call); ok && engine.IsCallTo(c.Common(), "context.WithCancel", "context.WithTimeout", "context.WithDeadline") {
			return classifyCtxParent(engine.Unwrap(c.Common().Args[0]), depth+1)
		}
	case *ssa.UnOp:
		if x.Op == token.MUL {
			switch c := x.X.(type) {
			case *ssa.Alloc:
				if val := storedVal(c); val != nil {
					return classifyCtxParent(val, depth+1)
				}
			case *ssa.FreeVar:
				return "a context captured from the enclosing function", true
			}
		}
	case *ssa.FreeVar:
		return "a context captured from the enclosing function", true
	}
	return "an untraceable value (" + v.String() + ")", false
}

func storedVal(a *ssa.Alloc) ssa.Value {
	var val ssa.Value
	n := 0
	if refs := a.Referrers(); refs != nil {
		for _, rr := range *refs {
			if st, ok := rr.(*ssa.Store); ok && st.Addr == ssa.Value(a) {
				val = st.Val
				n++
			}
		}
	}
	if n == 1 {
		return val
	}
	return nil
}
