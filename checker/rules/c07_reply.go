package rules

import (
	"fmt"
	"sort"
	"strings"

	"golang.org/x/tools/go/ssa"

	"rcheck/engine"
)

// replyLoopRule (C07 O10): a reserved-service handler runs synchronously inside handleMessageData
// and originates its answer through sendMessage → handleMessageData again. A handler registered
// under name N that answers the packet's sender (destination service = md.FromService) from
// service N must not do so when the packet itself claims to come from service N: the answer would
// be dispatched to the same handler again — on this node, recursively, until the stack overflows
// (FromNode = this node), or between two nodes forever. Decided: every such send is unreachable
// once the edges establishing md.FromService != N are removed.
func replyLoopRule(r *engine.Report, p *engine.Program, rule string) {
	rs := p.Field("netceptor", "Netceptor", "reservedServices")
	fromSvc := p.Field("netceptor", "MessageData", "FromService")
	if rs == nil || fromSvc == nil {
		r.Broken("reservedServices / MessageData.FromService not found")
		return
	}
	// registrations: MapUpdate into the map stored in reservedServices, constant key, bound method value
	handlers := map[string]*ssa.Function{}
	p.AllInstrs(func(fn *ssa.Function, in ssa.Instruction) {
		if engine.IsMock(fn) {
			return
		}
		mu, ok := in.(*ssa.MapUpdate)
		if !ok {
			return
		}
		key, isC := engine.ConstString(mu.Key)
		if !isC {
			return
		}
		// the map ends up in the field
		stored := false
		if refs := mu.Map.Referrers(); refs != nil {
			for _, rr := range *refs {
				if st, ok := rr.(*ssa.Store); ok {
					if fa, ok := st.Addr.(*ssa.FieldAddr); ok && engine.FieldAddrVar(fa) == rs {
						stored = true
					}
				}
			}
		}
		if f, _ := engine.FieldOfLoad(mu.Map); f == rs {
			stored = true
		}
		if !stored {
			return
		}
		var target *ssa.Function
		switch v := mu.Value.(type) {
		case *ssa.MakeClosure:
			w := v.Fn.(*ssa.Function)
			name := strings.TrimSuffix(w.Name(), "$bound")
			if len(v.Bindings) == 1 {
				target = p.Func("(" + v.Bindings[0].Type().String()[strings.LastIndex(v.Bindings[0].Type().String(), "/")+1:] + ")." + name)
				if target == nil {
					// resolve by method name on the receiver type
					for _, f := range p.Funcs() {
						if f.Name() == name && f.Signature.Recv() != nil && f.Signature.Recv().Type().String() == v.Bindings[0].Type().String() {
							target = f
						}
					}
				}
			}
			if target == nil {
				target = w
			}
		case *ssa.Function:
			target = v
		}
		if target != nil {
			handlers[key] = target
		}
	})
	var names []string
	for k := range handlers {
		names = append(names, k)
	}
	sort.Strings(names)
	if len(names) < 2 {
		r.Add(rule, "reserved services: registrations", 0, engine.Violated, fmt.Sprintf("expected at least the ping and unreach registrations, found %v", names))
		return
	}
	for _, n := range names {
		h := handlers[n]
		var sends []ssa.CallInstruction
		for _, ci := range engine.CallsIn(h) {
			if engine.IsCallTo(ci.Common(), "(*netceptor.Netceptor).sendMessage", "(*netceptor.Netceptor).SendMessageWithHopsToLive") {
				sends = append(sends, ci)
			}
		}
		ok, why := true, ""
		for _, ci := range sends {
			a := ci.Common().Args // recv, fromService, toNode, toService, ...
			src, isC := engine.ConstString(a[1])
			if f, _ := engine.FieldOfLoad(a[3]); f != fromSvc {
				continue // not an answer to the sender's service
			}
			if !isC {
				ok, why = false, "the answer's source service is not a constant"
				continue
			}
			_, ne := strEqEdges(h, fieldLoadIs(fromSvc), src)
			cut := engine.EdgeSet{}.Add(ne...)
			if len(ne) == 0 || engine.Reach(h, nil, cut, nil, func(in ssa.Instruction) bool { return in == ssa.Instruction(ci) }) != nil {
				ok = false
				why = fmt.Sprintf("the handler answers to md.FromService from service %q without first establishing md.FromService != %q: one packet claiming to come from %s:%s makes the answer come back to this handler — synchronously and without end when FromNode is this node (stack overflow, process dies), or bouncing between two nodes forever", src, src, "<node>", src)
			}
		}
		r.Check(rule, fmt.Sprintf("reserved service %q (%s): never answers a packet that claims to come from the same service", n, engine.FuncName(h)), h.Pos(), ok,
			fmt.Sprintf("%d send(s) in the handler; every answer addressed to md.FromService is unreachable once the md.FromService != own-service edges are removed (or the handler sends nothing)", len(sends)), why)
	}
}
