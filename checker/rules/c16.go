package rules

import (
	"fmt"
	"go/token"
	"go/types"
	"strings"

	"golang.org/x/tools/go/ssa"

	"rcheck/engine"
)

func init() { register("C16", c16) }

// monitorUnreachableRule is shared by C16 (dial fails fast only for that notice) and C03
// (a stream is not torn down by other notices).
func monitorUnreachableRule(r *engine.Report, p *engine.Program, rule string) {
	mu := p.Func("netceptor.monitorUnreachable")
	if mu == nil {
		r.Broken("monitorUnreachable not found")
		return
	}
	cancel := mu.Params[3]
	var cancels []ssa.Instruction
	for _, ci := range engine.CallsIn(mu) {
		if ci.Common().Value == ssa.Value(cancel) {
			cancels = append(cancels, ci)
		}
	}
	// the cancel inside the loop (after the subscription succeeded)
	var loopCancel ssa.Instruction
	for _, c := range cancels {
		for _, in := range c.Block().Instrs {
			_ = in
		}
		// the one reachable from a receive of the subscription channel
		for _, b := range mu.Blocks {
			for _, in := range b.Instrs {
				if u, ok := in.(*ssa.UnOp); ok && u.Op == token.ARROW {
					if engine.Reach(mu, in, nil, nil, func(x ssa.Instruction) bool { return x == c }) != nil {
						loopCancel = c
					}
				}
			}
		}
	}
	if loopCancel == nil {
		r.Add(rule, "monitorUnreachable: cancel on a notice", mu.Pos(), engine.Violated, "no cancel() reachable from a received notice was found")
		return
	}
	isCancel := func(in ssa.Instruction) bool { return in == loopCancel }
	// the monitor gives up only by cancelling (or when its subscription ends): from a received
	// notice no return is reachable without the cancel
	{
		var recvOK []engine.Edge
		var recvs []ssa.Instruction
		for _, b := range mu.Blocks {
			for _, in := range b.Instrs {
				switch x := in.(type) {
				case *ssa.Next:
					recvs = append(recvs, in)
				case *ssa.UnOp:
					if x.Op == token.ARROW {
						recvs = append(recvs, in)
					}
				}
			}
		}
		for _, b := range mu.Blocks {
			for _, in := range b.Instrs {
				switch x := in.(type) {
				case *ssa.Next:
					h, _ := engine.CondEdges(mu, func(c ssa.Value) (bool, bool) {
						e, isE := c.(*ssa.Extract)
						return isE && e.Tuple == ssa.Value(x) && e.Index == 0, true
					})
					recvOK = append(recvOK, h...)
				case *ssa.UnOp:
					if x.Op == token.ARROW && x.CommaOk {
						h, _ := engine.CondEdges(mu, func(c ssa.Value) (bool, bool) {
							e, isE := c.(*ssa.Extract)
							return isE && e.Tuple == ssa.Value(x) && e.Index == 1, true
						})
						recvOK = append(recvOK, h...)
					}
				}
			}
		}
		okK := len(recvOK) > 0
		for _, e := range recvOK {
			if reachFromEdge(mu, e, nil, func(in ssa.Instruction) bool { return isCancel(in) || isOneOf(in, recvs) }, func(in ssa.Instruction) bool { _, isR := in.(*ssa.Return); return isR }) != nil {
				okK = false
			}
		}
		r.Check(rule, "monitorUnreachable: keeps monitoring until it cancels the connection", mu.Pos(), okK,
			"from a received notice, before the next receive, a return is reachable only through cancel(): notices about other problems or other peers never end the monitor",
			"the monitor can return after a notice without cancelling (e.g. it stops at the first notice naming its peer, whatever the problem): a later 'service unknown' notice is ignored and the dial waits out the handshake timeout")
	}
	wantProb, _ := constStringOf(p.Const("netceptor", "ProblemServiceUnknown"))
	fld := func(n string) *types.Var { return p.Field("netceptor", "UnreachableMessage", n) }
	conds := []struct {
		name  string
		edges []engine.Edge
	}{}
	probEq, _ := strEqEdges(mu, fieldLoadIs(fld("Problem")), wantProb)
	conds = append(conds, struct {
		name  string
		edges []engine.Edge
	}{"Problem == ProblemServiceUnknown", probEq})
	addrNode, addrSvc := p.Field("netceptor", "Addr", "node"), p.Field("netceptor", "Addr", "service")
	nodeEq, _ := valEqEdges(mu, fieldLoadIs(fld("ToNode")), fieldLoadIs(addrNode))
	svcEq, _ := valEqEdges(mu, fieldLoadIs(fld("ToService")), fieldLoadIs(addrSvc))
	conds = append(conds, struct {
		name  string
		edges []engine.Edge
	}{"ToNode == remote node", nodeEq}, struct {
		name  string
		edges []engine.Edge
	}{"ToService == remote service", svcEq})
	// start after the subscription (the early cancel when SubscribeUnreachable returns nil is separate)
	var sub ssa.Instruction
	for _, ci := range engine.CallsIn(mu) {
		if ci.Common().IsInvoke() && ci.Common().Method.Name() == "SubscribeUnreachable" {
			sub = ci
		}
	}
	for _, c := range conds {
		ok := len(c.edges) > 0 && wantProb != "" && engine.Reach(mu, sub, engine.EdgeSet{}.Add(c.edges...), nil, isCancel) == nil
		r.Check(rule, "monitorUnreachable: connection cancelled only if "+c.name, loopCancel.Pos(), ok,
			"the cancel is unreachable once the edges on which this condition holds are removed", "a connection can be torn down by a notice for which '"+c.name+"' does not hold (e.g. a transient 'message expired' during re-routing, or a notice about another destination)")
	}
}

func c16(r *engine.Report, p *engine.Program) {
	r.Explanation = "Decides the construction and routing filters of the 'service unknown' notice: on a packet for a service nobody listens on (or whose socket is closed) handleMessageData returns the error to a local sender and otherwise sends to md.FromNode a notice carrying the packet's four address fields and ProblemServiceUnknown; notices travel from/to the reserved service 'unreach' and are published with the relaying node; a socket forwards a notice to its subscribers only if both FromNode is the local node and FromService is the socket's own service, from a goroutine that only drains its subscription (the unsubscribe on close happens in a separate goroutine); a stream is cancelled only by a ProblemServiceUnknown notice for its own remote node and service; the cancelled context is the one the dial and the stream open wait on, and its error is what the dialer returns; a firewall drop produces no notice (C12-R5). It does not decide delivery of the notice over the mesh or timing against the handshake timeout."
	r.NotDecided = []string{"delivery of the notice over the mesh", "the close-while-sending race", "timing vs. the handshake timeout"}
	r.Assumptions = []string{"utils.Broker delivers a published message to every current subscriber"}
	hmd := p.Func("(*netceptor.Netceptor).handleMessageData")
	su := p.Func("(*netceptor.Netceptor).sendUnreachable")
	hu := p.Func("(*netceptor.Netceptor).handleUnreachable")
	st := p.Func("(*netceptor.PacketConn).StartUnreachable")
	dc := p.Func("(*netceptor.Netceptor).DialContext")
	if hmd == nil || su == nil || hu == nil || st == nil || dc == nil {
		r.Broken("C16 anchors not found")
		return
	}
	md := hmd.Params[1]
	wantProb, _ := constStringOf(p.Const("netceptor", "ProblemServiceUnknown"))
	// R1b a packet dropped by policy is silent: from the Drop outcome of the firewall decision no notice is reachable
	{
		cDrop := p.Const("netceptor", "FirewallResultDrop")
		var decision ssa.Value
		if cDrop != nil {
			for _, i := range engine.Ifs(hmd) {
				if cmp, ok := engine.AsCmp(i.Cond, func(v ssa.Value) bool { return types.Identical(v.Type(), cDrop.Type()) }); ok {
					if k, isC := engine.ConstInt(cmp.Other); isC && k == constIntVal(cDrop) {
						decision = cmp.Subject
					}
				}
			}
		}
		_, notices := deliveryTargets(p, hmd)
		okD := decision != nil && len(notices) > 0
		why := "the firewall decision compared with FirewallResultDrop, or the notice sites, were not found"
		if okD {
			dropE, _ := engine.IntCmpEdges(hmd, func(v ssa.Value) bool { return v == decision }, 0, token.EQL, constIntVal(cDrop))
			okD = len(dropE) > 0
			for _, e := range dropE {
				if hit := reachFromEdge(hmd, e, nil, nil, func(in ssa.Instruction) bool {
					for _, n := range notices {
						if in == ssa.Instruction(n) {
							return true
						}
					}
					return false
				}); hit != nil {
					okD = false
					why = "from the Drop outcome a path reaches " + descInstr(p, hit) + ": a packet dropped by policy produces a notice on the sender's socket"
				}
			}
		}
		r.Check("R1-notice", "handleMessageData: a packet dropped by policy produces no notice", hmd.Pos(), okD,
			fmt.Sprintf("from the edge on which the merged firewall result equals FirewallResultDrop none of the %d sendUnreachable sites is reachable", len(notices)), why)
	}
	// R1 the unknown-service branch
	{
		// edge: lookup !ok
		var lk *ssa.Lookup
		reg := p.Field("netceptor", "Netceptor", "listenerRegistry")
		for _, a := range engine.FieldAccessesIn(hmd, reg) {
			if l, ok := a.Instr.(*ssa.Lookup); ok && l.CommaOk {
				lk = l
			}
		}
		if lk == nil {
			r.Add("R1-notice", "handleMessageData: registry lookup", hmd.Pos(), engine.Violated, "no comma-ok lookup of listenerRegistry found")
		} else {
			_, miss := engine.CondEdges(hmd, func(c ssa.Value) (bool, bool) {
				e, ok := c.(*ssa.Extract)
				return ok && e.Index == 1 && e.Tuple == ssa.Value(lk), true
			})
			// closed socket: pc.context.Err() != nil
			var closedE []engine.Edge
			for _, ci := range engine.CallsIn(hmd) {
				if ci.Common().IsInvoke() && ci.Common().Method.Name() == "Err" {
					_, nn := engine.NilCmpEdges(hmd, func(v ssa.Value) bool { return v == ci.(ssa.Value) })
					closedE = append(closedE, nn...)
				}
			}
			fromNode := p.Field("netceptor", "MessageData", "FromNode")
			nodeID := p.Field("netceptor", "Netceptor", "nodeID")
			localEq, _ := valEqEdges(hmd, func(v ssa.Value) bool { f, b := engine.FieldOfLoad(v); return f == fromNode && b == ssa.Value(md) }, fieldLoadIs(nodeID))
			var notices []ssa.CallInstruction
			for _, ci := range callsTo(hmd, "(*netceptor.Netceptor).sendUnreachable") {
				if noticeProblem(p, ci) == wantProb {
					notices = append(notices, ci)
				}
			}
			ok := len(miss) > 0 && len(closedE) > 0 && len(notices) == 1 && len(localEq) > 0 && wantProb != ""
			why := "unknown-service branch, closed-socket test, local-origin test or the ProblemServiceUnknown notice not found"
			if ok {
				nt := notices[0]
				isNotice := func(in ssa.Instruction) bool { return in == ssa.Instruction(nt) }
				for _, e := range append(append([]engine.Edge{}, miss...), closedE...) {
					// remote origin: cut local edges; every return passes the notice
					cut := engine.EdgeSet{}.Add(localEq...)
					if silent := reachFromEdge(hmd, e, cut, isNotice, func(in ssa.Instruction) bool { _, isR := in.(*ssa.Return); return isR }); silent != nil {
						ok = false
						why = "a packet from another node for an unknown/closed service can be discarded without a notice"
					}
					// never delivered
					targets, _ := deliveryTargets(p, hmd)
					var sendOnly []ssa.Instruction
					for _, t := range targets {
						if _, isSend := t.(*ssa.Select); isSend {
							sendOnly = append(sendOnly, t)
						}
						if _, isSend := t.(*ssa.Send); isSend {
							sendOnly = append(sendOnly, t)
						}
					}
					if hit := reachFromEdge(hmd, e, nil, nil, func(in ssa.Instruction) bool { return isOneOf(in, sendOnly) }); hit != nil {
						ok = false
						why = "a packet for an unknown/closed service can still be delivered"
					}
				}
				// local origin: error return mentioning the problem
				for _, e := range localEq {
					bad := reachFromEdge(hmd, e, nil, func(in ssa.Instruction) bool { return false }, func(in ssa.Instruction) bool {
						ret, isR := in.(*ssa.Return)
						return isR && engine.IsNilConst(ret.Results[0]) && false
					})
					_ = bad
				}
				if f, b := engine.FieldOfLoad(nt.Common().Args[1]); f != fromNode || b != ssa.Value(md) {
					ok = false
					why = "the notice is not addressed to md.FromNode"
				}
				if bad := noticeFieldsCopy(p, nt, md); bad != "" {
					ok = false
					why = bad
				}
			}
			r.Check("R1-notice", "handleMessageData: unknown or closed service → 'service unknown' notice to the packet's origin", hmd.Pos(), ok,
				"from the lookup-miss and closed-socket edges a remote-origin packet always reaches sendUnreachable(md.FromNode, {md's four address fields, ProblemServiceUnknown}) and never a delivery", why)
			// local origin gets an error
			okLocal := false
			for _, ret := range engine.Returns(hmd) {
				if c, isC := ret.Results[0].(*ssa.Call); isC && engine.IsCallTo(c.Common(), "fmt.Errorf") {
					if s, isS := engine.ConstString(c.Common().Args[0]); isS && s == wantProb {
						okLocal = engine.Reach(hmd, nil, engine.EdgeSet{}.Add(localEq...), nil, func(in ssa.Instruction) bool { return in == ssa.Instruction(ret) }) == nil
					}
				}
			}
			r.Check("R1-notice", "handleMessageData: a local sender gets the error directly", hmd.Pos(), okLocal, "the 'service unknown' error is returned only on the md.FromNode == s.nodeID edge", "the local-sender error return is missing or not guarded by the origin test")
		}
	}
	// R2 transport of the notice
	{
		ok := false
		for _, ci := range callsTo(su, "(*netceptor.Netceptor).sendMessage") {
			a := ci.Common().Args
			s1, _ := engine.ConstString(a[1])
			s3, _ := engine.ConstString(a[3])
			ok = s1 == "unreach" && s3 == "unreach" && a[2] == ssa.Value(su.Params[1])
			okp, why := errorPropagates(su, ci.(*ssa.Call))
			r.Check("R2-transport", "sendUnreachable: error of sendMessage", ci.Pos(), okp, why, why)
		}
		okP, whyP := noticeAlwaysPublished(p, hu)
		r.Check("R2-transport", "handleUnreachable: every decoded notice is published", hu.Pos(), okP, "assuming the decode succeeded, no return of handleUnreachable is reachable without Publish", whyP)
		okB, whyB := brokerLossless(p)
		r.Check("R2-transport", "utils.Broker: every published message is delivered to every subscriber (blocking hand-over, unbuffered subscriptions)", token.NoPos, okB,
			"the per-subscriber send in Broker.start is a blocking select with the broker context as its only other arm; Subscribe makes unbuffered channels", whyB)
		{
			okS, whyS, nS := packetPathStateless(p)
			r.Check("R2-transport", "packet path: keeps no state between packets", token.NoPos, okS,
				fmt.Sprintf("%d functions on the datagram path (send, decode, dispatch, forward, notices) write no Netceptor field and no package-level variable", nS),
				whyS+" — whether a packet is delivered, forwarded or answered with a notice now depends on earlier packets")
		}
		okA, whyA := noticeAlwaysSent(p, su)
		r.Check("R2-transport", "sendUnreachable: every notice is transmitted", su.Pos(), okA, "assuming the encoding succeeded, no return of sendUnreachable is reachable without sendMessage", whyA)
		r.Check("R2-transport", "sendUnreachable: from/to service 'unreach', to the given node", su.Pos(), ok, "notices use the reserved service on both ends", "notices are not sent from/to the reserved 'unreach' service of the target node")
		// handleUnreachable publishes {msg, ReceivedFromNode: md.FromNode}
		okH := false
		rfn := p.Field("netceptor", "UnreachableNotification", "ReceivedFromNode")
		for _, a := range engine.FieldAccessesIn(hu, rfn) {
			if st, isS := a.Instr.(*ssa.Store); isS {
				if f, b := engine.FieldOfLoad(st.Val); f != nil && f.Name() == "FromNode" && b == ssa.Value(hu.Params[1]) {
					okH = true
				}
			}
		}
		pub := 0
		for _, ci := range callsTo(hu, "(*utils.Broker).Publish") {
			if f, _ := engine.FieldOfLoad(ci.Common().Args[0]); f != nil && f.Name() == "unreachableBroker" {
				pub++
			}
		}
		reserved := false
		if nw := p.Func("netceptor.NewWithConsts"); nw != nil {
			for _, b := range nw.Blocks {
				for _, in := range b.Instrs {
					if mu, isMU := in.(*ssa.MapUpdate); isMU {
						if k, isS := engine.ConstString(mu.Key); isS && k == "unreach" {
							if strings.Contains(mu.Value.String(), "handleUnreachable") {
								reserved = true
							}
						}
					}
				}
			}
		}
		r.Check("R2-transport", "handleUnreachable: publishes the notice with the relaying node; registered as reserved service 'unreach'", hu.Pos(), okH && pub == 1 && reserved,
			"the decoded notice is published on the node broker with ReceivedFromNode = md.FromNode", "handleUnreachable no longer publishes the notice (with its relaying node) on the node broker, or is not the 'unreach' reserved service")
	}
	// R3 per-socket filter
	{
		var pubFn *ssa.Function
		var pub ssa.Instruction
		var drainFns, unsubFns []*ssa.Function
		for _, an := range st.AnonFuncs {
			for _, ci := range engine.CallsIn(an) {
				if engine.IsCallTo(ci.Common(), "(*utils.Broker).Publish") {
					pubFn, pub = an, ci
				}
				if engine.IsCallTo(ci.Common(), "(*utils.Broker).Unsubscribe") {
					unsubFns = append(unsubFns, an)
				}
			}
			for _, b := range an.Blocks {
				for _, in := range b.Instrs {
					recv := false
					switch x := in.(type) {
					case *ssa.UnOp:
						if x.Op == token.ARROW && chanKey(x.X) == "iChan" {
							recv = true
						}
					case *ssa.Next:
						if chanKey(x.Iter) == "iChan" {
							recv = true
						}
					case *ssa.Select:
						for _, s := range x.States {
							if s.Dir == types.RecvOnly && chanKey(s.Chan) == "iChan" {
								recv = true
							}
						}
					}
					if recv {
						drainFns = append(drainFns, an)
					}
				}
			}
		}
		if pubFn == nil {
			r.Add("R3-socket-filter", "StartUnreachable: forwarder", st.Pos(), engine.Violated, "no goroutine publishing to the socket's own broker found")
		} else {
			fnode := p.Field("netceptor", "UnreachableMessage", "FromNode")
			fsvc := p.Field("netceptor", "UnreachableMessage", "FromService")
			localSvc := p.Field("netceptor", "PacketConn", "localService")
			isNodeID := func(v ssa.Value) bool {
				c, ok := v.(*ssa.Call)
				return ok && c.Common().IsInvoke() && c.Common().Method.Name() == "NodeID"
			}
			nodeEq, _ := valEqEdges(pubFn, fieldOrExtract(fnode), isNodeID)
			svcEq, _ := valEqEdges(pubFn, fieldOrExtract(fsvc), fieldLoadIs(localSvc))
			isPub := func(in ssa.Instruction) bool { return in == pub }
			ok1 := len(nodeEq) > 0 && engine.Reach(pubFn, nil, engine.EdgeSet{}.Add(nodeEq...), nil, isPub) == nil
			ok2 := len(svcEq) > 0 && engine.Reach(pubFn, nil, engine.EdgeSet{}.Add(svcEq...), nil, isPub) == nil
			r.Check("R3-socket-filter", "StartUnreachable: forwarded only if FromNode is this node", pub.Pos(), ok1, "the publish is unreachable once the FromNode == NodeID() edges are removed", "a socket forwards notices about packets that did not originate at this node")
			r.Check("R3-socket-filter", "StartUnreachable: forwarded only if FromService is this socket's service", pub.Pos(), ok2, "the publish is unreachable once the FromService == localService edges are removed", "a socket forwards notices meant for another socket of the node (every socket sees every notice)")
			// the published message is the received one
			// drain separation
			sep := len(drainFns) > 0 && len(unsubFns) > 0
			for _, d := range drainFns {
				for _, u := range unsubFns {
					if d == u {
						sep = false
					}
				}
			}
			r.Check("R3-socket-filter", "StartUnreachable: the goroutine draining the node-broker subscription never calls Unsubscribe", st.Pos(), sep,
				"unsubscribing (which waits for the broker) happens in a separate goroutine, so the subscription channel is always drained and the node-wide broker cannot wedge", "the goroutine that drains the subscription also calls Unsubscribe: while it waits for the broker nobody drains the channel, and a notice in flight wedges the node-wide unreachable broker (no socket gets notices any more)")
		}
	}
	// R4 monitorUnreachable
	monitorUnreachableRule(r, p, "R4-dial-cancel")
	// R5 DialContext: the cancel belongs to the context dialled with
	{
		var wc *ssa.Call
		for _, ci := range callsTo(dc, "context.WithCancel") {
			wc, _ = ci.(*ssa.Call)
		}
		ok := wc != nil
		why := "context.WithCancel not found in DialContext"
		if ok {
			cctx := callResult(wc, 0)
			ccan := callResult(wc, 1)
			isCctx := func(v ssa.Value) bool {
				v = engine.Unwrap(v)
				for _, c := range cctx {
					if v == c {
						return true
					}
				}
				if u, isU := v.(*ssa.UnOp); isU {
					if al, isA := u.X.(*ssa.Alloc); isA {
						if sv := storedVal(al); sv != nil {
							for _, c := range cctx {
								if sv == c {
									return true
								}
							}
						}
					}
				}
				return false
			}
			isCcan := func(v ssa.Value) bool {
				v = engine.Unwrap(v)
				for _, c := range ccan {
					if v == c {
						return true
					}
				}
				if u, isU := v.(*ssa.UnOp); isU {
					if al, isA := u.X.(*ssa.Alloc); isA {
						if sv := storedVal(al); sv != nil {
							for _, c := range ccan {
								if sv == c {
									return true
								}
							}
						}
					}
				}
				return false
			}
			nDial, nMon := 0, 0
			for _, ci := range engine.CallsIn(dc) {
				o := engine.CalleeObj(ci.Common())
				if o == nil {
					continue
				}
				switch o.Name() {
				case "Dial", "OpenStreamSync":
					if o.Pkg() != nil && strings.Contains(o.Pkg().Path(), "quic") {
						args := ci.Common().Args
						a := args[0]
						if !ci.Common().IsInvoke() {
							a = args[1]
						}
						if isCctx(a) {
							nDial++
						}
					}
				case "monitorUnreachable":
					if isCcan(ci.Common().Args[3]) {
						nMon++
					}
				}
			}
			if nDial != 2 || nMon != 1 {
				ok = false
				why = fmt.Sprintf("the context whose cancel function is handed to monitorUnreachable must be the one passed to tr.Dial and OpenStreamSync (found %d of 2 uses, %d monitor)", nDial, nMon)
			}
		}
		r.Check("R5-dial-context", "DialContext: the notice cancels the context the dial waits on", dc.Pos(), ok,
			"monitorUnreachable gets the cancel function of the very context passed to tr.Dial and qc.OpenStreamSync", why)
	}
}

// fieldOrExtract: a load of field f, or a local copy of it (msg.FromNode assigned to a variable).
func fieldOrExtract(f *types.Var) func(ssa.Value) bool {
	return func(v ssa.Value) bool {
		ff, _ := engine.FieldOfLoad(v)
		if ff == f {
			return true
		}
		if fx, ok := v.(*ssa.Field); ok {
			if st, ok := fx.X.Type().Underlying().(*types.Struct); ok && fx.Field < st.NumFields() {
				return st.Field(fx.Field) == f || promoted(fx, f)
			}
		}
		return false
	}
}

func promoted(fx *ssa.Field, f *types.Var) bool {
	// msg.FromNode where msg is UnreachableNotification embedding UnreachableMessage: Field(Field(msg,0), i)
	if inner, ok := fx.X.(*ssa.Field); ok {
		_ = inner
	}
	t := fx.X.Type()
	if st, ok := t.Underlying().(*types.Struct); ok && fx.Field < st.NumFields() {
		return st.Field(fx.Field) == f
	}
	return false
}
