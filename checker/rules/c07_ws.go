package rules

import (
	"fmt"
	"sort"
	"strings"

	"golang.org/x/tools/go/ssa"

	"rcheck/engine"
)

// wsSingleWriterRule (C07 O13): gorilla/websocket allows one concurrent writer per connection and
// panics ("concurrent write to websocket connection") otherwise. Each backend session has exactly
// one writer goroutine (protoWriter → Send/WriteMessage); the reader side (Recv/ReadMessage, driven
// by protoReader, fed by the peer) must therefore never write to the connection. Decided: the
// write methods of *websocket.Conn are called only from the frozen sender functions.
func wsSingleWriterRule(r *engine.Report, p *engine.Program, rule string) {
	writers := map[string]bool{"WriteMessage": true, "WriteControl": true, "WriteJSON": true, "NextWriter": true, "WritePreparedMessage": true}
	allowed := map[string]string{
		"(*backends.WebsocketSession).Send":             "the session's send side, called by protoWriter only",
		"(*netceptor.websocketMessageConn).WriteMessage": "the external-backend send side, called by protoWriter only",
	}
	var sites, bad []string
	p.AllInstrs(func(fn *ssa.Function, in ssa.Instruction) {
		if engine.IsMock(fn) {
			return
		}
		ci, ok := in.(ssa.CallInstruction)
		if !ok {
			return
		}
		o := engine.CalleeObj(ci.Common())
		if o == nil || o.Pkg() == nil || !writers[o.Name()] {
			return
		}
		isWS := strings.HasSuffix(o.Pkg().Path(), "gorilla/websocket")
		if ci.Common().IsInvoke() && ci.Common().Value.Type().String() == engine.ModPath+"/pkg/backends.Conner" {
			isWS = true // receptor's interface over *websocket.Conn
		}
		if !isWS {
			return
		}
		// method of *websocket.Conn (or of an interface wrapping it)
		name := engine.FuncName(engine.Outermost(fn))
		sites = append(sites, name)
		if allowed[name] == "" && privateHelperOf(p, engine.Outermost(fn), map[string]bool{"(*backends.WebsocketSession).Send": true, "(*netceptor.websocketMessageConn).WriteMessage": true}) == "" {
			bad = append(bad, name+" at "+p.Pos(in.Pos()))
		}
	})
	sort.Strings(sites)
	r.Check(rule, "websocket connections: write methods are called only from the send side", 0, len(bad) == 0 && len(sites) >= 2,
		fmt.Sprintf("%d write call site(s), all in the send functions %v: the reader side, which the peer drives, never writes", len(sites), sites),
		"a websocket write is issued from "+strings.Join(bad, ", ")+": it can overlap with the session's writer goroutine, and gorilla/websocket panics on concurrent writes — a peer sending an unexpected frame while the writer is busy kills the process")
}
