package rules

import (
	"fmt"
	"go/token"
	"go/types"
	"sort"

	"golang.org/x/tools/go/ssa"

	"rcheck/engine"
)

func init() { register("C01", c01) }

func c01(r *engine.Report, p *engine.Program) {
	r.Explanation = "Decides structural preconditions without which routing cannot converge to least-cost loop-free next hops — not the convergence itself: (R1) the set of functions that write the adjacency picture is frozen, and after every such write each path to the function's return (for removeConnection: of its callers) passes a request to rebuild the table, and a change of the neighbour set passes a request to flood; (R2) the next-hop table and the path-cost table are replaced inside one write section of routingTableLock while knownNodeLock is read-held, from the cost map the same computation filled; (R3) in handleRoutingUpdate the row of the local node is never written or pruned (only session establishment/removal write it) and an accepted update's epoch and sequence are recorded verbatim; (R4) every cost that can enter the shortest-path computation is positive (the label-correcting loop terminates and is correct only then); (R5) the next hop stored for a destination is a node whose predecessor is the local node, i.e. a direct neighbour, and the walk follows the predecessor chain. It does not decide that tables converge, within how many periods, or optimality under message delay."
	r.NotDecided = []string{"that tables converge and within how many update periods", "optimality of the result under message delay/interleaving", "idle-timeout detection timing", "behaviour of the priority queue library"}
	r.Assumptions = []string{"tickrunner runs the rebuild/flood action after a value is sent on its channel", "the label-correcting loop with positive weights yields least-cost predecessor chains"}
	urt := p.Func("(*netceptor.Netceptor).updateRoutingTable")
	hru := p.Func("(*netceptor.Netceptor).handleRoutingUpdate")
	rc := p.Func("(*netceptor.Netceptor).removeConnection")
	rp := p.Func("(*netceptor.Netceptor).runProtocol")
	if urt == nil || hru == nil || rc == nil || rp == nil {
		r.Broken("C01 anchors not found")
		return
	}
	fld := func(n string) *types.Var {
		v := p.Field("netceptor", "Netceptor", n)
		if v == nil {
			r.Broken("field Netceptor.%s not found", n)
		}
		return v
	}
	kcc, conns := fld("knownConnectionCosts"), fld("connections")
	rt, rpc := fld("routingTable"), fld("routingPathCosts")
	rtLock, knLock := fld("routingTableLock"), fld("knownNodeLock")
	urtChan, floodChan := fld("updateRoutingTableChan"), fld("sendRouteFloodChan")
	nodeID := fld("nodeID")
	if kcc == nil || conns == nil || rt == nil || rpc == nil || rtLock == nil || knLock == nil || urtChan == nil || floodChan == nil || nodeID == nil {
		return
	}
	// R1 writers of the adjacency picture
	writersOf := func(f *types.Var) map[*ssa.Function][]ssa.Instruction {
		out := map[*ssa.Function][]ssa.Instruction{}
		for _, a := range p.FieldAccesses(f) {
			if engine.IsMock(a.Fn) || engine.IsFreshAlloc(a.Base) {
				continue
			}
			if a.Kind == engine.AccMapUpdate || a.Kind == engine.AccMapDelete || a.Kind == engine.AccStore {
				out[a.Fn] = append(out[a.Fn], a.Instr)
			}
		}
		return out
	}
	kw := writersOf(kcc)
	want := []string{"(*netceptor.Netceptor).handleRoutingUpdate", "(*netceptor.Netceptor).removeConnection", "(*netceptor.Netceptor).runProtocol"}
	{
		// a private helper extracted from a frozen writer is that writer's own code: its writes
		// are attributed to the call sites in the writer
		wantSet := map[string]bool{}
		for _, w := range want {
			wantSet[w] = true
		}
		for fn := range kw {
			if wantSet[engine.FuncName(fn)] {
				continue
			}
			if owner := privateHelperOf(p, fn, wantSet); owner != "" {
				if of := p.Func(owner); of != nil {
					delete(kw, fn)
					kw[of] = fieldWriteSitesIn(p, of, kcc, false)
				}
			}
		}
	}
	var names []string
	for fn := range kw {
		names = append(names, engine.FuncName(fn))
	}
	sort.Strings(names)
	r.Check("R1-rebuild-requested", "knownConnectionCosts: writers", token.NoPos, setEq(names, want), fmt.Sprintf("writers are exactly %v", want), fmt.Sprintf("writers are %v, frozen table is %v", names, want))
	sendsOn := func(fn *ssa.Function, ch *types.Var) []ssa.Instruction {
		var out []ssa.Instruction
		for _, a := range engine.FieldAccessesIn(fn, ch) {
			if a.Kind == engine.AccSend {
				out = append(out, a.Instr)
			}
		}
		for _, an := range fn.AnonFuncs {
			_ = an
		}
		return out
	}
	// shutdown arms: a select that also has a Done() receive — after such a select the path may end
	// without the request only on its Done arm; treat the select containing the send as the barrier
	// (the send is one arm; the other arms are context cancellation = shutdown).
	checkAfterWrites := func(fn *ssa.Function, writes []ssa.Instruction, ch *types.Var, what string, extraBarrier func(ssa.Instruction) bool) {
		sends := sendsOn(fn, ch)
		// deferred closure sends (runProtocol's defer)
		for _, an := range fn.AnonFuncs {
			if len(sendsOn(an, ch)) > 0 {
				for _, ci := range engine.CallsIn(fn) {
					if d, ok := ci.(*ssa.Defer); ok {
						if mc, ok := d.Common().Value.(*ssa.MakeClosure); ok && mc.Fn == ssa.Value(an) {
							// a deferred request runs at every return: returns are covered
							sends = append(sends, rundefersOf(fn)...)
						}
					}
				}
			}
		}
		isReq := func(in ssa.Instruction) bool {
			if isOneOf(in, sends) {
				return true
			}
			return extraBarrier != nil && extraBarrier(in)
		}
		for i, w := range writes {
			bad := engine.Reach(fn, w, nil, isReq, func(in ssa.Instruction) bool { _, ok := in.(*ssa.Return); return ok })
			r.Check("R1-rebuild-requested", fmt.Sprintf("%s: %s after adjacency write #%d", engine.FuncName(fn), what, i), w.Pos(), bad == nil && len(sends) > 0,
				"every path from this write to a return passes the request (a select arm next to context cancellation)", "after changing the adjacency picture a path returns without requesting "+what+": the routing table keeps stale next hops until some unrelated event")
		}
	}
	// handleRoutingUpdate: writes → updateRoutingTableChan
	checkAfterWrites(hru, kw[hru], urtChan, "a table rebuild", nil)
	// runProtocol establish block: writes → both requests (flood + rebuild); the deferred closure covers returns only when established,
	// so require the explicit sends that follow the establish writes
	checkAfterWrites(rp, kw[rp], urtChan, "a table rebuild", func(in ssa.Instruction) bool {
		// a removeConnection call on a failing arm undoes the write; the deferred closure then requests the rebuild if established
		ci, ok := in.(ssa.CallInstruction)
		return ok && engine.IsCallTo(ci.Common(), "(*netceptor.Netceptor).removeConnection")
	})
	checkAfterWrites(rp, kw[rp], floodChan, "a routing-update flood", func(in ssa.Instruction) bool {
		ci, ok := in.(ssa.CallInstruction)
		return ok && engine.IsCallTo(ci.Common(), "(*netceptor.Netceptor).removeConnection")
	})
	// removeConnection: its callers (runProtocol) request the rebuild: after each call, on established sessions the deferred closure sends both
	{
		var deferSends int
		for _, an := range rp.AnonFuncs {
			deferSends += len(sendsOn(an, urtChan)) + len(sendsOn(an, floodChan))
		}
		isDeferred := false
		for _, ci := range engine.CallsIn(rp) {
			if d, ok := ci.(*ssa.Defer); ok {
				if mc, ok := d.Common().Value.(*ssa.MakeClosure); ok {
					cl := mc.Fn.(*ssa.Function)
					if len(sendsOn(cl, urtChan)) == 1 && len(sendsOn(cl, floodChan)) == 1 {
						isDeferred = true
						// both sends are guarded only by 'established' and context cancellation
						est, _ := engine.CondEdges(cl, func(c ssa.Value) (bool, bool) { return loadOfCell(c) != nil && c.Type().String() == "bool", true })
						if len(est) == 0 {
							isDeferred = false
						}
					}
				}
			}
		}
		r.Check("R1-rebuild-requested", "runProtocol: session end requests flood + rebuild (deferred, when established)", rp.Pos(), isDeferred && deferSends == 2,
			"a deferred closure sends on sendRouteFloodChan and updateRoutingTableChan whenever the session had been established", "the end of an established session no longer requests a flood and a table rebuild: neighbours and the local table keep the dead link")
		checkCallers(r, p, "R1-rebuild-requested", "(*netceptor.Netceptor).removeConnection", "(*netceptor.Netceptor).runProtocol")
	}
	r.Min("R1-rebuild-requested", 6)

	// R2 atomic replacement of table + costs
	{
		var rtStore, rpcStore ssa.Instruction
		for _, a := range engine.FieldAccessesIn(urt, rt) {
			if a.Kind == engine.AccStore {
				rtStore = a.Instr
			}
		}
		for _, a := range engine.FieldAccessesIn(urt, rpc) {
			if a.Kind == engine.AccStore {
				rpcStore = a.Instr
			}
		}
		ok := rtStore != nil && rpcStore != nil
		why := "updateRoutingTable no longer replaces both routingTable and routingPathCosts"
		if ok {
			lf := p.Locks(urt)
			h1, h2 := lf.HeldAt(rtStore), lf.HeldAt(rpcStore)
			var rtKey, knKey string
			for _, op := range lf.Ops() {
				if op.Acquire && op.Path.Last() == rtLock {
					rtKey = op.Path.String()
				}
				if op.Acquire && op.Path.Last() == knLock {
					knKey = op.Path.String()
				}
			}
			if h1[rtKey] != engine.LockW || h2[rtKey] != engine.LockW {
				ok = false
				why = "next hops and path costs are not both replaced with the routingTableLock write lock held"
			}
			if _, held := h1[knKey]; !held {
				ok = false
				why = "the adjacency picture is not read-locked while the table is computed and installed"
			}
			// no release of routingTableLock between the two stores
			for _, op := range lf.Ops() {
				if op.Acquire || op.Deferred || op.Path.Last() != rtLock {
					continue
				}
				u := op.Call.(ssa.Instruction)
				if engine.Reach(urt, rtStore, nil, func(in ssa.Instruction) bool { return in == rpcStore }, func(in ssa.Instruction) bool { return in == u }) != nil {
					ok = false
					why = "routingTableLock is released between installing the next hops and installing the path costs: a reader can see costs of one computation with hops of another"
				}
			}
			// the costs installed are the cost map of this computation (a MakeMap of this function)
			if st, isS := rpcStore.(*ssa.Store); isS {
				if _, isMk := engine.Unwrap(st.Val).(*ssa.MakeMap); !isMk {
					ok = false
					why = "routingPathCosts is not replaced by the cost map this computation filled"
				}
			}
		}
		r.Check("R2-atomic-install", "updateRoutingTable: next hops and path costs installed in one write section", urt.Pos(), ok,
			"both stores run with routingTableLock write-held (no release in between) and knownNodeLock read-held; the costs are this run's cost map", why)
		guardedBy(r, p, "R2-guarded-by", rt, rtLock, callerHolds{"(*netceptor.Netceptor).printRoutingTable": "holds: documented, called from updateRoutingTable with both locks held"})
		guardedBy(r, p, "R2-guarded-by", rpc, rtLock, nil)
		guardedBy(r, p, "R2-guarded-by", conns, fld("connLock"), nil)
	}

	// R3 own row untouched by received updates; epoch/sequence recorded verbatim
	{
		ri := hru.Params[1]
		uNode := p.Field("netceptor", "routingUpdate", "NodeID")
		selfEq, _ := valEqEdges(hru, func(v ssa.Value) bool { f, b := engine.FieldOfLoad(v); return f == uNode && b == ssa.Value(ri) }, fieldLoadIs(nodeID))
		// (a) row writes keyed by ri.NodeID are unreachable on the self edge (checked by C06 too)
		okRow := len(selfEq) > 0
		for _, w := range kw[hru] {
			for _, e := range selfEq {
				if reachFromEdge(hru, e, nil, nil, func(in ssa.Instruction) bool { return in == w }) != nil {
					okRow = false
				}
			}
		}
		r.Check("R3-own-row", "handleRoutingUpdate: no adjacency write for an update naming the local node", hru.Pos(), okRow,
			"from the ri.NodeID == s.nodeID edge no write to knownConnectionCosts is reachable", "an update naming this node as origin can overwrite the local adjacency row")
		// (b) prune deletes: the row being pruned is never the local node's
		var prunes []ssa.Instruction
		for _, a := range engine.FieldAccessesIn(hru, kcc) {
			if a.Kind == engine.AccMapDelete {
				prunes = append(prunes, a.Instr)
			}
		}
		okPrune := len(prunes) > 0
		for _, d := range prunes {
			// the row map deleted from is knownConnectionCosts[conn]; conn must be != s.nodeID on every path
			call := d.(ssa.CallInstruction)
			var rowKey ssa.Value
			if lk, ok := engine.Unwrap(call.Common().Args[0]).(*ssa.Lookup); ok {
				rowKey = lk.Index
			} else if e, ok := engine.Unwrap(call.Common().Args[0]).(*ssa.Extract); ok {
				if nx, ok := e.Tuple.(*ssa.Next); ok && e.Index == 2 {
					// range value variable: the key is extract #1 of the same Next
					for _, rr := range *nx.Referrers() {
						if e2, ok := rr.(*ssa.Extract); ok && e2.Index == 1 {
							rowKey = e2
						}
					}
					if rowKey == nil {
						okPrune = false
					}
				} else if lk, ok := e.Tuple.(*ssa.Lookup); ok {
					rowKey = lk.Index
				}
			}
			if rowKey == nil {
				okPrune = false
				continue
			}
			_, ne := valEqEdges(hru, func(v ssa.Value) bool { return v == rowKey }, fieldLoadIs(nodeID))
			if len(ne) == 0 || engine.Reach(hru, nil, engine.EdgeSet{}.Add(ne...), nil, func(in ssa.Instruction) bool { return in == d }) != nil {
				okPrune = false
			}
		}
		r.Check("R3-own-row", "handleRoutingUpdate: reverse-edge pruning skips the local node's row", hru.Pos(), okPrune,
			"every delete from a row knownConnectionCosts[x] is unreachable unless x != s.nodeID was established", "pruning can delete an entry of the local node's own adjacency row: a delayed update from a neighbour that predates the direct link removes the link from the local picture while the session stays up, and nothing restores it")
		// (c) verbatim epoch/sequence
		uEpoch, uSeq := p.Field("netceptor", "routingUpdate", "UpdateEpoch"), p.Field("netceptor", "routingUpdate", "UpdateSequence")
		nEpoch, nSeq := p.Field("netceptor", "nodeInfo", "Epoch"), p.Field("netceptor", "nodeInfo", "Sequence")
		okV := true
		n := 0
		for _, pair := range [][2]*types.Var{{nEpoch, uEpoch}, {nSeq, uSeq}} {
			for _, a := range engine.FieldAccessesIn(hru, pair[0]) {
				if st, ok := a.Instr.(*ssa.Store); ok && a.Kind == engine.AccStore {
					n++
					f, b := engine.FieldOfLoad(st.Val)
					if f != pair[1] || b != ssa.Value(ri) {
						okV = false
					}
				}
			}
		}
		r.Check("R3-own-row", "handleRoutingUpdate: the accepted update's epoch and sequence are recorded verbatim", hru.Pos(), okV && n >= 4,
			"every store to nodeInfo.Epoch/Sequence stores ri.UpdateEpoch/ri.UpdateSequence itself", "the recorded epoch/sequence is not the accepted update's own value (e.g. a max with the old one): after a restart of the origin its new, lower sequence numbers are rejected until they pass the old ones, so its adjacency changes are ignored")
	}

	// R3d the "did the adjacency change?" decision looks at costs, not only at the neighbour set
	{
		ri := hru.Params[1]
		connF := p.Field("netceptor", "routingUpdate", "Connections")
		fromAdvert := func(v ssa.Value) bool {
			f, b := engine.FieldOfLoad(v)
			return f == connF && b == ssa.Value(ri)
		}
		fromStored := func(v ssa.Value) bool { return derivesFromField(v, kcc) }
		ok := false
		for _, ci := range engine.CallsIn(hru) {
			if engine.IsCallTo(ci.Common(), "reflect.DeepEqual", "maps.Equal") {
				a := ci.Common().Args
				if len(a) == 2 && ((fromAdvert(engine.Unwrap(a[0])) && fromStored(engine.Unwrap(a[1]))) || (fromAdvert(engine.Unwrap(a[1])) && fromStored(engine.Unwrap(a[0])))) {
					ok = true
				}
			}
		}
		if !ok {
			// a hand-written comparison: some == / != between a cost of the advertised map and a cost of the stored row
			isAdvCost := func(v ssa.Value) bool {
				v = engine.Unwrap(v)
				if v.Type().String() != "float64" {
					return false
				}
				return derivesFromField(v, connF)
			}
			isStoredCost := func(v ssa.Value) bool {
				v = engine.Unwrap(v)
				return v.Type().String() == "float64" && derivesFromField(v, kcc)
			}
			for _, b := range hru.Blocks {
				for _, in := range b.Instrs {
					if bo, isB := in.(*ssa.BinOp); isB && (bo.Op == token.EQL || bo.Op == token.NEQ) {
						if (isAdvCost(bo.X) && isStoredCost(bo.Y)) || (isAdvCost(bo.Y) && isStoredCost(bo.X)) {
							ok = true
						}
					}
				}
			}
		}
		r.Check("R3-own-row", "handleRoutingUpdate: the change test compares neighbour costs, not only the neighbour set", hru.Pos(), ok,
			"the advertised adjacency is compared with the stored row including costs (reflect.DeepEqual / per-cost comparison)", "whether an accepted update replaces the stored adjacency is decided without comparing costs: a cost-only change is never applied and no rebuild is requested, so path costs and next hops stay stale for good")
	}
	// R1b idle detection: the activity timestamp is written only when something was RECEIVED
	{
		lrd := p.Field("netceptor", "connInfo", "lastReceivedData")
		var writers []string
		for _, a := range p.FieldAccesses(lrd) {
			if a.Kind == engine.AccStore && !engine.IsMock(a.Fn) && !engine.IsFreshAlloc(a.Base) {
				writers = append(writers, engine.FuncName(a.Fn))
			}
		}
		sort.Strings(writers)
		okW := len(writers) == 1 && writers[0] == "(*netceptor.connInfo).protoReader"
		if okW {
			// and only after a successful Recv
			pr := p.Func("(*netceptor.connInfo).protoReader")
			var recv *ssa.Call
			for _, ci := range engine.CallsIn(pr) {
				if ci.Common().IsInvoke() && ci.Common().Method.Name() == "Recv" {
					recv, _ = ci.(*ssa.Call)
				}
			}
			if recv == nil {
				okW = false
			} else {
				cut, tested := assumeFails(pr, recv)
				var st ssa.Instruction
				for _, a := range engine.FieldAccessesIn(pr, lrd) {
					if a.Kind == engine.AccStore {
						st = a.Instr
					}
				}
				okW = tested && engine.Reach(pr, recv, cut, nil, func(in ssa.Instruction) bool { return in == st }) == nil
			}
		}
		r.Check("R1-rebuild-requested", "connInfo.lastReceivedData: written only by protoReader after a successful Recv", token.NoPos, okW,
			"the idle detector's timestamp advances only when data was received from the peer", fmt.Sprintf("the activity timestamp is written in %v / without a successful receive: a session that accepts writes but delivers nothing is never timed out, so a silently failed link stays in the routing tables", writers))
	}

	// R4 positive costs
	costPositivity(r, p, "R4-positive-costs")

	// R5 next hop is a direct neighbour on the predecessor chain
	{
		var hopStore *ssa.MapUpdate
		for _, a := range engine.FieldAccessesIn(urt, rt) {
			if mu, ok := a.Instr.(*ssa.MapUpdate); ok {
				hopStore = mu
			}
		}
		ok := hopStore != nil
		why := "no store routingTable[dest] = hop found"
		if ok {
			// the value stored p satisfies prev[p] == s.nodeID on the dominating edge
			hop := hopStore.Value
			isPrevOfHop := func(v ssa.Value) bool {
				lk, ok := v.(*ssa.Lookup)
				return ok && lk.Index == hop && !lk.CommaOk
			}
			eq, _ := valEqEdges(urt, isPrevOfHop, fieldLoadIs(nodeID))
			if len(eq) == 0 || engine.Reach(urt, nil, engine.EdgeSet{}.Add(eq...), nil, func(in ssa.Instruction) bool { return in == ssa.Instruction(hopStore) }) != nil {
				ok = false
				why = "a next hop can be stored whose predecessor is not the local node: the hop is not a direct neighbour"
			}
			// the walk: hop is a phi of dest and prev[hop]
			if ph, isPhi := hop.(*ssa.Phi); isPhi {
				chain := false
				for _, e := range ph.Edges {
					if lk, isLk := e.(*ssa.Lookup); isLk && lk.Index == ssa.Value(ph) {
						chain = true
					}
				}
				if !chain {
					ok = false
					why = "the walk from the destination does not follow prev[] of the current node"
				}
				// key stored under = the destination the walk started from
				start := false
				for _, e := range ph.Edges {
					if e == hopStore.Key {
						start = true
					}
				}
				if !start {
					ok = false
					why = "the table entry is stored under a key other than the destination the walk started from"
				}
			} else {
				ok = false
				why = "the next hop is not computed by walking the predecessor chain"
			}
		}
		r.Check("R5-direct-neighbour", "updateRoutingTable: routingTable[dest] = the node on dest's predecessor chain whose predecessor is the local node", urt.Pos(), ok,
			"the store is reachable only on the edge prev[p] == s.nodeID, p walks dest, prev[dest], …", why)
		// relaxation uses strict improvement and records the predecessor with the cost
		relax := false
		for _, b := range urt.Blocks {
			for _, in := range b.Instrs {
				if bo, isB := in.(*ssa.BinOp); isB && (bo.Op == token.LSS || bo.Op == token.GTR) {
					sum := bo.X
					if bo.Op == token.GTR {
						sum = bo.Y
					}
					if add, isAdd := sum.(*ssa.BinOp); isAdd && add.Op == token.ADD {
						relax = true
					}
				}
			}
		}
		r.Check("R5-direct-neighbour", "updateRoutingTable: relaxation on strict improvement (cost[node]+edge < cost[neighbour])", urt.Pos(), relax, "a strict comparison with the sum cost[node]+edge on the smaller side guards the update", "no strict comparison 'cost[node]+edge < cost[neighbour]' guards the relaxation (a non-strict test lets equal-cost paths flip the predecessor forever)")
	}
	ownAdvertRules(r, p)
	{
		okA, whyA := adjacencyAfterInsertion(p)
		r.Check("R7-no-collateral-removal", "runProtocol: the link's cost rows are written only after the session was admitted to the connection table", token.NoPos, okA,
			"no write of knownConnectionCosts in runProtocol is reachable before the insertion into connections", whyA)
		// lock order among the Netceptor locks, channel hand-offs included (shared with C07-O6)
		var scope []*ssa.Function
		for _, fn := range p.Funcs() {
			if inPkg(fn, "netceptor") && !engine.IsMock(fn) {
				scope = append(scope, fn)
			}
		}
		lockOrderRule(r, p, "R2-lock-order", scope, netceptorLockFields(p))
	}
	// R7 the local row stays truthful: a session that is merely being refused never removes the
	// adjacency of the live session with the same peer (shared with C11-R4 / C07-O8)
	if rp := p.Func("(*netceptor.Netceptor).runProtocol"); rp != nil {
		conns := p.Field("netceptor", "Netceptor", "connections")
		var ins *ssa.MapUpdate
		for _, a := range engine.FieldAccessesIn(rp, conns) {
			if mu, ok := a.Instr.(*ssa.MapUpdate); ok {
				ins = mu
			}
		}
		if ins != nil {
			noEarlyRemoval(r, p, "R7-no-collateral-removal", rp, ins, engine.Unwrap(ins.Key), removalsIn(p, rp, removalWrappers(p)))
		} else {
			r.Add("R7-no-collateral-removal", "runProtocol: connection-table insertion", rp.Pos(), engine.Violated, "insertion site not found")
		}
	}
}

// ownAdvertRules (C01 R6): what this node tells the others about itself is exactly its connection
// table — every established neighbour with its cost — stamped with its own ID, epoch and the
// incremented sequence; and a neighbour that stays silent longer than the idle limit is cancelled.
func ownAdvertRules(r *engine.Report, p *engine.Program) {
	mru := p.Func("(*netceptor.Netceptor).makeRoutingUpdate")
	aging := p.Func("(*netceptor.Netceptor).monitorConnectionAging")
	conns := p.Field("netceptor", "Netceptor", "connections")
	if mru == nil || aging == nil || conns == nil {
		r.Broken("makeRoutingUpdate / monitorConnectionAging not found")
		return
	}
	// (a) Connections[k] = s.connections[k].Cost for every k of the range
	{
		var rng *ssa.Range
		for _, a := range engine.FieldAccessesIn(mru, conns) {
			if a.Kind == engine.AccRange {
				rng, _ = a.Instr.(*ssa.Range)
			}
		}
		var upd *ssa.MapUpdate
		for _, b := range mru.Blocks {
			for _, in := range b.Instrs {
				if mu, ok := in.(*ssa.MapUpdate); ok {
					if _, isMk := engine.Unwrap(mu.Map).(*ssa.MakeMap); isMk {
						upd = mu
					}
				}
			}
		}
		ok, why := rng != nil && upd != nil, "the range over s.connections or the store into the advertised map was not found"
		if ok {
			// key of the store is the range key
			keyOK := false
			if e, isE := engine.Unwrap(upd.Key).(*ssa.Extract); isE && e.Index == 1 {
				if nx, isN := e.Tuple.(*ssa.Next); isN && nx.Iter == ssa.Value(rng) {
					keyOK = true
				}
			}
			// value is field Cost of connections[key] (or of the range value)
			valOK := false
			if f, base := engine.FieldOfLoad(upd.Value); f != nil && f.Name() == "Cost" {
				switch b := engine.Unwrap(base).(type) {
				case *ssa.Lookup:
					if fl, _ := engine.FieldOfLoad(b.X); fl == conns && engine.Unwrap(b.Index) == engine.Unwrap(upd.Key) {
						valOK = true
					}
				case *ssa.Extract:
					if nx, isN := b.Tuple.(*ssa.Next); isN && nx.Iter == ssa.Value(rng) && b.Index == 2 {
						valOK = true
					}
				}
			}
			if !keyOK || !valOK {
				ok = false
				why = "the advertised map is not filled with key = neighbour ID and value = that neighbour's Cost"
			}
			// no filter: from the 'has next' edge the loop cannot come back to Next without the store
			if ok {
				var nxt *ssa.Next
				for _, rr := range *rng.Referrers() {
					if n, isN := rr.(*ssa.Next); isN {
						nxt = n
					}
				}
				has, _ := engine.CondEdges(mru, func(c ssa.Value) (bool, bool) {
					e, isE := c.(*ssa.Extract)
					return isE && e.Index == 0 && nxt != nil && e.Tuple == ssa.Value(nxt), true
				})
				if len(has) == 0 {
					ok, why = false, "loop structure not recognised"
				}
				for _, e := range has {
					if reachFromEdge(mru, e, nil, func(in ssa.Instruction) bool { return in == ssa.Instruction(upd) }, func(in ssa.Instruction) bool {
						if in == ssa.Instruction(nxt) {
							return true
						}
						_, isR := in.(*ssa.Return)
						return isR
					}) != nil {
						ok, why = false, "an iteration of the range over s.connections can end without advertising that neighbour (a filter or early exit): the others compute routes from an incomplete adjacency"
					}
				}
			}
		}
		r.Check("R6-own-advert", "makeRoutingUpdate: advertises every entry of connections with its cost", mru.Pos(), ok,
			"Connections[k] = connections[k].Cost for every key of the range, no iteration skips the store", why)
		// stamped fields
		want := map[string]string{"NodeID": "nodeID", "UpdateEpoch": "epoch", "UpdateSequence": "sequence", "ForwardingNode": "nodeID"}
		got := map[string]string{}
		for name := range want {
			uf := p.Field("netceptor", "routingUpdate", name)
			for _, a := range engine.FieldAccessesIn(mru, uf) {
				if st, isS := a.Instr.(*ssa.Store); isS && a.Kind == engine.AccStore {
					if f, _ := engine.FieldOfLoad(st.Val); f != nil {
						got[name] = f.Name()
					}
				}
			}
		}
		okF := true
		for k, v := range want {
			if got[k] != v {
				okF = false
			}
		}
		// the map stored in Connections is the one filled above
		if upd != nil {
			cf := p.Field("netceptor", "routingUpdate", "Connections")
			okC := false
			for _, a := range engine.FieldAccessesIn(mru, cf) {
				if st, isS := a.Instr.(*ssa.Store); isS && engine.Unwrap(st.Val) == engine.Unwrap(upd.Map) {
					okC = true
				}
			}
			okF = okF && okC
		}
		r.Check("R6-own-advert", "makeRoutingUpdate: update stamped with own ID, epoch, incremented sequence; carries the map just built", mru.Pos(), okF,
			fmt.Sprintf("field wiring %v", got), fmt.Sprintf("field wiring is %v, expected %v with Connections = the map built from s.connections", got, want))
	}
	// (b) idle neighbours are cancelled
	{
		lrd := p.Field("netceptor", "connInfo", "lastReceivedData")
		maxIdle := p.Field("netceptor", "Netceptor", "maxConnectionIdleTime")
		cancelF := p.Field("netceptor", "connInfo", "CancelFunc")
		var since *ssa.Call
		agingFn := aging // the function holding the idle test: monitorConnectionAging or a private helper of it
		cands := []*ssa.Function{aging}
		for _, ci := range engine.CallsIn(aging) {
			if c := ci.Common().StaticCallee(); c != nil && inPkg(c, "netceptor") && len(c.Blocks) > 0 && privateHelperOf(p, c, map[string]bool{"(*netceptor.Netceptor).monitorConnectionAging": true}) != "" {
				cands = append(cands, c)
			}
		}
		for _, f := range cands {
			for _, ci := range callsTo(f, "time.Since") {
				if fl, _ := engine.FieldOfLoad(ci.Common().Args[0]); fl == lrd {
					since, _ = ci.(*ssa.Call)
					agingFn = f
				}
			}
		}
		caller := aging
		aging := agingFn
		ok, why := since != nil, "no time.Since(connInfo.lastReceivedData) found"
		if ok {
			var collect ssa.Instruction
			for _, b := range aging.Blocks {
				for _, in := range b.Instrs {
					if mu, isMU := in.(*ssa.MapUpdate); isMU {
						if f, _ := engine.FieldOfLoad(mu.Value); f == cancelF {
							collect = in
						}
					}
				}
			}
			// edge taken when since > maxIdle reaches the collection; the other edge does not
			var over, under []engine.Edge
			for _, i := range engine.Ifs(aging) {
				bo, isB := i.Cond.(*ssa.BinOp)
				if !isB {
					continue
				}
				op := bo.Op
				x, y := bo.X, bo.Y
				if engine.Unwrap(y) == ssa.Value(since) {
					x, y = y, x
					op = flipOp(op)
				}
				if engine.Unwrap(x) != ssa.Value(since) {
					continue
				}
				if f, _ := engine.FieldOfLoad(y); f != maxIdle {
					continue
				}
				switch op {
				case token.GTR, token.GEQ:
					over = append(over, engine.Edge{From: i.Block(), Succ: 0})
					under = append(under, engine.Edge{From: i.Block(), Succ: 1})
				case token.LSS, token.LEQ:
					over = append(over, engine.Edge{From: i.Block(), Succ: 1})
					under = append(under, engine.Edge{From: i.Block(), Succ: 0})
				}
			}
			if collect == nil || len(over) == 0 {
				ok, why = false, "the comparison of the idle time with maxConnectionIdleTime, or the collection of the connection's CancelFunc, was not found"
			} else {
				// next iteration / loop exit reached from the 'over' edge without collecting?
				isCollect := func(in ssa.Instruction) bool { return in == collect }
				for _, e := range over {
					if reachFromEdge(aging, e, nil, isCollect, func(in ssa.Instruction) bool {
						_, isNext := in.(*ssa.Next)
						return isNext
					}) != nil {
						ok, why = false, "a connection idle for longer than the limit is not always collected for cancellation"
					}
				}
				// every collected func is called: a range over the collected map whose element is called
				called := false
				isCollected := func(m ssa.Value) bool {
					m = engine.Unwrap(m)
					if m == engine.Unwrap(collect.(*ssa.MapUpdate).Map) {
						return true
					}
					// the map returned by the helper that collected
					if c, isC := m.(*ssa.Call); isC && c.Common().StaticCallee() == aging && caller != aging {
						for _, ret := range engine.Returns(aging) {
							for _, res := range ret.Results {
								if engine.Unwrap(res) == engine.Unwrap(collect.(*ssa.MapUpdate).Map) {
									return true
								}
							}
						}
					}
					return false
				}
				for _, ci := range engine.CallsIn(caller) {
					if lk, isL := engine.Unwrap(ci.Common().Value).(*ssa.Lookup); isL && isCollected(lk.X) {
						called = true
					}
					if e, isE := engine.Unwrap(ci.Common().Value).(*ssa.Extract); isE && e.Index == 2 {
						if nx, isN := e.Tuple.(*ssa.Next); isN {
							if rg, isR := nx.Iter.(*ssa.Range); isR && isCollected(rg.X) {
								called = true
							}
						}
					}
				}
				if ok && !called {
					ok, why = false, "the collected cancel functions are not called"
				}
			}
		}
		r.Check("R6-own-advert", "monitorConnectionAging: a neighbour silent for longer than maxConnectionIdleTime is cancelled", aging.Pos(), ok,
			"on the edge time.Since(lastReceivedData) > maxConnectionIdleTime the connection's own CancelFunc is collected, and every collected function is called", why)
	}
}

func rundefersOf(fn *ssa.Function) []ssa.Instruction {
	var out []ssa.Instruction
	for _, b := range fn.Blocks {
		for _, in := range b.Instrs {
			if _, ok := in.(*ssa.RunDefers); ok {
				out = append(out, in)
			}
		}
	}
	return out
}
