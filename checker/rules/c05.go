package rules

import (
	"fmt"
	"go/token"
	"strings"
	"syscall"

	"golang.org/x/tools/go/ssa"

	"rcheck/engine"
)

func init() { register("C05", c05) }

// cellOf: the Alloc that a local variable captured by closures lives in, given a load of it.
func loadOfCell(v ssa.Value) ssa.Value {
	if u, ok := v.(*ssa.UnOp); ok && u.Op == token.MUL {
		switch u.X.(type) {
		case *ssa.Alloc, *ssa.FreeVar:
			return u.X
		}
	}
	return nil
}

func c05(r *engine.Report, p *engine.Program) {
	r.Explanation = "Decides structural clauses of the results stream: in the GetResults goroutine the stream can end normally (after an end-of-file from the output file) only when the unit's state is complete AND the read position has reached the StdoutSize recorded in the unit's status — not the size of the local file, which for remote work lags behind; the position passed to Seek is the running position, which advances by exactly the count of the Read whose buffer slice buf[:n] is what is sent; the result channel is closed only through a sync.Once. In the remote mirror the offset requested is the current size of the local copy, the local copy is opened append-only and never truncated, the loop ends normally only when the state is complete and the local size has reached the remote size, the bytes copied come from the same buffered reader that consumed the reply header, and transfer errors retry instead of ending the mirror. WriteToConn forwards each channel element unchanged and stops on a write error. It does not decide gap/repeat freedom under producer timing or reconnect sequences, nor that the stream does end."
	r.NotDecided = []string{"gap/repeat freedom under concurrent producer timing", "behaviour across reconnect sequences at run time", "that the stream does end (liveness; a cancelled unit is not 'complete')"}
	r.Assumptions = []string{"os.File.Read returns 0 <= n <= len(buf)", "O_APPEND writes go to the end of the file", "bufio.Reader may hold bytes that arrived with the header line"}
	gr := p.Func("(*workceptor.Workceptor).GetResults")
	mrs := p.Func("(*workceptor.remoteUnit).monitorRemoteStdout")
	wtc := p.Func("(*controlsvc.SockControl).WriteToConn")
	if gr == nil || mrs == nil || wtc == nil || len(gr.AnonFuncs) == 0 {
		r.Broken("C05 anchors not found")
		return
	}
	// the streaming goroutine: the closure that calls (*os.File).Read
	var G *ssa.Function
	var walk func(f *ssa.Function)
	walk = func(f *ssa.Function) {
		if len(callsTo(f, "(*os.File).Read")) > 0 {
			G = f
		}
		for _, a := range f.AnonFuncs {
			walk(a)
		}
	}
	walk(gr)
	if G == nil {
		r.Add("R1-completion", "GetResults: streaming goroutine", gr.Pos(), engine.Violated, "no closure of GetResults reads the output file")
		return
	}
	read := callsTo(G, "(*os.File).Read")[0].(*ssa.Call)
	seeks := callsTo(G, "(*os.File).Seek")
	stdoutSize := p.Field("workceptor", "StatusFileData", "StdoutSize")
	stateF := p.Field("workceptor", "StatusFileData", "State")
	// R1: after EOF, a return without going round the loop needs IsComplete ∧ filePos >= status.StdoutSize
	{
		// edges err == io.EOF
		isEOF := func(v ssa.Value) bool {
			u, ok := v.(*ssa.UnOp)
			if !ok {
				return false
			}
			g, ok := u.X.(*ssa.Global)
			return ok && g.Name() == "EOF" && g.Pkg.Pkg.Path() == "io"
		}
		isErrCell := func(v ssa.Value) bool { return v.Type().String() == "error" && !isEOF(v) }
		eofE, _ := valEqEdges(G, isErrCell, isEOF)
		var complT []engine.Edge
		var statusCalls []ssa.Value
		for _, ci := range callsTo(G, "workceptor.IsComplete") {
			t, _ := engine.CondEdges(G, func(c ssa.Value) (bool, bool) { return c == ci.(ssa.Value), true })
			// only IsComplete(status.State)
			if f, b := engine.FieldOfLoad(ci.Common().Args[0]); f == stateF {
				complT = append(complT, t...)
				statusCalls = append(statusCalls, b)
			}
		}
		// filePos >= unitStatus.StdoutSize
		var sizeBases []ssa.Value
		posGE, _ := engine.CondEdges(G, func(c ssa.Value) (bool, bool) {
			bo, ok := c.(*ssa.BinOp)
			if !ok {
				return false, false
			}
			fy, by := engine.FieldOfLoad(bo.Y)
			fx, bx := engine.FieldOfLoad(bo.X)
			switch {
			case fy == stdoutSize && statusFrom(by):
				sizeBases = append(sizeBases, by)
				return bo.Op == token.GEQ || bo.Op == token.LSS, bo.Op == token.GEQ
			case fx == stdoutSize && statusFrom(bx):
				sizeBases = append(sizeBases, bx)
				return bo.Op == token.LEQ || bo.Op == token.GTR, bo.Op == token.LEQ
			}
			return false, false
		})
		// the loop head: the sleepOrDone call that starts each round
		var head []ssa.Instruction
		for _, ci := range callsTo(G, "workceptor.sleepOrDone") {
			if engine.Reach(G, ci, nil, nil, func(in ssa.Instruction) bool { return in == ssa.Instruction(read) }) != nil {
				head = append(head, ci)
			}
		}
		isHead := func(in ssa.Instruction) bool { return isOneOf(in, head) }
		isRet := func(in ssa.Instruction) bool { _, ok := in.(*ssa.Return); return ok }
		ok := len(eofE) > 0 && len(complT) > 0 && len(posGE) > 0 && len(head) > 0
		why := fmt.Sprintf("could not find the EOF test (%d), IsComplete(status.State) (%d), a comparison of the position with the StdoutSize of the unit's Status() (%d) or the polling loop head (%d)", len(eofE), len(complT), len(posGE), len(head))
		if len(posGE) == 0 && len(eofE) > 0 && len(complT) > 0 {
			why = "the end condition does not compare the read position with the StdoutSize recorded in the unit's status (e.g. it uses the local file size, which after an end-of-file always equals the position): for remote work the stream ends on a truncated local copy as soon as the mirrored state is complete"
		}
		if ok {
			for _, e := range eofE {
				if reachFromEdge(G, e, engine.EdgeSet{}.Add(complT...), isHead, isRet) != nil {
					ok = false
					why = "after an end-of-file the stream can end although the unit's state is not complete"
				}
				if reachFromEdge(G, e, engine.EdgeSet{}.Add(posGE...), isHead, isRet) != nil {
					ok = false
					why = "after an end-of-file the stream can end although the position has not reached the StdoutSize recorded in the unit's status (for remote work the local copy lags behind the mirrored size: the stream would end on a truncated copy)"
				}
			}
		}
		r.Check("R1-completion", "GetResults: normal end requires complete state AND position >= recorded StdoutSize", G.Pos(), ok,
			"from the err == io.EOF edge, a return before the next polling round is unreachable once either the IsComplete(status.State) or the filePos >= status.StdoutSize edges are removed", why)
		// one snapshot: the state tested and the size compared are read from the same Status() result
		{
			snap := func(v ssa.Value) ssa.Value {
				v = engine.Unwrap(v)
				for i := 0; i < 6; i++ {
					switch x := v.(type) {
					case *ssa.UnOp:
						v = engine.Unwrap(x.X)
						continue
					case *ssa.FieldAddr:
						v = engine.Unwrap(x.X)
						continue
					case *ssa.Alloc:
						// a local holding the snapshot: its single stored value
						var sv ssa.Value
						n := 0
						if refs := x.Referrers(); refs != nil {
							for _, rr := range *refs {
								if st, ok := rr.(*ssa.Store); ok && st.Addr == ssa.Value(x) {
									sv = st.Val
									n++
								}
							}
						}
						if n == 1 {
							v = engine.Unwrap(sv)
							continue
						}
					}
					break
				}
				return v
			}
			same := len(statusCalls) > 0 && len(sizeBases) > 0
			stateSnaps := map[ssa.Value]bool{}
			for _, b := range statusCalls {
				stateSnaps[snap(b)] = true
			}
			for _, b := range sizeBases {
				if !stateSnaps[snap(b)] {
					same = false
				}
			}
			r.Check("R1-completion", "GetResults: state and recorded size are read from one status snapshot", G.Pos(), same,
				"IsComplete(x.State) and the comparison with x.StdoutSize use the same Status() result",
				"the completion state and the recorded size come from different Status() calls: the producer can write its last chunk and finish between them, so an old size is paired with the new state and the stream ends without the final chunk")
		}
	}
	// R2 value identity of position and data
	{
		n := callResult(read, 0)
		buf := read.Common().Args[1]
		ok := len(n) == 1 && len(seeks) >= 1
		why := "Read/Seek not found"
		if ok {
			// the running position: a loop-carried value P with P' = P + n, and Seek(P)
			var adds []*ssa.BinOp
			for _, b := range G.Blocks {
				for _, in := range b.Instrs {
					if bo, isB := in.(*ssa.BinOp); isB && bo.Op == token.ADD && engine.Unwrap(bo.Y) == n[0] {
						adds = append(adds, bo)
					}
				}
			}
			if len(adds) != 1 {
				ok = false
				why = fmt.Sprintf("expected exactly one 'position += n' (n = count of the Read), found %d", len(adds))
			} else {
				add := adds[0]
				ph, isPhi := add.X.(*ssa.Phi)
				carried := false
				if isPhi {
					var reaches func(v ssa.Value, seen map[ssa.Value]bool) bool
					reaches = func(v ssa.Value, seen map[ssa.Value]bool) bool {
						if v == ssa.Value(add) {
							return true
						}
						if seen[v] {
							return false
						}
						seen[v] = true
						if p2, ok := v.(*ssa.Phi); ok {
							for _, e := range p2.Edges {
								if reaches(e, seen) {
									return true
								}
							}
						}
						return false
					}
					carried = reaches(ph, map[ssa.Value]bool{})
				}
				if !carried {
					ok = false
					why = "the value advanced by n is not the loop-carried read position"
				}
				seekOK := false
				for _, sk := range seeks {
					a := sk.Common().Args[1]
					if a == add.X || a == ssa.Value(add) {
						seekOK = true
					}
					if p2, isP := a.(*ssa.Phi); isP {
						for _, e := range p2.Edges {
							if e == ssa.Value(add) || e == add.X {
								seekOK = true
							}
						}
					}
				}
				if !seekOK {
					ok = false
					why = "Seek is not given the running position"
				}
			}
			// data sent = buf[:n]
			sentOK := false
			for _, b := range G.Blocks {
				for _, in := range b.Instrs {
					if sel, isSel := in.(*ssa.Select); isSel {
						for _, st := range sel.States {
							if st.Send != nil {
								if sl, isSl := engine.Unwrap(st.Send).(*ssa.Slice); isSl && sl.X == buf && sl.Low == nil && sl.High == n[0] {
									sentOK = true
								}
							}
						}
					}
					if snd, isSnd := in.(*ssa.Send); isSnd {
						if sl, isSl := engine.Unwrap(snd.X).(*ssa.Slice); isSl && sl.X == buf && sl.Low == nil && sl.High == n[0] {
							sentOK = true
						}
					}
				}
			}
			if !sentOK {
				ok = false
				why = "the chunk sent is not buf[:n] of the Read that advanced the position"
			}
			// a fresh buffer per read (the receiver reads the slice asynchronously)
			fresh := false
			var allocIn ssa.Instruction
			switch x := engine.Unwrap(buf).(type) {
			case *ssa.MakeSlice:
				allocIn = x
			case *ssa.Slice:
				if al, isAl := x.X.(*ssa.Alloc); isAl && al.Heap {
					allocIn = al
				}
			}
			if allocIn != nil {
				// the allocation is executed again before the next Read (it is inside the read loop)
				fresh = engine.Reach(G, read, nil, func(in ssa.Instruction) bool { return in == allocIn }, func(in ssa.Instruction) bool { return in == ssa.Instruction(read) }) == nil
			}
			if !fresh {
				ok = false
				why = "the read buffer is reused across sends while the consumer may still hold the previous chunk"
			}
		}
		r.Check("R2-position", "GetResults: Seek(position); position += n; send buf[:n]", read.Pos(), ok,
			"the running position is what Seek gets, grows by exactly the count of each Read, and the chunk sent is that Read's buf[:n] in a fresh buffer", why)
		// resultChan closed only via sync.Once
		okOnce := true
		walkAll(gr, func(f *ssa.Function) {
			for _, ci := range engine.CallsIn(f) {
				if b, isB := ci.Common().Value.(*ssa.Builtin); isB && b.Name() == "close" && !onlyOnceBody(f) {
					okOnce = false
				}
			}
		})
		r.Check("R2-position", "GetResults: result channel closed only through sync.Once", gr.Pos(), okOnce, "every close in GetResults is a sync.Once body", "the result channel can be closed twice")
	}
	// R3 remote mirror
	{
		okStart := mirrorOffsetOK(mrs)
		r.Check("R3-mirror", "monitorRemoteStdout: requested offset = current size of the local copy", mrs.Pos(), okStart,
			"startpos is stdoutSize(rw.UnitDir()), evaluated in the same loop round", "the mirror asks for an offset other than the current local size: gaps or repeats in the local copy")
		// opens: O_APPEND, no O_TRUNC
		nOpen := 0
		okFlags := true
		for _, ci := range callsTo(mrs, "os.OpenFile") {
			nOpen++
			fl, ok := constIntDeep(ci.Common().Args[1])
			if !ok || fl&int64(syscall.O_APPEND) == 0 || fl&int64(syscall.O_TRUNC) != 0 {
				okFlags = false
			}
			if a, ok := ci.Common().Args[0].(*ssa.Call); !ok || !a.Common().IsInvoke() || a.Common().Method.Name() != "StdoutFileName" {
				okFlags = false
			}
		}
		r.Check("R3-mirror", "monitorRemoteStdout: local copy opened append-only, never truncated", mrs.Pos(), okFlags && nOpen == 2, "both opens of the stdout file use O_APPEND without O_TRUNC", "the local copy is opened without O_APPEND or with O_TRUNC")
		// normal exit: IsComplete ∧ disk >= remote
		var complT []engine.Edge
		for _, ci := range callsTo(mrs, "workceptor.IsComplete") {
			t, _ := engine.CondEdges(mrs, func(c ssa.Value) (bool, bool) { return c == ci.(ssa.Value), true })
			complT = append(complT, t...)
		}
		sizeGE, _ := engine.CondEdges(mrs, func(c ssa.Value) (bool, bool) {
			bo, ok := c.(*ssa.BinOp)
			if !ok {
				return false, false
			}
			isDisk := func(v ssa.Value) bool {
				cc, ok := v.(*ssa.Call)
				return ok && engine.IsCallTo(cc.Common(), "workceptor.stdoutSize")
			}
			isRemote := func(v ssa.Value) bool { f, _ := engine.FieldOfLoad(v); return f == stdoutSize }
			if isDisk(bo.X) && isRemote(bo.Y) {
				return bo.Op == token.GEQ || bo.Op == token.LSS, bo.Op == token.GEQ
			}
			if isRemote(bo.X) && isDisk(bo.Y) {
				return bo.Op == token.LEQ || bo.Op == token.GTR, bo.Op == token.LEQ
			}
			return false, false
		})
		// the "normal" return: reachable from the Status() call of the round without passing an error log / connection step
		var st ssa.Instruction
		for _, ci := range engine.CallsIn(mrs) {
			if o := engine.CalleeObj(ci.Common()); o != nil && o.Name() == "Status" && ci.Block().Index > 0 {
				if _, isCall := ci.(*ssa.Call); isCall {
					// the Status() whose StdoutSize is compared
					for _, rr := range *ci.(*ssa.Call).Referrers() {
						if fa, isFA := rr.(*ssa.FieldAddr); isFA && engine.FieldAddrVar(fa) == stdoutSize {
							st = ci
						}
					}
				}
			}
		}
		var conn ssa.Instruction
		for _, ci := range callsTo(mrs, "(*workceptor.remoteUnit).getConnection") {
			conn = ci
		}
		okEnd := st != nil && conn != nil && len(complT) > 0 && len(sizeGE) > 0
		if okEnd {
			barrier := func(in ssa.Instruction) bool {
				if in == conn {
					return true
				}
				ci, ok := in.(ssa.CallInstruction)
				if !ok {
					return false
				}
				// the start of the next polling round (sleep, or the first-round context check)
				o := engine.CalleeObj(ci.Common())
				return engine.IsCallTo(ci.Common(), "workceptor.sleepOrDone") || (o != nil && o.Name() == "Err")
			}
			isRet := func(in ssa.Instruction) bool { _, ok := in.(*ssa.Return); return ok }
			if engine.Reach(mrs, st, engine.EdgeSet{}.Add(complT...), barrier, isRet) != nil || engine.Reach(mrs, st, engine.EdgeSet{}.Add(sizeGE...), barrier, isRet) != nil {
				okEnd = false
			}
		}
		// no other "the unit is complete, stop" exit: from every IsComplete == true edge a return before the
		// next round needs the size comparison too
		for _, e := range complT {
			if reachFromEdge(mrs, e, engine.EdgeSet{}.Add(sizeGE...), func(in ssa.Instruction) bool {
				ci, ok := in.(ssa.CallInstruction)
				if !ok {
					return false
				}
				o := engine.CalleeObj(ci.Common())
				return in == conn || engine.IsCallTo(ci.Common(), "workceptor.sleepOrDone") || (o != nil && o.Name() == "Err")
			}, func(in ssa.Instruction) bool { _, ok := in.(*ssa.Return); return ok }) != nil {
				okEnd = false
			}
		}
		r.Check("R3-mirror", "monitorRemoteStdout: ends normally only when complete AND local size >= remote size", mrs.Pos(), okEnd,
			"after reading the status, a return before the next round/connection is unreachable once either condition's edges are removed", "the mirror can stop although the unit is not complete or the local copy is still shorter than the remote output")
		// the copy source is the reader that consumed the header
		var copyCall ssa.CallInstruction
		for _, ci := range callsTo(mrs, "io.Copy") {
			copyCall = ci
		}
		okSrc := false
		whySrc := "io.Copy not found"
		if copyCall != nil {
			src := engine.Unwrap(copyCall.Common().Args[1])
			var hdrReader ssa.Value
			for _, ci := range callsTo(mrs, "utils.ReadStringContext") {
				hdrReader = engine.Unwrap(ci.Common().Args[1])
			}
			okSrc = hdrReader != nil && sameCellOrValue(src, hdrReader)
			whySrc = "the bytes copied into the local file do not come from the buffered reader that read the reply header: output bytes that arrived together with the header line stay in that reader's buffer and are skipped — the local copy gets a gap"
		}
		r.Check("R3-mirror", "monitorRemoteStdout: output is copied from the reader that consumed the header", mrs.Pos(), okSrc, "io.Copy(stdout, reader) uses the same bufio.Reader as ReadStringContext", whySrc)
		// retry on transfer errors: after a failed write/read/copy the loop continues (no return)
		nRetry, okRetry := 0, true
		for _, ci := range engine.CallsIn(mrs) {
			call, ok := ci.(*ssa.Call)
			if !ok {
				continue
			}
			name := ""
			if o := engine.CalleeObj(ci.Common()); o != nil {
				name = o.Name()
			}
			isXfer := (ci.Common().IsInvoke() && name == "Write" && strings.Contains(ci.Common().Value.Type().String(), "net.Conn")) || engine.IsCallTo(ci.Common(), "utils.ReadStringContext", "io.Copy")
			if !isXfer {
				continue
			}
			nRetry++
			cut, tested := assumeFails(mrs, call)
			if !tested {
				okRetry = false
				continue
			}
			hit := engine.Reach(mrs, call, cut, func(in ssa.Instruction) bool {
				c2, ok := in.(ssa.CallInstruction)
				if !ok {
					return false
				}
				o := engine.CalleeObj(c2.Common())
				return engine.IsCallTo(c2.Common(), "workceptor.sleepOrDone") || (o != nil && o.Name() == "Err")
			}, func(in ssa.Instruction) bool { _, ok := in.(*ssa.Return); return ok })
			if hit != nil {
				okRetry = false
			}
		}
		r.Check("R3-mirror", "monitorRemoteStdout: transfer errors retry instead of ending the mirror", mrs.Pos(), okRetry && nRetry == 3,
			"assuming the request write, the header read or the copy fails, no return is reachable before the next polling round", "a broken connection ends the mirror for good: the local copy never becomes equal to the remote output")
	}
	// R4 WriteToConn
	{
		ok := false
		for _, ci := range engine.CallsIn(wtc) {
			c := ci.Common()
			if c.IsInvoke() && c.Method.Name() == "Write" {
				// argument is the range element of the channel parameter
				if e, isE := engine.Unwrap(c.Args[0]).(*ssa.Extract); isE {
					if nx, isN := e.Tuple.(*ssa.Next); isN && nx.Iter == ssa.Value(wtc.Params[2]) {
						okp, _ := errorPropagates(wtc, ci.(*ssa.Call))
						ok = okp
					}
				}
				if u, isU := engine.Unwrap(c.Args[0]).(*ssa.UnOp); isU && u.Op == token.ARROW {
					okp, _ := errorPropagates(wtc, ci.(*ssa.Call))
					ok = okp
				}
				if e, isE := engine.Unwrap(c.Args[0]).(*ssa.Extract); isE && e.Index == 0 {
					if u, isU := e.Tuple.(*ssa.UnOp); isU && u.Op == token.ARROW && u.X == ssa.Value(wtc.Params[2]) {
						okp, _ := errorPropagates(wtc, ci.(*ssa.Call))
						ok = okp
					}
				}
			}
		}
		r.Check("R4-forwarder", "SockControl.WriteToConn: each channel element is written unchanged; a write error ends the stream", wtc.Pos(), ok,
			"conn.Write(element) for every element received, returning the first error", "WriteToConn alters the chunks or keeps going after a failed write")
	}
}

func statusFrom(base ssa.Value) bool {
	c, ok := engine.Unwrap(base).(*ssa.Call)
	if !ok {
		if u, isU := engine.Unwrap(base).(*ssa.UnOp); isU {
			if al, isA := u.X.(*ssa.Alloc); isA {
				if sv := storedVal(al); sv != nil {
					return statusFrom(sv)
				}
			}
		}
		return false
	}
	o := engine.CalleeObj(c.Common())
	return o != nil && o.Name() == "Status"
}

func isParamLike(v ssa.Value) bool {
	switch x := v.(type) {
	case *ssa.Parameter:
		return true
	case *ssa.UnOp:
		_, isFV := x.X.(*ssa.FreeVar)
		_, isAl := x.X.(*ssa.Alloc)
		return isFV || isAl
	case *ssa.FreeVar:
		return true
	}
	return false
}

func walkAll(f *ssa.Function, visit func(*ssa.Function)) {
	visit(f)
	for _, a := range f.AnonFuncs {
		walkAll(a, visit)
	}
}

// sameCellOrValue: two uses denote the same local variable (same SSA value, or loads of the same cell).
func sameCellOrValue(a, b ssa.Value) bool {
	if a == b {
		return true
	}
	ca, cb := loadOfCell(a), loadOfCell(b)
	return ca != nil && ca == cb
}

// mirrorOffsetOK: the "startpos" the remote mirror asks for is stdoutSize(rw.UnitDir()) — the size
// of the local copy on disk at that moment (so it is right after a restart of the daemon too).
func mirrorOffsetOK(mrs *ssa.Function) bool {
	var startposVal ssa.Value
	for _, b := range mrs.Blocks {
		for _, in := range b.Instrs {
			if mu, ok := in.(*ssa.MapUpdate); ok {
				if k, isS := engine.ConstString(mu.Key); isS && k == "startpos" {
					startposVal = engine.Unwrap(mu.Value)
				}
			}
		}
	}
	if c, ok := startposVal.(*ssa.Call); ok && engine.IsCallTo(c.Common(), "workceptor.stdoutSize") {
		if a, ok := c.Common().Args[0].(*ssa.Call); ok && a.Common().IsInvoke() && a.Common().Method.Name() == "UnitDir" {
			return true
		}
	}
	return false
}
