package rules

import (
	"fmt"
	"go/token"
	"go/types"

	"golang.org/x/tools/go/ssa"

	"rcheck/engine"
)

// decodeTargets finds the receptor struct types that are json.Unmarshal / yaml targets in the
// given functions (the type behind the pointer passed as the second argument).
func decodeTargets(p *engine.Program, fns []*ssa.Function) map[*types.Named][]string {
	out := map[*types.Named][]string{}
	for _, fn := range fns {
		for _, ci := range engine.CallsIn(fn) {
			if !engine.IsCallTo(ci.Common(), "encoding/json.Unmarshal", "(*encoding/json.Decoder).Decode") {
				continue
			}
			args := ci.Common().Args
			a := args[len(args)-1]
			t := engine.Unwrap(a).Type()
			if pt, ok := t.Underlying().(*types.Pointer); ok {
				if n, ok := pt.Elem().(*types.Named); ok {
					if _, isStruct := n.Underlying().(*types.Struct); isStruct {
						out[n] = append(out[n], engine.FuncName(fn))
					}
				}
			}
		}
	}
	return out
}

// nilFieldObligations: for every pointer-typed field F of a decode-target struct type T, every
// dereference (field selection, store, load through) of a value loaded from F inside fns must be
// unreachable once the edges on which "F != nil" is established are removed. A MapUpdate on a
// map-typed field of T needs a dominating non-nil test as well.
func nilFieldObligations(r *engine.Report, p *engine.Program, rule string, fns []*ssa.Function, targets map[*types.Named][]string) {
	for T := range targets {
		st := T.Underlying().(*types.Struct)
		for i := 0; i < st.NumFields(); i++ {
			f := st.Field(i)
			switch f.Type().Underlying().(type) {
			case *types.Pointer, *types.Map:
			default:
				continue
			}
			_, isMap := f.Type().Underlying().(*types.Map)
			for _, fn := range fns {
				for _, acc := range engine.FieldAccessesIn(fn, f) {
					// the loaded pointer value
					var deref ssa.Instruction
					var loaded ssa.Value
					switch acc.Kind {
					case engine.AccLoad, engine.AccCall:
						// acc.Instr uses the loaded value; is that use a dereference?
						switch u := acc.Instr.(type) {
						case *ssa.FieldAddr:
							deref, loaded = u, u.X
						case *ssa.UnOp:
							if u.Op == token.MUL {
								deref, loaded = u, u.X
							}
						case *ssa.Store:
							// storing the pointer somewhere is no deref; storing THROUGH it is
							if _, isPtr := f.Type().Underlying().(*types.Pointer); isPtr && u.Addr.Type() == f.Type() {
								deref, loaded = u, u.Addr
							}
						case ssa.CallInstruction:
							if acc.Kind == engine.AccCall {
								deref = u
							}
						}
					case engine.AccMapUpdate:
						if isMap {
							deref = acc.Instr
						}
					}
					if deref == nil {
						continue
					}
					_ = loaded
					base := acc.Base
					_, nonNil := engine.NilCmpEdges(fn, func(v ssa.Value) bool {
						ff, b := engine.FieldOfLoad(v)
						return ff == f && b == base
					})
					cut := engine.EdgeSet{}.Add(nonNil...)
					hit := engine.Reach(fn, nil, cut, nil, func(in ssa.Instruction) bool { return in == deref })
					construct := fmt.Sprintf("%s: deref of %s.%s", engine.FuncName(fn), T.Obj().Name(), f.Name())
					if hit == nil {
						r.Add(rule, construct, deref.Pos(), engine.Discharged,
							fmt.Sprintf("every path to the dereference passes a test establishing %s.%s != nil (%d guarding edge(s))", T.Obj().Name(), f.Name(), len(nonNil)))
					} else {
						// fresh literal in this function? (constructed locally with the field set)
						if engine.IsFreshAlloc(base) && storesNonNil(fn, f, base) {
							r.Add(rule, construct, deref.Pos(), engine.Discharged, "the struct is built in this function with the field set to a fresh non-nil value")
							continue
						}
						r.Add(rule, construct, deref.Pos(), engine.Violated,
							fmt.Sprintf("%s.%s is decoded from peer/client data (json.Unmarshal leaves it nil when absent) and is dereferenced on a path without a nil test", T.Obj().Name(), f.Name()))
					}
				}
			}
		}
	}
}

// storesNonNil: fn stores into base.f a value that is an address-of/alloc (non-nil) and the
// struct never passes through a decoder in fn.
func storesNonNil(fn *ssa.Function, f *types.Var, base ssa.Value) bool {
	for _, ci := range engine.CallsIn(fn) {
		if engine.IsCallTo(ci.Common(), "encoding/json.Unmarshal") {
			for _, a := range ci.Common().Args {
				if engine.Unwrap(a) == base {
					return false
				}
			}
		}
	}
	for _, acc := range engine.FieldAccessesIn(fn, f) {
		if acc.Kind == engine.AccStore && acc.Base == base {
			if st, ok := acc.Instr.(*ssa.Store); ok {
				switch engine.Unwrap(st.Val).(type) {
				case *ssa.Alloc, *ssa.MakeMap:
					return true
				}
			}
		}
	}
	return false
}
