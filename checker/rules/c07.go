package rules

import (
	"fmt"
	"go/token"
	"go/types"

	"golang.org/x/tools/go/ssa"

	"rcheck/engine"
)

func init() { register("C07", c07) }

// netceptorLockFields returns the *sync.RWMutex fields of Netceptor (and connInfo).
func netceptorLockFields(p *engine.Program) map[*types.Var]bool {
	out := map[*types.Var]bool{}
	for _, tn := range []string{"Netceptor", "connInfo", "PacketConn"} {
		n := p.NamedType("netceptor", tn)
		if n == nil {
			continue
		}
		st := n.Underlying().(*types.Struct)
		for i := 0; i < st.NumFields(); i++ {
			ts := st.Field(i).Type().String()
			if ts == "*sync.RWMutex" || ts == "sync.RWMutex" || ts == "sync.Mutex" || ts == "*sync.Mutex" {
				out[st.Field(i)] = true
			}
		}
	}
	return out
}

// blockingUnderLock table: (function, channel field, held lock field) → reason.
var blockingUnderLockOK = map[string]string{
	"(*netceptor.Netceptor).handleRoutingUpdate|sendRouteFloodChan|knownNodeLock": "the only receiver of sendRouteFloodChan is the tickrunner loop, whose action sendRoutingUpdate takes connLock and sequenceLock only (never knownNodeLock); the send is a select arm next to s.context.Done()",
}

func c07(r *engine.Report, p *engine.Program) {
	r.Explanation = "Decides panic-freedom of the wire cone (all receptor code reachable from bytes a backend peer sent) for the panic classes index/slice out of range, nil dereference of decoded pointer fields, unchecked type assertion, explicit panic, channel close by a non-owner; plus two wedge classes: lock re-entrancy / lock-order cycles among the Netceptor locks, and non-termination of the shortest-path loop on peer-supplied non-positive costs. Decides these structural clauses for every input, not the behaviour 'keeps routing afterwards'."
	r.NotDecided = []string{"memory/CPU exhaustion (unbounded nameHashes, seenUpdates, framer buffer)", "liveness for well-behaved peers afterwards", "panics inside third-party decoders (encoding/json, gorilla/websocket, quic-go)"}
	r.Assumptions = []string{
		"io.Reader-style calls return 0 <= n <= len(buf)",
		"strings.Split with a non-empty separator returns at least one element",
		"json.Unmarshal leaves pointer/map/slice/interface fields nil when absent or null",
		"the Go compiler's prove pass (bounds-check elimination) is sound",
		"VTA call graph over receptor bodies with opaque dependencies is a sound over-approximation of calls between receptor functions",
	}
	cone := wireCone(r, p)
	fns := cone.Sorted()
	r.Extra["cone_sizes"] = map[string]int{"wire": len(fns)}
	names := []string{}
	for _, f := range fns {
		names = append(names, engine.FuncName(f))
	}
	r.Extra["wire_cone"] = names
	inCone := func(fn *ssa.Function) bool { return cone.Fns[fn] }

	// O1 bounds
	us, err := p.BCEReport("")
	if err != nil {
		r.Broken("%v", err)
		return
	}
	nIn := 0
	for _, u := range us {
		if u.Fn != nil && inCone(u.Fn) {
			nIn++
		}
	}
	r.Extra["bce_unproven_total"] = len(us)
	r.Extra["bce_unproven_in_cone"] = nIn
	boundsObligations(r, p, "O1-bounds", inCone, us)
	r.Min("O1-bounds", 8)

	// O2 nil derefs of decoded pointer fields
	targets := decodeTargets(p, fns)
	tn := []string{}
	for t, where := range targets {
		tn = append(tn, fmt.Sprintf("%s (decoded in %v)", t.Obj().Name(), where))
	}
	r.Extra["decode_targets"] = tn
	if len(targets) < 3 {
		r.Add("O2-nil", "decode targets in wire cone", token.NoPos, engine.Violated, fmt.Sprintf("expected at least 3 json.Unmarshal target types in the wire cone (routingUpdate, serviceAdvertisementFull, UnreachableMessage), found %d", len(targets)))
	}
	nilFieldObligations(r, p, "O2-nil", fns, targets)
	r.Min("O2-nil", 2)

	// O3 unchecked type assertions, O4 explicit panics, O5 close of channels in the cone
	for _, fn := range fns {
		for _, b := range fn.Blocks {
			for _, in := range b.Instrs {
				switch x := in.(type) {
				case *ssa.TypeAssert:
					if !x.CommaOk {
						r.Add("O3-typeassert", engine.FuncName(fn)+": "+x.String(), x.Pos(), engine.Violated, "type assertion without comma-ok in code reachable from peer bytes")
					} else {
						r.Add("O3-typeassert", engine.FuncName(fn)+": "+x.String(), x.Pos(), engine.Discharged, "comma-ok form").Trivial = true
					}
				case *ssa.Panic:
					if x.Pos().IsValid() {
						r.Add("O4-panic", engine.FuncName(fn)+": panic", x.Pos(), engine.Violated, "explicit panic reachable from peer bytes")
					}
				case ssa.CallInstruction:
					if b, ok := x.Common().Value.(*ssa.Builtin); ok && b.Name() == "close" {
						if onlyOnceBody(fn) {
							r.Add("O5-close", engine.FuncName(fn)+": close("+chanDesc(x.Common().Args[0])+")", x.Pos(), engine.Discharged, "the close is the body of a sync.Once.Do: at most one close per channel")
							continue
						}
						r.Add("O5-close", engine.FuncName(fn)+": close("+chanDesc(x.Common().Args[0])+")", x.Pos(), engine.Violated,
							"a channel is closed from the wire cone, which runs concurrently in every backend session goroutine: double close / send on closed channel panic")
					}
				}
			}
		}
	}
	// O4: SetReadDeadline of netMessageConn panics ("implement me"): must have no caller
	if f := p.Func("(*netceptor.netMessageConn).SetReadDeadline"); f != nil {
		sites := p.CallSitesOf(f.Object().(*types.Func))
		r.Check("O4-panic", "(*netceptor.netMessageConn).SetReadDeadline: callers", f.Pos(), len(sites) == 0 && fnValueUses(p, f) == 0,
			"the unimplemented (panicking) method has no caller and is never used as a value", fmt.Sprintf("the panicking method now has %d caller(s)", len(sites)))
	}

	// O6 wedge: re-entrancy and lock order among Netceptor locks
	lockFields := netceptorLockFields(p)
	var scope []*ssa.Function
	for _, fn := range p.Funcs() {
		if inPkg(fn, "netceptor") && !engine.IsMock(fn) {
			scope = append(scope, fn)
		}
	}
	nre := reentrancyObligations(r, p, "O6-reentrancy", scope, lockFields)
	// one summary obligation so that the rule's coverage is visible
	nHeldCalls := 0
	for _, fn := range scope {
		lf := p.Locks(fn)
		for _, ci := range engine.CallsIn(fn) {
			if _, isOp := p.LockOpOf(ci); isOp {
				continue
			}
			if len(lf.HeldAt(ci)) > 0 {
				nHeldCalls++
			}
		}
	}
	r.Check("O6-reentrancy", "netceptor: calls made with a lock held", token.NoPos, nre == 0,
		fmt.Sprintf("%d call sites in package netceptor are made with a lock must-held; none of their (transitive, same-goroutine) callees re-acquires the held lock", nHeldCalls),
		fmt.Sprintf("%d re-entrant acquisition(s), see the individual obligations", nre))
	lockOrderRule(r, p, "O6-lockorder", scope, lockFields)
	// O6 blocking channel sends performed with a lock must-held (cone only)
	blockingSendsUnderLock(r, p, "O6-blocking-send", fns)
	r.Min("O6-blocking-send", 1)

	// O7 positivity of peer-supplied costs (shared with C01-R4)
	costPositivity(r, p, "O7-cost-positive")
	{
		okM, whyM, nM := adjacencyMapsAreFresh(p)
		r.Check("O2-nil", "knownConnectionCosts: every row is a map made here, never a peer-decoded map", token.NoPos, okM,
			fmt.Sprintf("%d row installations, all make(map[string]float64)", nM), whyM)
	}

	// O8 a session that is rejected must not disturb other peers: it never removes the ID it merely
	// announced (shared with C11-R4)
	if rp := p.Func("(*netceptor.Netceptor).runProtocol"); rp != nil {
		conns := p.Field("netceptor", "Netceptor", "connections")
		var ins *ssa.MapUpdate
		for _, a := range engine.FieldAccessesIn(rp, conns) {
			if mu, ok := a.Instr.(*ssa.MapUpdate); ok {
				ins = mu
			}
		}
		if ins != nil {
			wr := removalWrappers(p)
			noEarlyRemoval(r, p, "O8-no-collateral-removal", rp, ins, engine.Unwrap(ins.Key), removalsIn(p, rp, wr))
		} else {
			r.Add("O8-no-collateral-removal", "runProtocol: connection-table insertion", rp.Pos(), engine.Violated, "insertion site not found")
		}
	}
	// O9 no function of the cone returns with a lock still held (a leaked lock wedges the node)
	lockBalance(r, p, "O9-lock-balance", scope, lockFields)
	// O10 reserved-service handlers cannot be made to answer themselves
	replyLoopRule(r, p, "O10-reply-loop")
	// O11 the shared UDP demultiplexer cannot be blocked by one peer's dead session
	sharedDemuxRule(r, p, "O11-shared-demux")
	// O12 peer-supplied routing updates cannot delete this node's own adjacency (it would stop
	// routing for its well-behaved neighbours): clause decided by C01's own-row rules
	{
		sub := engine.NewReport("C01", r.Tier, p)
		c01(sub, p)
		if r.ImportFrom(sub, "O12-own-adjacency", "R3-own-row") < 2 {
			r.Broken("C01 own-row obligations not generated")
		}
	}
	// O14 nothing a peer sends can make the node stop itself
	{
		shut := p.Func("(*netceptor.Netceptor).Shutdown")
		if shut == nil {
			r.Broken("Netceptor.Shutdown not found")
		} else {
			n := 0
			if obj, _ := shut.Object().(*types.Func); obj != nil {
				for _, cs := range p.CallSitesOf(obj) {
					f := cs.Parent()
					if engine.IsMock(f) || !cone.Fns[engine.Outermost(f)] && !cone.Fns[f] {
						continue
					}
					n++
					site := engine.FuncName(engine.Outermost(f))
					// a private helper extracted from the update handler is the handler's own code
					if owner := privateHelperOf(p, engine.Outermost(f), map[string]bool{"(*netceptor.Netceptor).handleRoutingUpdate": true}); owner != "" {
						site = owner
					}
					r.Add("O14-remote-shutdown", site+": calls Shutdown on the strength of a peer's message", cs.Pos(), engine.Violated,
						"Shutdown() is reachable from bytes a backend peer sent: a routing update naming this node's ID with SuspectedDuplicate equal to this node's epoch (which the node discloses in its own updates) and a different UpdateEpoch makes the node cancel its root context — one message from any established peer stops the node for all its other peers")
				}
			}
			if n == 0 {
				r.Add("O14-remote-shutdown", "Shutdown: callers in the wire cone", shut.Pos(), engine.Discharged, "Shutdown() is not reachable from code that handles peer bytes")
			}
		}
	}
	// O15 what the relay pushes onto another peer's connection is bounded by the MTU (the TCP
	// framing carries a 16-bit length, UDP has its datagram limit: an oversized packet accepted
	// from one peer must not corrupt or reset a well-behaved peer's connection)
	if fm := p.Func("(*netceptor.Netceptor).forwardMessage"); fm != nil {
		mtuF := p.Field("netceptor", "Netceptor", "mtu")
		dataF := p.Field("netceptor", "MessageData", "Data")
		var sends []ssa.Instruction
		for _, b := range fm.Blocks {
			for _, in := range b.Instrs {
				switch x := in.(type) {
				case *ssa.Send:
					sends = append(sends, in)
				case *ssa.Select:
					for _, st := range x.States {
						if st.Dir == types.SendOnly {
							sends = append(sends, in)
						}
					}
				}
			}
		}
		// edges on which len(md.Data) <= mtu
		var within []engine.Edge
		for _, i := range engine.Ifs(fm) {
			bo, ok := i.Cond.(*ssa.BinOp)
			if !ok {
				continue
			}
			isLen := func(v ssa.Value) bool {
				c, isC := engine.Unwrap(v).(*ssa.Call)
				if !isC {
					return false
				}
				bi, isB := c.Common().Value.(*ssa.Builtin)
				if !isB || bi.Name() != "len" {
					return false
				}
				f, _ := engine.FieldOfLoad(c.Common().Args[0])
				return f == dataF
			}
			isMTU := func(v ssa.Value) bool { f, _ := engine.FieldOfLoad(v); return f == mtuF }
			op := bo.Op
			switch {
			case isLen(bo.X) && isMTU(bo.Y):
			case isLen(bo.Y) && isMTU(bo.X):
				op = flipOp(op)
			default:
				continue
			}
			switch op {
			case token.GTR: // len > mtu : false edge is within
				within = append(within, engine.Edge{From: i.Block(), Succ: 1})
			case token.LEQ:
				within = append(within, engine.Edge{From: i.Block(), Succ: 0})
			}
		}
		ok := len(sends) > 0 && len(within) > 0
		if ok {
			cut := engine.EdgeSet{}.Add(within...)
			if engine.Reach(fm, nil, cut, nil, func(in ssa.Instruction) bool { return isOneOf(in, sends) }) != nil {
				ok = false
			}
		}
		r.Check("O15-relay-bounded", "forwardMessage: only payloads within the MTU are pushed onto a neighbour's connection", fm.Pos(), ok,
			"the hand-off to the next hop's writer is unreachable once the len(md.Data) <= mtu edges are removed",
			"the relay forwards packets of any size: a peer on a backend without a size limit (websocket) can send a >65535-byte packet for a node behind a TCP link — the 16-bit length prefix wraps and that well-behaved neighbour's stream is mis-framed from then on (or, behind UDP, its session is torn down by the failed send)")
	}
	// O13 the reader side never writes to a websocket
	wsSingleWriterRule(r, p, "O13-ws-single-writer")
}

func chanDesc(v ssa.Value) string {
	if f, _ := engine.FieldOfLoad(v); f != nil {
		return f.Name()
	}
	return v.Name()
}

// onlyOnceBody: fn is an anonymous function whose only use is as the argument of (*sync.Once).Do.
func onlyOnceBody(fn *ssa.Function) bool {
	par := fn.Parent()
	if par == nil {
		return false
	}
	uses, once := 0, 0
	for _, b := range par.Blocks {
		for _, in := range b.Instrs {
			mc, ok := in.(*ssa.MakeClosure)
			var fv ssa.Value
			if ok && mc.Fn == ssa.Value(fn) {
				fv = mc
			}
			if fv == nil {
				continue
			}
			for _, rr := range *mc.Referrers() {
				uses++
				if ci, ok := rr.(ssa.CallInstruction); ok && engine.IsCallTo(ci.Common(), "(*sync.Once).Do") {
					once++
				}
			}
		}
	}
	// closures without free variables are plain function values
	for _, b := range par.Blocks {
		for _, in := range b.Instrs {
			if ci, ok := in.(ssa.CallInstruction); ok {
				for _, a := range ci.Common().Args {
					if a == ssa.Value(fn) {
						uses++
						if engine.IsCallTo(ci.Common(), "(*sync.Once).Do") {
							once++
						}
					}
				}
			}
		}
	}
	return uses > 0 && uses == once
}
